From Coq Require Import ZArith List Bool Lia ZifyBool Arith.
From S3V Require Import model.Progress model.Retry proofs.ProgressProofs.
Import ListNotations.
Open Scope Z_scope.

Ltac splits := repeat match goal with |- _ /\ _ => split end.

(** * Trace projections *)

Lemma progress_of_app a b : progress_of (a ++ b) = progress_of a ++ progress_of b.
Proof. induction a as [|[|n|o d] a IH]; cbn [progress_of app]; congruence. Qed.

Lemma requests_of_app a b : requests_of (a ++ b) = (requests_of a + requests_of b)%nat.
Proof. induction a as [|[|n|o d] a IH]; cbn [requests_of app]; lia. Qed.

Lemma progress_of_gprog n : progress_of (gprog n) = if n =? 0 then [] else [n].
Proof. unfold gprog. destruct (n =? 0); reflexivity. Qed.

Lemma zsum_progress_gprog n : zsum (progress_of (gprog n)) = n.
Proof. rewrite progress_of_gprog. destruct (n =? 0) eqn:E; cbn [zsum]; lia. Qed.

Lemma requests_of_gprog n : requests_of (gprog n) = 0%nat.
Proof. unfold gprog. destruct (n =? 0); reflexivity. Qed.

(** Deliveries of a trace, in order. *)
Fixpoint deliveries_of (tr : list gev) : list (Z * list Z) :=
  match tr with
  | [] => []
  | GDeliver o d :: r => (o, d) :: deliveries_of r
  | _ :: r => deliveries_of r
  end.

Lemma deliveries_of_app a b : deliveries_of (a ++ b) = deliveries_of a ++ deliveries_of b.
Proof. induction a as [|[|n|o d] a IH]; cbn [deliveries_of app]; congruence. Qed.

Lemma deliveries_of_gprog n : deliveries_of (gprog n) = [].
Proof. unfold gprog. destruct (n =? 0); reflexivity. Qed.

(** Deliveries are contiguous from [cur]. *)
Fixpoint contiguous (cur : Z) (ds : list (Z * list Z)) : Prop :=
  match ds with
  | [] => True
  | (o, d) :: r => o = cur /\ contiguous (cur + Z.of_nat (length d)) r
  end.

Definition delivered_bytes (ds : list (Z * list Z)) : list Z := concat (map snd ds).

(** * Body.read *)

Lemma body_read_some rest sizes kleft amt d rest' sizes' kleft' :
  1 <= amt -> body_read rest sizes kleft amt = Some (d, rest', sizes', kleft') ->
  rest = d ++ rest' /\ (d = [] -> rest = []) /\
  match kleft with
  | Some k => 0 < k /\ kleft' = Some (k - Z.of_nat (length d)) /\ Z.of_nat (length d) <= k
  | None => kleft' = None
  end.
Proof.
  intros Hamt. unfold body_read.
  set (n1 := match sizes with [] => amt | s :: _ => Z.min amt (Z.max 1 s) end).
  assert (Hn1 : 1 <= n1) by (unfold n1; destruct sizes; lia).
  assert (Hnil : forall n, 1 <= n -> firstn (Z.to_nat n) rest = [] -> rest = []).
  { intros n Hn E. destruct (Z.to_nat n) as [|m] eqn:Em; [lia|]. destruct rest; [reflexivity|discriminate E]. }
  destruct kleft as [k|].
  - destruct (k <=? 0) eqn:Ek; [discriminate|]. intros [= <- <- <- <-].
    split; [symmetry; apply firstn_skipn|]. split; [apply Hnil; lia|].
    split; [lia|]. split; [reflexivity|]. rewrite firstn_length. lia.
  - intros [= <- <- <- <-].
    split; [symmetry; apply firstn_skipn|]. split; [apply Hnil; lia|reflexivity].
Qed.

Lemma body_read_none rest sizes kleft amt :
  body_read rest sizes kleft amt = None <-> exists k, kleft = Some k /\ k <= 0.
Proof.
  unfold body_read. destruct kleft as [k|].
  - destruct (k <=? 0) eqn:Ek; split; intros H; try discriminate.
    + exists k; split; [reflexivity|lia].
    + reflexivity.
    + destruct H as (k' & [= <-] & Hk). lia.
  - split; [discriminate|]. intros (k & E & _). discriminate.
Qed.

(** * The stream loop of one attempt *)

Definition fuel_ok (fuel : nat) (rest : list Z) (first : bool) : Prop :=
  (length rest + (if first then 2 else 1) <= fuel)%nat.

Section Stream.
  Variable io_chunk : Z.
  Hypothesis Hio : 1 <= io_chunk.
  Variable done_at : option nat.

  (** Everything about one run of the loop, by induction on the fuel. *)
  Lemma stream_loop_spec fuel : forall rest sizes kleft r cur first checks tr e ck,
    stream_loop fuel rest sizes kleft r io_chunk cur first done_at checks = (tr, e, ck) ->
    let P := progress_of tr in
    let ds := deliveries_of tr in
    Forall (fun x => 0 < x) P /\
    zsum P <= Z.of_nat (length rest) /\
    requests_of tr = 0%nat /\
    contiguous cur ds /\
    (exists remaining, rest = delivered_bytes ds ++ remaining /\
       (e <> AStopped -> zsum P = Z.of_nat (length (delivered_bytes ds))) /\
       (e = AOk -> fuel_ok fuel rest first -> remaining = [])) /\
    (forall r' c', e = AFault r' c' ->
       r' = r /\ c' = cur + zsum P /\ exists k, kleft = Some k /\ k <= zsum P) /\
    (first = true -> e = AOk -> fuel_ok fuel rest first -> ds <> []).
  Proof.
    induction fuel as [|f IH]; intros rest sizes kleft r cur first checks tr e ck Hrun P ds.
    - cbn [stream_loop] in Hrun. injection Hrun as <- <- <-. subst P ds.
      cbn [progress_of deliveries_of requests_of zsum contiguous].
      splits; try apply Forall_nil; try exact I; try lia.
      + exists rest. splits; try reflexivity.
        intros _ Hf. exfalso. unfold fuel_ok in Hf. destruct first; cbn in Hf; lia.
      + intros r' c' E. discriminate E.
      + intros _ _ Hf. exfalso. unfold fuel_ok in Hf. destruct first; cbn in Hf; lia.
    - cbn [stream_loop] in Hrun.
      destruct (body_read rest sizes kleft io_chunk) as [[[[d rest'] sizes'] kleft']|] eqn:Ebr.
      2:{ injection Hrun as <- <- <-. subst P ds.
          cbn [progress_of deliveries_of requests_of zsum contiguous].
          apply body_read_none in Ebr as (k & -> & Hk).
          splits; try apply Forall_nil; try exact I; try lia.
          - exists rest. splits; try reflexivity. intros E. discriminate E.
          - intros r' c' E. injection E as <- <-. splits; try reflexivity; try lia.
            exists k. split; [reflexivity|lia].
          - intros _ E. discriminate E. }
      destruct (body_read_some _ _ _ _ _ _ _ _ Hio Ebr) as (Hrest & Hdnil & Hk).
      set (n := Z.of_nat (length d)) in *.
      destruct ((match d with [] => true | _ => false end) && negb first) eqn:Eend.
      { (* empty, not the first read: the stream ended *)
        injection Hrun as <- <- <-. subst P ds.
        cbn [progress_of deliveries_of requests_of zsum contiguous].
        assert (d = []) by (destruct d; [reflexivity|discriminate Eend]). subst d.
        rewrite (Hdnil eq_refl).
        splits; try apply Forall_nil; try exact I; try (cbn; lia).
        - exists []. splits; reflexivity.
        - intros r' c' E. discriminate E.
        - intros E. rewrite E in Eend. discriminate Eend. }
      destruct (is_done done_at checks) eqn:Edone.
      { (* the transfer is already done: return *)
        injection Hrun as <- <- <-. subst P ds.
        rewrite deliveries_of_gprog, requests_of_gprog.
        splits.
        - rewrite progress_of_gprog. destruct (n =? 0) eqn:E0; constructor; [lia|constructor].
        - rewrite zsum_progress_gprog. rewrite Hrest, app_length. lia.
        - reflexivity.
        - exact I.
        - exists rest. splits; try reflexivity.
          + intros E. congruence.
          + intros E. discriminate E.
        - intros r' c' E. discriminate E.
        - intros _ E. discriminate E. }
      destruct (stream_loop f rest' sizes' kleft' r io_chunk (cur + n) false done_at (S checks))
        as [[tr1 e1] ck1] eqn:Erec.
      injection Hrun as <- <- <-.
      destruct (IH _ _ _ _ _ _ _ _ _ _ Erec) as (I1 & I2 & I3 & I4 & (rem & I5 & I6 & I7) & I8 & _).
      subst P ds.
      rewrite progress_of_app, deliveries_of_app, requests_of_app, deliveries_of_gprog,
        requests_of_gprog.
      cbn [progress_of deliveries_of requests_of app]. rewrite zsum_app, zsum_progress_gprog.
      assert (Hlen : Z.of_nat (length rest) = n + Z.of_nat (length rest')).
      { rewrite Hrest, app_length. lia. }
      splits.
      + apply Forall_app. split; [|exact I1].
        rewrite progress_of_gprog. destruct (n =? 0) eqn:E0; constructor; [lia|constructor].
      + lia.
      + exact I3.
      + cbn [contiguous]. split; [reflexivity|exact I4].
      + exists rem. unfold delivered_bytes in *. cbn [map snd concat].
        rewrite app_length. splits.
        * rewrite <- app_assoc, <- I5. exact Hrest.
        * intros Hne. specialize (I6 Hne). fold n. lia.
        * intros Eok Hf. apply I7; [exact Eok|].
          unfold fuel_ok in *. rewrite Hrest, app_length in Hf.
          destruct first; cbn in Hf |- *.
          -- lia.
          -- assert (d <> []) by (intros ->; discriminate Eend).
             destruct d; [congruence|cbn [length] in *; lia].
      + intros r' c' E. destruct (I8 _ _ E) as (A & B & k' & C & D).
        splits; [exact A|lia|].
        destruct kleft as [k|]; [|subst kleft'; discriminate C].
        destruct Hk as (Hk0 & Hk1 & Hk2). exists k. split; [reflexivity|].
        rewrite Hk1 in C. injection C as <-. fold n in Hk2 |- *. lia.
      + intros _ _ _ E. discriminate E.
  Qed.

  (** With enough fuel and no cancellation the loop ends Ok exactly when the
      fault does not strike. *)
  Lemma stream_loop_end fuel : forall rest sizes kleft r cur first checks tr e ck,
    done_at = None -> fuel_ok fuel rest first ->
    stream_loop fuel rest sizes kleft r io_chunk cur first done_at checks = (tr, e, ck) ->
    match kleft with
    | None => e = AOk
    | Some k => if k <=? Z.of_nat (length rest) then exists c', e = AFault r c' else e = AOk
    end.
  Proof.
    intros rest sizes kleft r cur first checks tr e ck Hd. subst done_at.
    revert rest sizes kleft r cur first checks tr e ck.
    induction fuel as [|f IH]; intros rest sizes kleft r cur first checks tr e ck Hf Hrun.
    - unfold fuel_ok in Hf. destruct first; lia.
    - cbn [stream_loop] in Hrun.
      destruct (body_read rest sizes kleft io_chunk) as [[[[d rest'] sizes'] kleft']|] eqn:Ebr.
      2:{ injection Hrun as <- <- <-. apply body_read_none in Ebr as (k & -> & Hk).
          destruct (k <=? Z.of_nat (length rest)) eqn:E; [eauto|lia]. }
      destruct (body_read_some _ _ _ _ _ _ _ _ Hio Ebr) as (Hrest & Hdnil & Hk).
      destruct ((match d with [] => true | _ => false end) && negb first) eqn:Eend.
      { injection Hrun as <- <- <-.
        assert (d = []) by (destruct d; [reflexivity|discriminate Eend]). subst d.
        rewrite (Hdnil eq_refl) in *. destruct kleft as [k|]; [|reflexivity].
        destruct Hk as (Hk0 & _). cbn [length]. destruct (k <=? Z.of_nat 0) eqn:E; [lia|reflexivity]. }
      cbn [is_done] in Hrun.
      destruct (stream_loop f rest' sizes' kleft' r io_chunk (cur + Z.of_nat (length d)) false None (S checks))
        as [[tr1 e1] ck1] eqn:Erec.
      injection Hrun as <- <- <-.
      assert (Hf' : fuel_ok f rest' false).
      { unfold fuel_ok in *. rewrite Hrest, app_length in Hf. destruct first.
        - lia.
        - assert (d <> []) by (intros ->; discriminate Eend).
          destruct d; [congruence|cbn [length] in *; lia]. }
      specialize (IH _ _ _ _ _ _ _ _ _ _ Hf' Erec).
      assert (Hlen : Z.of_nat (length rest) = Z.of_nat (length d) + Z.of_nat (length rest')).
      { rewrite Hrest, app_length. lia. }
      destruct kleft as [k|].
      + destruct Hk as (Hk0 & -> & Hk2).
        destruct (k - Z.of_nat (length d) <=? Z.of_nat (length rest')) eqn:E1;
          destruct (k <=? Z.of_nat (length rest)) eqn:E2; try exact IH; lia.
      + subst kleft'. exact IH.
  Qed.
End Stream.

(** * One attempt *)

(** Does the attempt's fault strike (for a body of [len] bytes)? *)
Definition fires (f : fault) (len : Z) : bool :=
  match f with
  | NoFault => false
  | FaultOnRequest _ => true
  | FaultAfter k _ => k <=? len
  end.

Definition retryable_of (f : fault) : bool :=
  match f with
  | NoFault => true
  | FaultOnRequest r => r
  | FaultAfter _ r => r
  end.

Lemma fuel_ok_attempt body : fuel_ok (S (S (length body))) body true.
Proof. unfold fuel_ok. lia. Qed.

Lemma run_attempt_spec body start io_chunk f sizes done_at checks tr e ck :
  1 <= io_chunk ->
  run_attempt body start io_chunk f sizes done_at checks = (tr, e, ck) ->
  let P := progress_of tr in
  let ds := deliveries_of tr in
  Forall (fun x => 0 < x) P /\ zsum P <= Z.of_nat (length body) /\
  requests_of tr = 0%nat /\ contiguous start ds /\
  (exists remaining, body = delivered_bytes ds ++ remaining /\
     (e = AOk -> remaining = [] /\ ds <> [])) /\
  (e = AOk -> zsum P = Z.of_nat (length body)) /\
  (forall r' c', e = AFault r' c' -> r' = retryable_of f /\ c' = start + zsum P /\ f <> NoFault).
Proof.
  intros Hio Hrun P ds. subst P ds. destruct f as [|r|k r]; cbn [run_attempt] in Hrun.
  - destruct (stream_loop_spec io_chunk Hio done_at _ _ _ _ _ _ _ _ _ _ _ Hrun)
      as (S1 & S2 & S3 & S4 & (rem & S5 & S6 & S7) & S8 & S9).
    repeat split; try assumption.
    + exists rem. split; [exact S5|]. intros E. split; [apply S7; [exact E|apply fuel_ok_attempt]|].
      apply S9; [reflexivity|exact E|apply fuel_ok_attempt].
    + intros E. rewrite S6 by (rewrite E; discriminate).
      rewrite (S7 E (fuel_ok_attempt body)), app_nil_r in S5. now rewrite <- S5.
    + destruct (S8 _ _ H) as (_ & _ & k & Hk & _). discriminate Hk.
    + destruct (S8 _ _ H) as (_ & B & _). exact B.
    + destruct (S8 _ _ H) as (_ & _ & k & Hk & _). discriminate Hk.
  - injection Hrun as <- <- <-. cbn.
    repeat split; try constructor; try lia.
    + exists body. split; [reflexivity|]. discriminate.
    + discriminate.
    + injection H as <- <-. reflexivity.
    + injection H as <- <-. lia.
    + discriminate.
  - destruct (stream_loop_spec io_chunk Hio done_at _ _ _ _ _ _ _ _ _ _ _ Hrun)
      as (S1 & S2 & S3 & S4 & (rem & S5 & S6 & S7) & S8 & S9).
    repeat split; try assumption.
    + exists rem. split; [exact S5|]. intros E. split; [apply S7; [exact E|apply fuel_ok_attempt]|].
      apply S9; [reflexivity|exact E|apply fuel_ok_attempt].
    + intros E. rewrite S6 by (rewrite E; discriminate).
      rewrite (S7 E (fuel_ok_attempt body)), app_nil_r in S5. now rewrite <- S5.
    + destruct (S8 _ _ H) as (A & _). exact A.
    + destruct (S8 _ _ H) as (_ & B & _). exact B.
    + discriminate.
Qed.

Lemma run_attempt_end body start io_chunk f sizes checks tr e ck :
  1 <= io_chunk ->
  run_attempt body start io_chunk f sizes None checks = (tr, e, ck) ->
  if fires f (Z.of_nat (length body)) then exists c', e = AFault (retryable_of f) c' else e = AOk.
Proof.
  intros Hio Hrun. destruct f as [|r|k r]; cbn [run_attempt fires retryable_of] in *.
  - exact (stream_loop_end io_chunk Hio None _ _ _ None _ _ _ _ _ _ _ eq_refl
             (fuel_ok_attempt body) Hrun).
  - injection Hrun as <- <- <-. eauto.
  - exact (stream_loop_end io_chunk Hio None _ _ _ (Some k) _ _ _ _ _ _ _ eq_refl
             (fuel_ok_attempt body) Hrun).
Qed.

(** * Running sums of progress lists *)

Lemma pos_sum_nonneg l : Forall (fun x => 0 < x) l -> 0 <= zsum l.
Proof. induction 1 as [|x l Hx _ IH]; cbn [zsum]; lia. Qed.

Lemma pos_prefix_le l : Forall (fun x => 0 < x) l ->
  forall k, 0 <= zsum (firstn k l) <= zsum l.
Proof.
  induction 1 as [|x l Hx Hl IH]; intros k.
  - rewrite firstn_nil. cbn. lia.
  - pose proof (pos_sum_nonneg l Hl). destruct k as [|k]; cbn [firstn zsum].
    + lia.
    + specialize (IH k). lia.
Qed.

Lemma within_positive n l : Forall (fun x => 0 < x) l -> zsum l <= n -> within n l.
Proof. intros Hpos Hle k. pose proof (pos_prefix_le l Hpos k). lia. Qed.

Lemma within_app_zero n a b : within n a -> zsum a = 0 -> within n b -> within n (a ++ b).
Proof.
  intros Ha Hz Hb k. rewrite firstn_app, zsum_app.
  destruct (Nat.le_ge_cases k (length a)) as [L|G].
  - replace (k - length a)%nat with 0%nat by lia. cbn [firstn zsum]. specialize (Ha k). lia.
  - rewrite firstn_all2 by exact G. rewrite Hz. specialize (Hb (k - length a)%nat). lia.
Qed.

Lemma within_snoc_rewind n a : within n a -> within n (a ++ (if - zsum a =? 0 then [] else [- zsum a])).
Proof.
  intros Ha k. destruct (- zsum a =? 0) eqn:E; [rewrite app_nil_r; apply Ha|].
  rewrite firstn_app, zsum_app.
  destruct (Nat.le_ge_cases k (length a)) as [L|G].
  - replace (k - length a)%nat with 0%nat by lia. cbn [firstn zsum]. specialize (Ha k). lia.
  - rewrite firstn_all2 by exact G.
    destruct (k - length a)%nat as [|j]; cbn [firstn zsum].
    + specialize (Ha (length a)). rewrite firstn_all in Ha. lia.
    + rewrite firstn_nil. cbn [zsum]. pose proof (within_nonneg _ _ Ha). lia.
Qed.

(** * The retry loop *)

Section Loop.
  Variable body : list Z.
  Variables start io_chunk : Z.
  Hypothesis Hio : 1 <= io_chunk.
  Let len := Z.of_nat (length body).

  (** For every fault script, read script and cancellation point. *)
  Lemma attempts_loop_spec done_at left : forall faults reads checks tr o,
    attempts_loop left body start io_chunk faults reads done_at checks = (tr, o) ->
    (requests_of tr <= left)%nat /\
    within len (progress_of tr) /\
    (o = Ok -> zsum (progress_of tr) = len) /\
    (o = RetriesExceeded -> zsum (progress_of tr) = 0 /\ requests_of tr = left) /\
    (o = Raised -> exists i, requests_of tr = S i /\
        retryable_of (nth i faults NoFault) = false /\ nth i faults NoFault <> NoFault /\
        forall j, (j < i)%nat -> retryable_of (nth j faults NoFault) = true /\
                                   nth j faults NoFault <> NoFault).
  Proof.
    induction left as [|l IH]; intros faults reads checks tr o Hrun.
    - cbn [attempts_loop] in Hrun. injection Hrun as <- <-. cbn [requests_of progress_of zsum].
      splits; try lia; try (intros E; discriminate E).
      all: try (intros k; rewrite firstn_nil; cbn; unfold len; lia).
      all: try (intros _; split; reflexivity).
    - cbn [attempts_loop] in Hrun.
      destruct (run_attempt body start io_chunk (hd NoFault faults) (hd [] reads) done_at checks)
        as [[tr1 e] ck] eqn:Eat.
      destruct (run_attempt_spec _ _ _ _ _ _ _ _ _ _ Hio Eat)
        as (A1 & A2 & A3 & A4 & _ & A6 & A7).
      assert (Hw1 : within len (progress_of tr1)) by (apply within_positive; assumption).
      assert (Hhd : hd NoFault faults = nth 0 faults NoFault) by (destruct faults; reflexivity).
      destruct e as [| |r cur].
      + injection Hrun as <- <-. cbn [requests_of progress_of]. rewrite A3.
        splits; try lia; try (intros E; discriminate E); try assumption.
        all: try (intros _; apply A6; reflexivity).
      + injection Hrun as <- <-. cbn [requests_of progress_of]. rewrite A3.
        splits; try lia; try (intros E; discriminate E); try assumption.
      + destruct (A7 _ _ eq_refl) as (R1 & R2 & R3).
        destruct r.
        * destruct (attempts_loop l body start io_chunk (tl faults) (tl reads) done_at ck)
            as [tr2 o2] eqn:Erec.
          injection Hrun as <- <-.
          destruct (IH _ _ _ _ _ Erec) as (I1 & I2 & I3 & I4 & I5).
          cbn [requests_of progress_of].
          rewrite !progress_of_app, !requests_of_app, A3, requests_of_gprog, progress_of_gprog.
          replace (start - cur) with (- zsum (progress_of tr1)) by lia.
          assert (Hw2 : within len (progress_of tr1 ++
                    (if - zsum (progress_of tr1) =? 0 then [] else [- zsum (progress_of tr1)]))).
          { apply within_snoc_rewind. exact Hw1. }
          assert (Hz2 : zsum (progress_of tr1 ++
                    (if - zsum (progress_of tr1) =? 0 then [] else [- zsum (progress_of tr1)])) = 0).
          { rewrite zsum_app. destruct (- zsum (progress_of tr1) =? 0) eqn:E; cbn [zsum]; lia. }
          rewrite app_assoc.
          splits.
          -- lia.
          -- apply within_app_zero; assumption.
          -- intros E. rewrite zsum_app, Hz2, (I3 E). lia.
          -- intros E. destruct (I4 E) as [I4a I4b]. split; [rewrite zsum_app, Hz2; lia|lia].
          -- intros E. destruct (I5 E) as (i & J1 & J2 & J3 & J4).
             exists (S i). split; [lia|].
             assert (Hnth : forall j, nth (S j) faults NoFault = nth j (tl faults) NoFault).
             { intros j. destruct faults as [|f0 fs]; [destruct j; reflexivity|reflexivity]. }
             rewrite Hnth. split; [exact J2|]. split; [exact J3|].
             intros j Hj. destruct j as [|j].
             ++ rewrite <- Hhd. split; [congruence|exact R3].
             ++ rewrite Hnth. apply J4. lia.
        * injection Hrun as <- <-. cbn [requests_of progress_of]. rewrite A3.
          splits; try lia; try (intros E; discriminate E); try assumption.
          intros _. exists 0%nat. rewrite <- Hhd.
          split; [reflexivity|]. split; [congruence|]. split; [exact R3|]. intros j Hj. lia.
  Qed.

  (** On success the last attempt delivered the whole body, contiguously from
      [start], in at least one piece (an empty object gives one empty piece). *)
  Lemma attempts_loop_ok_deliveries done_at left : forall faults reads checks tr,
    attempts_loop left body start io_chunk faults reads done_at checks = (tr, Ok) ->
    exists pre last, tr = pre ++ GReq :: last /\ requests_of last = 0%nat /\
      contiguous start (deliveries_of last) /\
      delivered_bytes (deliveries_of last) = body /\ deliveries_of last <> [].
  Proof.
    induction left as [|l IH]; intros faults reads checks tr Hrun.
    - cbn [attempts_loop] in Hrun. discriminate Hrun.
    - cbn [attempts_loop] in Hrun.
      destruct (run_attempt body start io_chunk (hd NoFault faults) (hd [] reads) done_at checks)
        as [[tr1 e] ck] eqn:Eat.
      destruct (run_attempt_spec _ _ _ _ _ _ _ _ _ _ Hio Eat)
        as (A1 & A2 & A3 & A4 & (rem & A5 & A5') & A6 & A7).
      destruct e as [| |r cur].
      + injection Hrun as <-. exists [], tr1. destruct (A5' eq_refl) as [-> Hne].
        rewrite app_nil_r in A5. splits; try assumption; [reflexivity|symmetry; exact A5].
      + discriminate Hrun.
      + destruct r; [|discriminate Hrun].
        destruct (attempts_loop l body start io_chunk (tl faults) (tl reads) done_at ck)
          as [tr2 o2] eqn:Erec.
        injection Hrun as <- ->. destruct (IH _ _ _ _ Erec) as (pre & last & -> & L2 & L3 & L4 & L5).
        exists (GReq :: tr1 ++ gprog (start - cur) ++ pre), last.
        splits; try assumption. cbn [app]. now rewrite <- !app_assoc.
  Qed.

  (** What the loop does when the transfer is not cancelled: a complete
      characterisation of outcome and request count from the fault script. *)
  Fixpoint predicted (left : nat) (faults : list fault) : outcome * nat :=
    match left with
    | O => (RetriesExceeded, O)
    | S l =>
        let f := hd NoFault faults in
        if fires f len then
          if retryable_of f then let '(o, n) := predicted l (tl faults) in (o, S n)
          else (Raised, 1%nat)
        else (Ok, 1%nat)
    end.

  Lemma attempts_loop_predicted left : forall faults reads checks tr o,
    attempts_loop left body start io_chunk faults reads None checks = (tr, o) ->
    (o, requests_of tr) = predicted left faults.
  Proof.
    induction left as [|l IH]; intros faults reads checks tr o Hrun.
    - cbn [attempts_loop] in Hrun. injection Hrun as <- <-. reflexivity.
    - cbn [attempts_loop predicted] in *.
      destruct (run_attempt body start io_chunk (hd NoFault faults) (hd [] reads) None checks)
        as [[tr1 e] ck] eqn:Eat.
      pose proof (run_attempt_end _ _ _ _ _ _ _ _ _ Hio Eat) as Hend. fold len in Hend.
      destruct (run_attempt_spec _ _ _ _ _ _ _ _ _ _ Hio Eat) as (_ & _ & A3 & _).
      destruct (fires (hd NoFault faults) len).
      + destruct Hend as [c' ->]. destruct (retryable_of (hd NoFault faults)).
        * destruct (attempts_loop l body start io_chunk (tl faults) (tl reads) None ck)
            as [tr2 o2] eqn:Erec.
          injection Hrun as <- <-. specialize (IH _ _ _ _ _ Erec).
          destruct (predicted l (tl faults)) as [o3 n3]. injection IH as -> <-.
          cbn [requests_of]. rewrite !requests_of_app, A3, requests_of_gprog. reflexivity.
        * injection Hrun as <- <-. cbn [requests_of]. now rewrite A3.
      + subst e. injection Hrun as <- <-. cbn [requests_of]. now rewrite A3.
  Qed.

  (** Number of faults of a script that strike. *)
  Definition count_fires (faults : list fault) : nat :=
    length (filter (fun f => fires f len) faults).

  Lemma predicted_ok left : forall faults,
    Forall (fun f => fires f len = true -> retryable_of f = true) faults ->
    (count_fires faults < left)%nat ->
    fst (predicted left faults) = Ok.
  Proof.
    induction left as [|l IH]; intros faults Hall Hcount; [lia|].
    cbn [predicted]. destruct faults as [|f fs]; cbn [hd tl].
    - reflexivity.
    - inversion Hall as [|? ? Hf Hfs]; subst.
      unfold count_fires in Hcount. cbn [filter] in Hcount.
      destruct (fires f len) eqn:E; [|reflexivity].
      rewrite (Hf eq_refl). cbn [length] in Hcount.
      specialize (IH fs Hfs ltac:(unfold count_fires; lia)).
      destruct (predicted l fs) as [o n]. cbn [fst] in *. exact IH.
  Qed.

  Lemma predicted_nonretryable left : forall pre f post,
    Forall (fun g => fires g len = true /\ retryable_of g = true) pre ->
    fires f len = true -> retryable_of f = false -> (length pre < left)%nat ->
    predicted left (pre ++ f :: post) = (Raised, S (length pre)).
  Proof.
    induction left as [|l IH]; intros pre f post Hpre Hf Hr Hlen; [lia|].
    cbn [predicted]. destruct pre as [|g pre]; cbn [app hd tl length].
    - now rewrite Hf, Hr.
    - inversion Hpre as [|? ? [G1 G2] Hrest]; subst. rewrite G1, G2.
      rewrite (IH pre f post Hrest Hf Hr ltac:(cbn [length] in Hlen; lia)). reflexivity.
  Qed.
End Loop.

(** * The task *)

Lemma range_bytes_length obj start len :
  0 <= start -> 0 <= len -> start + len <= Z.of_nat (length obj) ->
  Z.of_nat (length (range_bytes obj start len)) = len.
Proof. intros. unfold range_bytes. rewrite firstn_length, skipn_length. lia. Qed.

Definition in_object (obj : list Z) (start len : Z) : Prop :=
  0 <= start /\ 0 <= len /\ start + len <= Z.of_nat (length obj).

Lemma run_get_full_unfold obj start len io_chunk max_attempts faults reads done_at :
  let r := run_get_full obj start len io_chunk max_attempts faults reads done_at in
  attempts_loop (Z.to_nat max_attempts) (range_bytes obj start len) start io_chunk faults reads
                done_at 0 = (g_trace r, g_outcome r).
Proof.
  unfold run_get_full.
  destruct (attempts_loop _ _ _ _ _ _ _ _) as [tr o]. reflexivity.
Qed.

(** Progress of one range: running sum within [0, len] whatever happens;
    exactly len on success; everything taken back when retries run out. *)
Theorem run_get_progress obj start len io_chunk max_attempts faults reads done_at :
  in_object obj start len -> 1 <= io_chunk ->
  let r := run_get_full obj start len io_chunk max_attempts faults reads done_at in
  within len (g_progress r) /\
  (g_outcome r = Ok -> zsum (g_progress r) = len) /\
  (g_outcome r = RetriesExceeded -> zsum (g_progress r) = 0).
Proof.
  intros (H1 & H2 & H3) Hio r.
  pose proof (run_get_full_unfold obj start len io_chunk max_attempts faults reads done_at) as Hrun.
  fold r in Hrun.
  destruct (attempts_loop_spec _ start io_chunk Hio done_at _ _ _ _ _ _ Hrun) as (_ & P2 & P3 & P4 & _).
  rewrite (range_bytes_length obj start len H1 H2 H3) in *.
  unfold g_progress. split; [exact P2|]. split; [exact P3|]. intros E. apply (P4 E).
Qed.

(** Fewer than max_attempts striking faults, all of them retryable: success. *)
Theorem run_get_succeeds obj start len io_chunk max_attempts faults reads :
  in_object obj start len -> 1 <= io_chunk ->
  Forall (fun f => fires f len = true -> retryable_of f = true) faults ->
  Z.of_nat (length (filter (fun f => fires f len) faults)) < max_attempts ->
  g_outcome (run_get obj start len io_chunk max_attempts faults reads) = Ok.
Proof.
  intros (H1 & H2 & H3) Hio Hall Hcount. unfold run_get.
  pose proof (run_get_full_unfold obj start len io_chunk max_attempts faults reads None) as Hrun.
  cbv zeta in Hrun.
  pose proof (attempts_loop_predicted _ start io_chunk Hio _ _ _ _ _ _ Hrun) as Hp.
  assert (Hok : fst (predicted (range_bytes obj start len) (Z.to_nat max_attempts) faults) = Ok).
  { apply predicted_ok.
    - rewrite (range_bytes_length obj start len H1 H2 H3). exact Hall.
    - unfold count_fires. rewrite (range_bytes_length obj start len H1 H2 H3). lia. }
  rewrite <- Hp in Hok. exact Hok.
Qed.

(** On success the last attempt delivered exactly the range, in order. *)
Theorem run_get_ok_deliveries obj start len io_chunk max_attempts faults reads done_at :
  1 <= io_chunk ->
  let r := run_get_full obj start len io_chunk max_attempts faults reads done_at in
  g_outcome r = Ok ->
  exists pre last, g_trace r = pre ++ GReq :: last /\ requests_of last = 0%nat /\
    contiguous start (deliveries_of last) /\
    delivered_bytes (deliveries_of last) = range_bytes obj start len /\
    deliveries_of last <> [].
Proof.
  intros Hio r E.
  pose proof (run_get_full_unfold obj start len io_chunk max_attempts faults reads done_at) as Hrun.
  cbv zeta in Hrun. unfold r in E |- *. rewrite E in Hrun.
  exact (attempts_loop_ok_deliveries _ start io_chunk Hio done_at _ _ _ _ _ Hrun).
Qed.

Theorem run_get_attempt_bound obj start len io_chunk max_attempts faults reads done_at :
  1 <= io_chunk ->
  Z.of_nat (g_requests (run_get_full obj start len io_chunk max_attempts faults reads done_at))
    <= Z.max 0 max_attempts.
Proof.
  intros Hio.
  pose proof (run_get_full_unfold obj start len io_chunk max_attempts faults reads done_at) as Hrun.
  cbv zeta in Hrun.
  destruct (attempts_loop_spec _ start io_chunk Hio done_at _ _ _ _ _ _ Hrun) as (P1 & _).
  unfold g_requests. lia.
Qed.

(** A non-retryable error is never retried: the attempt it strikes is the last
    request, whatever the scripts say afterwards. *)
Theorem run_get_nonretryable obj start len io_chunk max_attempts pre f post reads :
  in_object obj start len -> 1 <= io_chunk ->
  Forall (fun g => fires g len = true /\ retryable_of g = true) pre ->
  fires f len = true -> retryable_of f = false -> Z.of_nat (length pre) < max_attempts ->
  let r := run_get obj start len io_chunk max_attempts (pre ++ f :: post) reads in
  g_outcome r = Raised /\ g_requests r = S (length pre).
Proof.
  intros (H1 & H2 & H3) Hio Hpre Hf Hr Hlen r. unfold r, run_get.
  pose proof (run_get_full_unfold obj start len io_chunk max_attempts (pre ++ f :: post) reads None) as Hrun.
  cbv zeta in Hrun.
  pose proof (attempts_loop_predicted _ start io_chunk Hio _ _ _ _ _ _ Hrun) as Hp.
  rewrite predicted_nonretryable in Hp;
    try (rewrite (range_bytes_length obj start len H1 H2 H3)); try assumption; [|lia].
  unfold g_requests. injection Hp as -> ->. split; reflexivity.
Qed.

(** Whenever the outcome is Raised (also under cancellation), the request that
    raised is the last one and its fault is the first non-retryable one. *)
Theorem run_get_raised_last obj start len io_chunk max_attempts faults reads done_at :
  1 <= io_chunk ->
  let r := run_get_full obj start len io_chunk max_attempts faults reads done_at in
  g_outcome r = Raised ->
  exists i, g_requests r = S i /\ retryable_of (nth i faults NoFault) = false /\
    forall j, (j < i)%nat -> retryable_of (nth j faults NoFault) = true.
Proof.
  intros Hio r E.
  pose proof (run_get_full_unfold obj start len io_chunk max_attempts faults reads done_at) as Hrun.
  fold r in Hrun.
  destruct (attempts_loop_spec _ start io_chunk Hio done_at _ _ _ _ _ _ Hrun) as (_ & _ & _ & _ & P5).
  destruct (P5 E) as (i & J1 & J2 & _ & J4). exists i. split; [exact J1|]. split; [exact J2|].
  intros j Hj. apply (J4 j Hj).
Qed.
