(** Lemmas about model/Coord.v.

    Architecture.  Every op of the executable model -- under every callback
    environment, both variants, with nested announces -- is a finite sequence
    of *critical sections* [cs] ([step_cs]).  The state facts of C17 are
    one-step facts about critical sections ([cs_*] lemmas, case analysis) and
    lift to every op and every op sequence through that refinement.  The
    run-once facts about callbacks and cleanups and the re-entrancy facts
    are proved directly on the phases, parametrically in what a nested
    announce does ([ann] is open recursion in the model). *)
From Coq Require Import ZArith List Bool Lia.
From S3V Require Import model.Coord.
Import ListNotations.
Open Scope Z_scope.

(** * Critical sections *)

Inductive cs :=
| CsSetResult (r : Z)
| CsSetException (e : exn) (ov : bool)      (* coordinator.set_exception *)
| CsUserSetException (e : exn)              (* TransferFuture.set_exception that passed its done() check *)
| CsCancel (m : Z) (k : ekind)
| CsTransition (running : bool)
| CsEvent
| CsLog (e : ev)
| CsClearCleanups
| CsClearCallbacks
| CsAddCallback (id : Z)
| CsAddCleanup (id : Z).

Definition cs_apply (c : cs) (s : state) : state :=
  match c with
  | CsSetResult r => do_set_result r s
  | CsSetException e ov => do_set_exception e ov s
  | CsUserSetException e => if done s then do_set_exception e true s else s
  | CsCancel m k => fst (do_cancel_cs m k s)
  | CsTransition b => fst (do_transition (if b then Running else Queued) s)
  | CsEvent => set_event s
  | CsLog e => log_ev e s
  | CsClearCleanups => clear_cleanups s
  | CsClearCallbacks => clear_callbacks s
  | CsAddCallback id => add_callback id s
  | CsAddCleanup id => add_cleanup id s
  end.

Definition cs_run (l : list cs) (s : state) : state :=
  fold_left (fun s c => cs_apply c s) l s.

Lemma cs_run_app l1 l2 s : cs_run (l1 ++ l2) s = cs_run l2 (cs_run l1 s).
Proof. apply fold_left_app. Qed.

(** ** One-step facts *)

Definition has_exc (s : state) : bool :=
  match st_exc s with Some _ => true | None => false end.
Definition is_fc (st : status) : bool :=
  match st with Failed | Cancelled => true | _ => false end.

(** exception stored <-> status failed/cancelled; success has a result *)
Definition inv (s : state) : Prop :=
  has_exc s = is_fc (st_status s) /\ (st_status s = Success -> st_result s <> None).

Lemma inv_init : inv init.
Proof. split; [reflexivity|discriminate]. Qed.

Ltac crush_state s :=
  destruct s as [st ex re evn cl cb lg];
  unfold inv, has_exc, done, do_set_result, do_set_exception, do_cancel_cs, do_transition,
         set_event, log_ev, clear_cleanups, clear_callbacks, add_callback, add_cleanup in *;
  cbn [st_status st_exc st_result st_event st_cleanups st_callbacks st_log fst snd] in *.

Ltac fin := solve [reflexivity | discriminate | assumption | congruence | repeat split; reflexivity].
Ltac cases st := destruct st; repeat (match goal with b : bool |- _ => destruct b end); cbn in *.

Lemma cs_inv c s : inv s -> inv (cs_apply c s).
Proof.
  intros Hi. destruct c; cbn [cs_apply]; crush_state s; destruct Hi as [H1 H2];
    try (split; assumption); cases st; split; fin.
Qed.

Lemma cs_done_mono c s : done s = true -> done (cs_apply c s) = true.
Proof.
  intros Hd. destruct c; cbn [cs_apply]; crush_state s; try assumption; cases st; fin.
Qed.

Lemma cs_event_mono c s : st_event s = true -> st_event (cs_apply c s) = true.
Proof.
  intros He. destruct c; cbn [cs_apply]; crush_state s; try assumption; try reflexivity;
    cases st; fin.
Qed.

(** The stored exception is replaced only by set_result, by
    set_exception(override=True), or by the user's set_exception -- which acts
    only in a done state. *)
Definition replacer (c : cs) : bool :=
  match c with
  | CsSetResult _ | CsSetException _ true | CsUserSetException _ => true
  | _ => false
  end.

(** A non-replacing critical section in a state with a stored failure changes
    nothing of (status, exception, result). *)
Lemma cs_failure_frozen c s e0 :
  inv s -> st_exc s = Some e0 -> replacer c = false ->
  st_status (cs_apply c s) = st_status s /\ st_exc (cs_apply c s) = st_exc s /\
  st_result (cs_apply c s) = st_result s.
Proof.
  intros Hi He Hr. destruct c; cbn [cs_apply replacer] in *; try discriminate;
    crush_state s; destruct Hi as [H1 H2]; subst ex; try (repeat split; reflexivity);
    cases st; fin.
Qed.

Lemma cs_exc_kept c s e0 :
  inv s -> st_exc s = Some e0 -> replacer c = false -> st_exc (cs_apply c s) = Some e0.
Proof.
  intros Hi He Hr. destruct (cs_failure_frozen c s e0 Hi He Hr) as (_ & H & _). congruence.
Qed.

Lemma cs_user_set_exception_needs_done e s :
  done s = false -> cs_apply (CsUserSetException e) s = s.
Proof. intros H. cbn. now rewrite H. Qed.

(** closure of a state predicate under critical sections *)
Lemma cs_run_closed (P : state -> Prop) :
  (forall c s, P s -> P (cs_apply c s)) -> forall l s, P s -> P (cs_run l s).
Proof.
  intros H l. induction l as [|c l IH]; intros s Hs; [exact Hs|].
  cbn. apply IH, H, Hs.
Qed.

(** * Every op is a sequence of critical sections *)

(** What a thread holding [held] may do from inside a callback script or a
    (nested) announce. *)
Definition allowed (held : locks) (c : cs) : bool :=
  match c with
  | CsLog (RanCallback _) | CsClearCallbacks => negb (l_callbacks held)
  | CsLog (RanCleanup _) | CsClearCleanups => negb (l_cleanups held)
  | CsLog (ScriptRes _) | CsUserSetException _ | CsCancel _ _ | CsEvent => true
  | _ => false
  end.

Definition refines (held : locks) (s s' : state) : Prop :=
  exists l, s' = cs_run l s /\ Forall (fun c => allowed held c = true) l.

Lemma refines_refl h s : refines h s s.
Proof. exists []. split; [reflexivity|constructor]. Qed.

Lemma refines_trans h s1 s2 s3 : refines h s1 s2 -> refines h s2 s3 -> refines h s1 s3.
Proof.
  intros (l1 & -> & F1) (l2 & -> & F2). exists (l1 ++ l2). split.
  - now rewrite cs_run_app.
  - apply Forall_app; split; assumption.
Qed.

Lemma refines_one h c s : allowed h c = true -> refines h s (cs_apply c s).
Proof. intros H. exists [c]. split; [reflexivity|repeat constructor; exact H]. Qed.

Lemma refines_mono h h' s s' :
  (forall c, allowed h' c = true -> allowed h c = true) -> refines h' s s' -> refines h s s'.
Proof.
  intros Hm (l & -> & F). exists l. split; [reflexivity|].
  eapply Forall_impl; [|exact F]. exact Hm.
Qed.

Lemma allowed_hold_state h c : allowed (hold_state h) c = allowed h c.
Proof. destruct c as [| | | | | |[]| | | |]; reflexivity. Qed.

Lemma allowed_hold_cleanups h c : allowed (hold_cleanups h) c = true -> allowed h c = true.
Proof. destruct c as [| | | | | |[]| | | |]; cbn; try discriminate; auto. Qed.

Lemma allowed_hold_callbacks h c : allowed (hold_callbacks h) c = true -> allowed h c = true.
Proof. destruct c as [| | | | | |[]| | | |]; cbn; try discriminate; auto. Qed.

Definition nested := locks -> state -> state * cres.
Definition ann_ok (ann : nested) : Prop := forall held s, refines held s (fst (ann held s)).

Section Refinement.
Variable E : env.
Variable rep : bool.

Lemma cancel_cs_is_cs m k s : fst (do_cancel_cs m k s) = cs_apply (CsCancel m k) s.
Proof. reflexivity. Qed.

Lemma run_call_ok ann : ann_ok ann ->
  forall held s c, refines held s (fst (run_call rep ann held s c)).
Proof.
  intros Ha held s c. destruct c; cbn [run_call]; try apply refines_refl.
  - destruct (done s) eqn:Hd; [|apply refines_refl].
    destruct (l_state held); [apply refines_refl|]. cbn [fst].
    replace (do_set_exception e true s) with (cs_apply (CsUserSetException e) s)
      by (cbn; now rewrite Hd).
    now apply refines_one.
  - destruct (l_state held); [apply refines_refl|].
    destruct (do_cancel_cs msg k s) as [s' will] eqn:Hc.
    assert (Hs' : s' = cs_apply (CsCancel msg k) s) by (cbn; now rewrite Hc).
    destruct will; cbn [fst].
    + apply (refines_trans held s s'); [rewrite Hs'; now apply refines_one|].
      destruct rep; [apply Ha|].
      eapply refines_mono; [|apply Ha]. intros c. now rewrite allowed_hold_state.
    + subst s'. now apply refines_one.
Qed.

Lemma run_script_ok ann : ann_ok ann ->
  forall sc held s, refines held s (fst (run_script rep ann held s sc)).
Proof.
  intros Ha sc. induction sc as [|c sc IH]; intros held s; cbn [run_script]; [apply refines_refl|].
  pose proof (run_call_ok ann Ha held s c) as Hc.
  destruct (run_call rep ann held s c) as [s' r]. cbn [fst] in Hc.
  destruct (hangs (in_cb r)); [exact Hc|].
  eapply refines_trans; [exact Hc|].
  eapply refines_trans; [|apply IH].
  change (log_ev (ScriptRes r) s') with (cs_apply (CsLog (ScriptRes r)) s').
  now apply refines_one.
Qed.

Lemma run_list_ok ann scr mk : ann_ok ann ->
  forall held, (forall id, allowed held (CsLog (mk id)) = true) ->
  forall ids s, refines held s (fst (run_list rep ann scr mk held s ids)).
Proof.
  intros Ha held Hmk ids. induction ids as [|id ids IH]; intros s; cbn [run_list]; [apply refines_refl|].
  pose proof (run_script_ok ann Ha (scr id) held (log_ev (mk id) s)) as Hs.
  destruct (run_script rep ann held (log_ev (mk id) s) (scr id)) as [s' r]. cbn [fst] in Hs.
  assert (H1 : refines held s s').
  { eapply refines_trans; [|exact Hs].
    change (log_ev (mk id) s) with (cs_apply (CsLog (mk id)) s). apply refines_one, Hmk. }
  destruct (hangs r); [exact H1|].
  eapply refines_trans; [exact H1|apply IH].
Qed.

(** inside a phase the thread holds one more lock; what it does there was
    allowed before it took the lock, except running that phase again *)
Lemma phase_cleanups_ok ann : ann_ok ann ->
  forall held s, refines held s (fst (phase_cleanups E rep ann held s)).
Proof.
  intros Ha held s. unfold phase_cleanups.
  destruct (is_success (st_status s)); [apply refines_refl|].
  destruct (l_cleanups held) eqn:Hl; [apply refines_refl|].
  assert (Hr : forall ids s0, refines held s0
             (fst (run_list rep ann (cl_script E) RanCleanup (hold_cleanups held) s0 ids))).
  { intros ids. induction ids as [|id ids IH]; intros s0; cbn [run_list]; [apply refines_refl|].
    pose proof (run_script_ok ann Ha (cl_script E id) (hold_cleanups held) (log_ev (RanCleanup id) s0)) as Hs.
    destruct (run_script rep ann (hold_cleanups held) (log_ev (RanCleanup id) s0) (cl_script E id)) as [s' r].
    cbn [fst] in Hs.
    assert (H1 : refines held s0 s').
    { apply (refines_trans held s0 (cs_apply (CsLog (RanCleanup id)) s0)).
      - apply refines_one. unfold allowed. now rewrite Hl.
      - eapply refines_mono; [|exact Hs]. apply allowed_hold_cleanups. }
    destruct (hangs r); [exact H1|]. eapply refines_trans; [exact H1|apply IH]. }
  specialize (Hr (st_cleanups s) s).
  destruct (run_list rep ann (cl_script E) RanCleanup (hold_cleanups held) s (st_cleanups s)) as [s' r].
  cbn [fst] in Hr. destruct (hangs r); [exact Hr|]. cbn [fst].
  eapply refines_trans; [exact Hr|].
  change (clear_cleanups s') with (cs_apply CsClearCleanups s').
  apply refines_one. unfold allowed. now rewrite Hl.
Qed.

Lemma phase_callbacks_ok ann : ann_ok ann ->
  forall held s, refines held s (fst (phase_callbacks E rep ann held s)).
Proof.
  intros Ha held s. unfold phase_callbacks.
  destruct (l_callbacks held) eqn:Hl; [apply refines_refl|].
  assert (Hr : forall ids s0, refines held s0
             (fst (run_list rep ann (cb_script E) RanCallback (hold_callbacks held) s0 ids))).
  { intros ids. induction ids as [|id ids IH]; intros s0; cbn [run_list]; [apply refines_refl|].
    pose proof (run_script_ok ann Ha (cb_script E id) (hold_callbacks held) (log_ev (RanCallback id) s0)) as Hs.
    destruct (run_script rep ann (hold_callbacks held) (log_ev (RanCallback id) s0) (cb_script E id)) as [s' r].
    cbn [fst] in Hs.
    assert (H1 : refines held s0 s').
    { apply (refines_trans held s0 (cs_apply (CsLog (RanCallback id)) s0)).
      - apply refines_one. unfold allowed. now rewrite Hl.
      - eapply refines_mono; [|exact Hs]. apply allowed_hold_callbacks. }
    destruct (hangs r); [exact H1|]. eapply refines_trans; [exact H1|apply IH]. }
  specialize (Hr (st_callbacks s) s).
  destruct (run_list rep ann (cb_script E) RanCallback (hold_callbacks held) s (st_callbacks s)) as [s' r].
  cbn [fst] in Hr. destruct (hangs r); [exact Hr|]. cbn [fst].
  eapply refines_trans; [exact Hr|].
  change (clear_callbacks s') with (cs_apply CsClearCallbacks s').
  apply refines_one. unfold allowed. now rewrite Hl.
Qed.

Lemma announce_body_ok ann : ann_ok ann -> ann_ok (announce_body E rep ann).
Proof.
  intros Ha held s. unfold announce_body.
  pose proof (phase_cleanups_ok ann Ha held s) as H1.
  destruct (phase_cleanups E rep ann held s) as [s1 r1]. cbn [fst] in H1.
  destruct (hangs r1); [exact H1|].
  eapply refines_trans; [exact H1|].
  eapply refines_trans; [|apply phase_callbacks_ok, Ha].
  change (set_event s1) with (cs_apply CsEvent s1). now apply refines_one.
Qed.

Lemma ann0_ok : ann_ok ann0.
Proof. intros held s. apply refines_refl. Qed.
Lemma ann1_ok : ann_ok (ann1 E rep).
Proof. apply announce_body_ok, ann0_ok. Qed.
Lemma ann2_ok : ann_ok (ann2 E rep).
Proof. apply announce_body_ok, ann1_ok. Qed.

(** The critical sections an op may consist of. *)
Definition cs_of_op (o : op) (c : cs) : Prop :=
  match o with
  | OSetResult r => c = CsSetResult r
  | OSetException e ov => c = CsSetException e ov
  | OCancelCS m k => c = CsCancel m k
  | OQueued => c = CsTransition false
  | ORunning => c = CsTransition true
  | OEvent => c = CsEvent
  | OAddCallback id => c = CsAddCallback id
  | OAddCleanup id => c = CsAddCleanup id
  | OException => False
  | OAnnounce | OCleanups | OCallbacks | OCall _ => allowed no_locks c = true
  end.

Lemma step_cs s o :
  exists l, fst (step E rep s o) = cs_run l s /\ Forall (cs_of_op o) l.
Proof.
  destruct o; cbn [step].
  - exists [CsSetResult r]. split; [reflexivity|repeat constructor].
  - exists [CsSetException e override]. split; [reflexivity|repeat constructor].
  - exists [CsCancel msg k]. split; [|repeat constructor].
    cbn. now destruct (do_cancel_cs msg k s).
  - exists [CsTransition false]. split; [reflexivity|repeat constructor].
  - exists [CsTransition true]. split; [reflexivity|repeat constructor].
  - apply ann2_ok.
  - apply phase_cleanups_ok, ann1_ok.
  - exists [CsEvent]. split; [reflexivity|repeat constructor].
  - apply phase_callbacks_ok, ann1_ok.
  - exists [CsAddCallback id]. split; [reflexivity|repeat constructor].
  - exists [CsAddCleanup id]. split; [reflexivity|repeat constructor].
  - exists []. split; [reflexivity|constructor].
  - apply run_call_ok, ann2_ok.
Qed.

(** Any predicate closed under critical sections is closed under ops. *)
Lemma step_closed (P : state -> Prop) :
  (forall c s, P s -> P (cs_apply c s)) -> forall s o, P s -> P (fst (step E rep s o)).
Proof.
  intros H s o Hs. destruct (step_cs s o) as (l & -> & _). now apply cs_run_closed.
Qed.

(** Master induction over histories. *)
Lemma run_Forall (P : state -> Prop) (Q : state -> op -> cres -> state -> Prop) :
  (forall s o, P s -> P (fst (step E rep s o))) ->
  (forall s o, P s -> Q s o (snd (step E rep s o)) (fst (step E rep s o))) ->
  forall ops s, P s ->
  Forall (fun t => match t with (s0, o, r, s') => Q s0 o r s' end) (run E rep s ops).
Proof.
  intros HP HQ ops. induction ops as [|o ops IH]; intros s Hs; cbn [run]; [constructor|].
  pose proof (HP s o Hs) as H1. pose proof (HQ s o Hs) as H2.
  destruct (step E rep s o) as [s' r]. cbn [fst snd] in *.
  constructor; [exact H2|]. destruct (hangs r); [constructor|]. now apply IH.
Qed.

Lemma final_closed (P : state -> Prop) :
  (forall s o, P s -> P (fst (step E rep s o))) ->
  forall ops s, P s -> P (fst (final E rep s ops)).
Proof.
  intros HP ops. induction ops as [|o ops IH]; intros s Hs; cbn [final]; [exact Hs|].
  pose proof (HP s o Hs) as H1. destruct (step E rep s o) as [s' r]. cbn [fst] in H1.
  destruct (hangs r); [exact H1|]. now apply IH.
Qed.

End Refinement.

(** * Log projections *)

Lemma cb_ids_app l1 l2 : cb_ids (l1 ++ l2) = cb_ids l1 ++ cb_ids l2.
Proof.
  induction l1 as [|e l1 IH]; [reflexivity|]. destruct e; cbn; now rewrite IH.
Qed.
Lemma cl_ids_app l1 l2 : cl_ids (l1 ++ l2) = cl_ids l1 ++ cl_ids l2.
Proof.
  induction l1 as [|e l1 IH]; [reflexivity|]. destruct e; cbn; now rewrite IH.
Qed.

(** * Calls made in a done state

    In a done state cancel is a no-op, so no call announces: the nested
    announce is irrelevant, nothing but (status, exception) changes, and the
    only lock ever needed is the state lock. *)

Definition quiet (s s' : state) : Prop :=
  st_callbacks s' = st_callbacks s /\ st_cleanups s' = st_cleanups s /\
  cb_ids (st_log s') = cb_ids (st_log s) /\ cl_ids (st_log s') = cl_ids (st_log s) /\
  st_event s' = st_event s.

Lemma quiet_refl s : quiet s s.
Proof. repeat split. Qed.
Lemma quiet_trans s1 s2 s3 : quiet s1 s2 -> quiet s2 s3 -> quiet s1 s3.
Proof. unfold quiet. intuition congruence. Qed.

Lemma quiet_log_script r s : quiet s (log_ev (ScriptRes r) s).
Proof.
  unfold quiet, log_ev; cbn. rewrite cb_ids_app, cl_ids_app. cbn. now rewrite !app_nil_r.
Qed.

Definition hang_reason (held : locks) (s : state) (r : cres) : Prop :=
  r = RUnit \/ (r = RSelfDeadlock /\ l_state held = true) \/
  (r = RCallbackBlocked /\ st_event s = false).

Section DoneCalls.
Variable E : env.
Variable rep : bool.

Lemma run_call_done ann held s c : done s = true ->
  done (fst (run_call rep ann held s c)) = true /\
  quiet s (fst (run_call rep ann held s c)) /\
  (hangs (in_cb (snd (run_call rep ann held s c))) = false \/
   hang_reason held s (in_cb (snd (run_call rep ann held s c)))).
Proof.
  intros Hd. destruct c; cbn [run_call].
  - cbn. repeat split; auto using quiet_refl.
  - cbn. repeat split; auto using quiet_refl.
  - cbn [fst snd]. split; [exact Hd|]. split; [apply quiet_refl|].
    unfold obs_result. destruct (st_event s) eqn:He.
    + left. now destruct (st_exc s).
    + right. right. right. now split.
  - rewrite Hd. destruct (l_state held) eqn:Hl; cbn [fst snd].
    + split; [exact Hd|]. split; [apply quiet_refl|]. right. right. left. now split.
    + split; [|split; [|now left]].
      * unfold do_set_exception, done. now rewrite orb_true_r.
      * unfold do_set_exception. rewrite orb_true_r. repeat split.
  - destruct (l_state held) eqn:Hl; cbn [fst snd].
    + split; [exact Hd|]. split; [apply quiet_refl|]. right. right. left. now split.
    + unfold do_cancel_cs. rewrite Hd. cbn. split; [exact Hd|]. split; [apply quiet_refl|now left].
Qed.

Lemma quiet_event s s' : quiet s s' -> st_event s' = st_event s.
Proof. unfold quiet. intuition. Qed.

Lemma hang_reason_quiet held s s' r : quiet s s' -> hang_reason held s' r -> hang_reason held s r.
Proof.
  intros Hq [H|[H|[H1 H2]]]; [now left|now right; left|].
  right. right. split; [exact H1|]. rewrite <- (quiet_event _ _ Hq). exact H2.
Qed.

Lemma run_script_done ann held sc : forall s, done s = true ->
  done (fst (run_script rep ann held s sc)) = true /\
  quiet s (fst (run_script rep ann held s sc)) /\
  hang_reason held s (snd (run_script rep ann held s sc)).
Proof.
  induction sc as [|c sc IH]; intros s Hd; cbn [run_script].
  - cbn. split; [exact Hd|]. split; [apply quiet_refl|now left].
  - destruct (run_call_done ann held s c Hd) as (H1 & H2 & H3).
    destruct (run_call rep ann held s c) as [s' r]. cbn [fst snd] in *.
    destruct (hangs (in_cb r)) eqn:Hh.
    + cbn [fst snd]. split; [exact H1|]. split; [exact H2|].
      destruct H3 as [H3|H3]; [discriminate|exact H3].
    + assert (Hd' : done (log_ev (ScriptRes r) s') = true) by exact H1.
      destruct (IH _ Hd') as (I1 & I2 & I3).
      split; [exact I1|]. split.
      * eapply quiet_trans; [exact H2|]. eapply quiet_trans; [apply quiet_log_script|exact I2].
      * eapply hang_reason_quiet; [|exact I3].
        eapply quiet_trans; [exact H2|apply quiet_log_script].
Qed.

(** what a list of callbacks leaves unchanged in a done state *)
Definition calm (s s' : state) : Prop :=
  st_callbacks s' = st_callbacks s /\ st_cleanups s' = st_cleanups s /\ st_event s' = st_event s.

Lemma run_list_done ann scr mk held ids : forall s, done s = true ->
  done (fst (run_list rep ann scr mk held s ids)) = true /\
  calm s (fst (run_list rep ann scr mk held s ids)) /\
  ((forall id, cl_ids [mk id] = []) ->
     cl_ids (st_log (fst (run_list rep ann scr mk held s ids))) = cl_ids (st_log s)) /\
  hang_reason held s (snd (run_list rep ann scr mk held s ids)).
Proof.
  induction ids as [|id ids IH]; intros s Hd; cbn [run_list].
  - cbn. split; [exact Hd|]. split; [repeat split|]. split; [reflexivity|now left].
  - assert (Hd1 : done (log_ev (mk id) s) = true) by exact Hd.
    destruct (run_script_done ann held (scr id) _ Hd1) as (H1 & H2 & H3).
    destruct (run_script rep ann held (log_ev (mk id) s) (scr id)) as [s' r]. cbn [fst snd] in *.
    assert (Hc : calm s s').
    { destruct H2 as (A & B & _ & _ & C). repeat split; [exact A|exact B|exact C]. }
    assert (Hl : (forall id, cl_ids [mk id] = []) -> cl_ids (st_log s') = cl_ids (st_log s)).
    { intros Hmk. destruct H2 as (_ & _ & _ & D & _). rewrite D. cbn.
      rewrite cl_ids_app, Hmk. apply app_nil_r. }
    assert (Hr : hang_reason held s r).
    { destruct H3 as [H|[H|[Ha Hb]]]; [now left|now right; left|]. right. right. now split. }
    destruct (hangs r) eqn:Hh; cbn [fst snd].
    + split; [exact H1|]. split; [exact Hc|]. split; [exact Hl|exact Hr].
    + destruct (IH _ H1) as (I1 & I2 & I3 & I4).
      split; [exact I1|]. split; [|split].
      * unfold calm in *. intuition congruence.
      * intros Hmk. rewrite (I3 Hmk). now apply Hl.
      * destruct I4 as [H|[H|[Ha Hb]]]; [now left|now right; left|]. right. right. split; [exact Ha|].
        destruct Hc as (_ & _ & C). congruence.
Qed.

Definition phase_reason (held : locks) (needs : bool) (s : state) (r : cres) : Prop :=
  r = RUnit \/ (r = RSelfDeadlock /\ (l_state held = true \/ needs = true)) \/
  (r = RCallbackBlocked /\ st_event s = false).

Lemma phase_cleanups_done ann held s : done s = true ->
  done (fst (phase_cleanups E rep ann held s)) = true /\
  st_event (fst (phase_cleanups E rep ann held s)) = st_event s /\
  (st_status s = Success -> phase_cleanups E rep ann held s = (s, RUnit)) /\
  phase_reason held (l_cleanups held) s (snd (phase_cleanups E rep ann held s)).
Proof.
  intros Hd. unfold phase_cleanups. destruct (is_success (st_status s)) eqn:Hs.
  - cbn. repeat split; auto. now left.
  - assert (Hns : st_status s = Success -> False) by (intros H; rewrite H in Hs; discriminate).
    destruct (l_cleanups held) eqn:Hl.
    + cbn. repeat split; auto; [intros H; now destruct Hns|]. right. left. split; auto.
    + destruct (run_list_done ann (cl_script E) RanCleanup (hold_cleanups held) (st_cleanups s) s Hd)
        as (H1 & (_ & _ & H2) & _ & H4).
      destruct (run_list rep ann (cl_script E) RanCleanup (hold_cleanups held) s (st_cleanups s)) as [s' r].
      cbn [fst snd] in *.
      assert (Hr : phase_reason held false s r).
      { destruct H4 as [H|[[Ha Hb]|[Ha Hb]]]; [now left| |right; right; now split].
        right. left. split; [exact Ha|left; exact Hb]. }
      destruct (hangs r) eqn:Hh; cbn [fst snd].
      * repeat split; auto. intros H; now destruct Hns.
      * repeat split; auto; [intros H; now destruct Hns|now left].
Qed.

Lemma phase_callbacks_done ann held s : done s = true ->
  done (fst (phase_callbacks E rep ann held s)) = true /\
  cl_ids (st_log (fst (phase_callbacks E rep ann held s))) = cl_ids (st_log s) /\
  phase_reason held (l_callbacks held) s (snd (phase_callbacks E rep ann held s)).
Proof.
  intros Hd. unfold phase_callbacks. destruct (l_callbacks held) eqn:Hl.
  - cbn. repeat split; auto. right. left. split; auto.
  - destruct (run_list_done ann (cb_script E) RanCallback (hold_callbacks held) (st_callbacks s) s Hd)
      as (H1 & _ & H3 & H4).
    specialize (H3 (fun _ => eq_refl)).
    destruct (run_list rep ann (cb_script E) RanCallback (hold_callbacks held) s (st_callbacks s)) as [s' r].
    cbn [fst snd] in *.
    assert (Hr : phase_reason held false s r).
    { destruct H4 as [H|[[Ha Hb]|[Ha Hb]]]; [now left| |right; right; now split].
      right. left. split; [exact Ha|left; exact Hb]. }
    destruct (hangs r) eqn:Hh; cbn [fst snd].
    + repeat split; auto.
    + repeat split; auto. now left.
Qed.

(** announce_done in a done state by a thread holding no lock: it returns,
    unless a *cleanup* waits for the result (the event is set before the done
    callbacks run, so result() in a done callback returns). *)
Lemma announce_body_done ann held s : done s = true ->
  let p := announce_body E rep ann held s in
  done (fst p) = true /\
  (st_status s = Success -> cl_ids (st_log (fst p)) = cl_ids (st_log s)) /\
  (snd p = RUnit \/
   (snd p = RSelfDeadlock /\ (l_state held = true \/ l_cleanups held = true \/ l_callbacks held = true)) \/
   (snd p = RCallbackBlocked /\ st_event s = false /\
    snd (phase_cleanups E rep ann held s) = RCallbackBlocked)).
Proof.
  intros Hd p. subst p. unfold announce_body.
  destruct (phase_cleanups_done ann held s Hd) as (H1 & H2 & H3 & H4).
  destruct (phase_cleanups E rep ann held s) as [s1 r1] eqn:Hp. cbn [fst snd] in *.
  destruct (hangs r1) eqn:Hh; cbn [fst snd].
  - split; [exact H1|]. split.
    + intros Hs. specialize (H3 Hs). inversion H3; subst. reflexivity.
    + destruct H4 as [H|[[Ha Hb]|[Ha Hb]]].
      * subst r1. discriminate.
      * right. left. split; [exact Ha|]. destruct Hb; auto.
      * right. right. auto.
  - assert (Hd2 : done (set_event s1) = true) by exact H1.
    destruct (phase_callbacks_done ann held (set_event s1) Hd2) as (I1 & I2 & I3).
    split; [exact I1|]. split.
    + intros Hs. specialize (H3 Hs). inversion H3; subst. exact I2.
    + destruct I3 as [H|[[Ha Hb]|[Ha Hb]]].
      * now left.
      * right. left. split; [exact Ha|]. destruct Hb; auto.
      * cbn in Hb. discriminate.
Qed.

(** ** The nesting bound: [RStuck] is unreachable *)

Definition nostuck_done (ann : nested) : Prop :=
  forall held s, done s = true -> snd (ann held s) <> RStuck.
Definition nostuck (ann : nested) : Prop := forall held s, snd (ann held s) <> RStuck.

Lemma body_nostuck_done ann : nostuck_done (announce_body E rep ann).
Proof.
  intros held s Hd. destruct (announce_body_done ann held s Hd) as (_ & _ & [H|[[H _]|[H _]]]);
    rewrite H; discriminate.
Qed.

Lemma run_call_nostuck ann : nostuck_done ann ->
  forall held s c, snd (run_call rep ann held s c) <> RStuck.
Proof.
  intros Ha held s c. destruct c; cbn [run_call]; try (cbn; discriminate).
  - unfold obs_result. cbn. destruct (st_event s); [destruct (st_exc s)|]; discriminate.
  - destruct (done s); [destruct (l_state held)|]; cbn; discriminate.
  - destruct (l_state held); [cbn; discriminate|].
    unfold do_cancel_cs. destruct (done s) eqn:Hd; [cbn; discriminate|].
    destruct (is_not_started (st_status s)); [|cbn; discriminate].
    apply Ha. reflexivity.
Qed.

Lemma run_script_nostuck ann : nostuck_done ann ->
  forall sc held s, snd (run_script rep ann held s sc) <> RStuck.
Proof.
  intros Ha sc. induction sc as [|c sc IH]; intros held s; cbn [run_script]; [cbn; discriminate|].
  pose proof (run_call_nostuck ann Ha held s c) as Hc.
  destruct (run_call rep ann held s c) as [s' r]. cbn [snd] in Hc.
  destruct (hangs (in_cb r)); [|apply IH]. cbn [snd]. destruct r; cbn; congruence.
Qed.

Lemma run_list_nostuck ann scr mk : nostuck_done ann ->
  forall ids held s, snd (run_list rep ann scr mk held s ids) <> RStuck.
Proof.
  intros Ha ids. induction ids as [|id ids IH]; intros held s; cbn [run_list]; [cbn; discriminate|].
  pose proof (run_script_nostuck ann Ha (scr id) held (log_ev (mk id) s)) as Hc.
  destruct (run_script rep ann held (log_ev (mk id) s) (scr id)) as [s' r]. cbn [snd] in Hc.
  destruct (hangs r); [exact Hc|apply IH].
Qed.

Lemma phase_cleanups_nostuck ann : nostuck_done ann ->
  forall held s, snd (phase_cleanups E rep ann held s) <> RStuck.
Proof.
  intros Ha held s. unfold phase_cleanups.
  destruct (is_success (st_status s)); [cbn; discriminate|].
  destruct (l_cleanups held); [cbn; discriminate|].
  pose proof (run_list_nostuck ann (cl_script E) RanCleanup Ha (st_cleanups s) (hold_cleanups held) s) as H.
  destruct (run_list rep ann (cl_script E) RanCleanup (hold_cleanups held) s (st_cleanups s)) as [s' r].
  cbn [snd] in H. destruct (hangs r); [exact H|cbn; discriminate].
Qed.

Lemma phase_callbacks_nostuck ann : nostuck_done ann ->
  forall held s, snd (phase_callbacks E rep ann held s) <> RStuck.
Proof.
  intros Ha held s. unfold phase_callbacks.
  destruct (l_callbacks held); [cbn; discriminate|].
  pose proof (run_list_nostuck ann (cb_script E) RanCallback Ha (st_callbacks s) (hold_callbacks held) s) as H.
  destruct (run_list rep ann (cb_script E) RanCallback (hold_callbacks held) s (st_callbacks s)) as [s' r].
  cbn [snd] in H. destruct (hangs r); [exact H|cbn; discriminate].
Qed.

Lemma body_nostuck ann : nostuck_done ann -> nostuck (announce_body E rep ann).
Proof.
  intros Ha held s. unfold announce_body.
  pose proof (phase_cleanups_nostuck ann Ha held s) as H.
  destruct (phase_cleanups E rep ann held s) as [s1 r1]. cbn [snd] in H.
  destruct (hangs r1); [exact H|]. apply phase_callbacks_nostuck, Ha.
Qed.

Lemma step_never_stuck s o : snd (step E rep s o) <> RStuck.
Proof.
  destruct o; cbn [step]; try (cbn; discriminate).
  - destruct (do_cancel_cs msg k s); cbn; discriminate.
  - unfold do_transition. destruct (done s); cbn; discriminate.
  - unfold do_transition. destruct (done s); cbn; discriminate.
  - apply body_nostuck, body_nostuck_done.
  - apply phase_cleanups_nostuck, body_nostuck_done.
  - apply phase_callbacks_nostuck, body_nostuck_done.
  - apply run_call_nostuck, body_nostuck_done.
Qed.

End DoneCalls.

(** * Re-entrancy (repaired code) *)

Definition is_announce_op (o : op) : bool :=
  match o with OAnnounce | OCleanups | OCallbacks => true | _ => false end.

Section Reentrancy.
Variable E : env.

(** With the repaired cancel, the only way a thread can need a lock it holds
    is an announce issued in a state that is not done (which no caller in the
    library does: every announce follows set_result / set_exception / cancel). *)
Lemma step_no_self_deadlock s o :
  snd (step E true s o) = RSelfDeadlock -> done s = false /\ is_announce_op o = true.
Proof.
  destruct o; cbn [step]; try (cbn; discriminate).
  - destruct (do_cancel_cs msg k s); cbn; discriminate.
  - unfold do_transition. destruct (done s); cbn; discriminate.
  - unfold do_transition. destruct (done s); cbn; discriminate.
  - intros H. destruct (done s) eqn:Hd; [|now split].
    destruct (announce_body_done E true (ann1 E true) no_locks s Hd) as (_ & _ & [A|[[_ A]|[A _]]]).
    + unfold ann2 in H. rewrite H in A. discriminate.
    + cbn in A. intuition discriminate.
    + unfold ann2 in H. rewrite H in A. discriminate.
  - intros H. destruct (done s) eqn:Hd; [|now split].
    destruct (phase_cleanups_done E true (ann1 E true) no_locks s Hd) as (_ & _ & _ & [A|[[_ A]|[A _]]]).
    + rewrite H in A. discriminate.
    + cbn in A. intuition discriminate.
    + rewrite H in A. discriminate.
  - intros H. destruct (done s) eqn:Hd; [|now split].
    destruct (phase_callbacks_done E true (ann1 E true) no_locks s Hd) as (_ & _ & [A|[[_ A]|[A _]]]).
    + rewrite H in A. discriminate.
    + cbn in A. intuition discriminate.
    + rewrite H in A. discriminate.
  - destruct c; cbn [run_call]; try (cbn; discriminate).
    + unfold obs_result. cbn. destruct (st_event s); [destruct (st_exc s)|]; discriminate.
    + cbn [l_state no_locks]. destruct (done s); cbn; discriminate.
    + cbn [l_state no_locks]. unfold do_cancel_cs. destruct (done s) eqn:Hd; [cbn; discriminate|].
      destruct (is_not_started (st_status s)); [|cbn; discriminate].
      intros H. exfalso.
      match type of H with snd (ann2 E true no_locks ?s1) = _ =>
        assert (Hd1 : done s1 = true) by reflexivity;
        destruct (announce_body_done E true (ann1 E true) no_locks s1 Hd1) as (_ & _ & [A|[[_ A]|[A _]]])
      end.
      * unfold ann2 in H. rewrite H in A. discriminate.
      * cbn in A. intuition discriminate.
      * unfold ann2 in H. rewrite H in A. discriminate.
Qed.

(** When cleanups do not call the future (the library's own cleanups do not),
    cancel() always returns, and announce_done in a done state returns:
    in particular result() inside a done callback is never blocked. *)
Lemma run_list_plain rep ann scr mk held ids : (forall id, scr id = []) ->
  forall s, snd (run_list rep ann scr mk held s ids) = RUnit.
Proof.
  intros Hs. induction ids as [|id ids IH]; intros s; cbn [run_list]; [reflexivity|].
  rewrite Hs. cbn [run_script hangs]. apply IH.
Qed.

Lemma phase_cleanups_plain rep ann held s : (forall id, cl_script E id = []) ->
  snd (phase_cleanups E rep ann held s) <> RCallbackBlocked.
Proof.
  intros Hs. unfold phase_cleanups. destruct (is_success (st_status s)); [cbn; discriminate|].
  destruct (l_cleanups held); [cbn; discriminate|].
  pose proof (run_list_plain rep ann (cl_script E) RanCleanup (hold_cleanups held) (st_cleanups s) Hs s) as H.
  destruct (run_list rep ann (cl_script E) RanCleanup (hold_cleanups held) s (st_cleanups s)) as [s' r].
  cbn [snd] in H. subst r. cbn. discriminate.
Qed.

Lemma announce_returns_when_done s : (forall id, cl_script E id = []) -> done s = true ->
  snd (step E true s OAnnounce) = RUnit.
Proof.
  intros Hs Hd. cbn [step].
  destruct (announce_body_done E true (ann1 E true) no_locks s Hd) as (_ & _ & [A|[[_ A]|[_ [_ A]]]]).
  - exact A.
  - cbn in A. intuition discriminate.
  - now apply phase_cleanups_plain in A.
Qed.

Lemma cancel_returns s m k : (forall id, cl_script E id = []) ->
  snd (step E true s (OCancel m k)) = RUnit.
Proof.
  intros Hs. cbn [step OCancel run_call l_state no_locks]. unfold do_cancel_cs.
  destruct (done s) eqn:Hd; [reflexivity|].
  destruct (is_not_started (st_status s)); [|reflexivity].
  match goal with |- snd (ann2 E true no_locks ?s1) = _ =>
    assert (Hd1 : done s1 = true) by reflexivity;
    destruct (announce_body_done E true (ann1 E true) no_locks s1 Hd1) as (_ & _ & [A|[[_ A]|[_ [_ A]]]])
  end.
  - exact A.
  - cbn in A. intuition discriminate.
  - now apply phase_cleanups_plain in A.
Qed.

End Reentrancy.

(** Cleanups are run only by an op that starts in a non-success state. *)
Lemma step_success_no_cleanups E rep s o : st_status s = Success ->
  cl_ids (st_log (fst (step E rep s o))) = cl_ids (st_log s).
Proof.
  intros Hs. assert (Hd : done s = true) by (unfold done; now rewrite Hs).
  destruct o; cbn [step]; try reflexivity.
  - unfold do_set_exception. now destruct (negb (done s) || override).
  - unfold do_cancel_cs. now rewrite Hd.
  - unfold do_transition. now rewrite Hd.
  - unfold do_transition. now rewrite Hd.
  - now apply (announce_body_done E rep (ann1 E rep) no_locks s Hd).
  - destruct (phase_cleanups_done E rep (ann1 E rep) no_locks s Hd) as (_ & _ & H & _).
    now rewrite (H Hs).
  - now apply (phase_callbacks_done E rep (ann1 E rep) no_locks s Hd).
  - destruct (run_call_done rep (ann2 E rep) no_locks s c Hd) as (_ & (_ & _ & _ & H & _) & _).
    exact H.
Qed.

(** * Done callbacks run once, in registration order *)

Lemma hangs_in_cb r : hangs (in_cb r) = false -> hangs r = false.
Proof. destruct r; cbn; congruence. Qed.

Definition cb_inv (R : list Z) (s : state) : Prop := cb_ids (st_log s) ++ st_callbacks s = R.
Definition cb_pre (R : list Z) (s : state) : Prop := exists rest, cb_ids (st_log s) ++ rest = R.
Definition cb_good (R : list Z) (p : state * cres) : Prop :=
  cb_pre R (fst p) /\ (hangs (snd p) = false -> cb_inv R (fst p)).
Definition ann_cb (ann : nested) : Prop :=
  forall held s R, cb_inv R s -> cb_good R (ann held s).

Lemma cb_inv_pre R s : cb_inv R s -> cb_pre R s.
Proof. intros H. now exists (st_callbacks s). Qed.
Lemma cb_good_stay R s r : cb_inv R s -> cb_good R (s, r).
Proof. intros H. split; [now apply cb_inv_pre|auto]. Qed.
Lemma cb_inv_eq R s s' :
  cb_ids (st_log s') = cb_ids (st_log s) -> st_callbacks s' = st_callbacks s ->
  cb_inv R s -> cb_inv R s'.
Proof. unfold cb_inv. intros -> ->. auto. Qed.

Lemma allowed_cbview held c s : l_callbacks held = true -> allowed held c = true ->
  cb_ids (st_log (cs_apply c s)) = cb_ids (st_log s) /\ st_callbacks (cs_apply c s) = st_callbacks s.
Proof.
  intros Hl Ha. destruct c as [| | | | | |[]| | | |]; cbn [allowed] in Ha; try rewrite Hl in Ha;
    try discriminate; cbn [cs_apply].
  - destruct (done s); [|now split]. unfold do_set_exception. rewrite orb_true_r. now split.
  - unfold do_cancel_cs. destruct (done s); now split.
  - now split.
  - cbn. rewrite cb_ids_app. cbn. now rewrite app_nil_r.
  - cbn. rewrite cb_ids_app. cbn. now rewrite app_nil_r.
  - now split.
Qed.

Lemma refines_cbview held s s' : l_callbacks held = true -> refines held s s' ->
  cb_ids (st_log s') = cb_ids (st_log s) /\ st_callbacks s' = st_callbacks s.
Proof.
  intros Hl (l & -> & F). revert s. induction F as [|c l Hc F IH]; intros s; [now split|].
  change (cs_run (c :: l) s) with (cs_run l (cs_apply c s)).
  destruct (IH (cs_apply c s)) as [A B]. destruct (allowed_cbview held c s Hl Hc) as [C D].
  split; congruence.
Qed.

Section CallbacksOnce.
Variable E : env.
Variable rep : bool.

Lemma run_call_cb ann : ann_cb ann ->
  forall held s c R, cb_inv R s -> cb_good R (run_call rep ann held s c).
Proof.
  intros Ha held s c R Hi. destruct c; cbn [run_call]; try now apply cb_good_stay.
  - destruct (done s); [|now apply cb_good_stay]. destruct (l_state held); [now apply cb_good_stay|].
    apply cb_good_stay. revert Hi. apply cb_inv_eq; unfold do_set_exception; now rewrite orb_true_r.
  - destruct (l_state held); [now apply cb_good_stay|].
    destruct (do_cancel_cs msg k s) as [s' will] eqn:Hc.
    assert (Hi' : cb_inv R s').
    { revert Hi. unfold do_cancel_cs in Hc. destruct (done s); inversion Hc; subst; auto. }
    destruct will; [now apply Ha|now apply cb_good_stay].
Qed.

Lemma run_script_cb ann : ann_cb ann ->
  forall sc held s R, cb_inv R s -> cb_good R (run_script rep ann held s sc).
Proof.
  intros Ha sc. induction sc as [|c sc IH]; intros held s R Hi; cbn [run_script];
    [now apply cb_good_stay|].
  destruct (run_call_cb ann Ha held s c R Hi) as [H1 H2].
  destruct (run_call rep ann held s c) as [s' r]. cbn [fst snd] in *.
  destruct (hangs (in_cb r)) eqn:Hh.
  - split; [exact H1|]. cbn [snd]. congruence.
  - apply IH. specialize (H2 (hangs_in_cb _ Hh)). revert H2. apply cb_inv_eq; cbn; [|reflexivity].
    rewrite cb_ids_app. cbn. now rewrite app_nil_r.
Qed.

(** cleanups do not touch the done callbacks *)
Lemma run_list_cb_other ann scr : ann_cb ann ->
  forall ids held s R, cb_inv R s -> cb_good R (run_list rep ann scr RanCleanup held s ids).
Proof.
  intros Ha ids. induction ids as [|id ids IH]; intros held s R Hi; cbn [run_list];
    [now apply cb_good_stay|].
  assert (Hi1 : cb_inv R (log_ev (RanCleanup id) s)).
  { revert Hi. apply cb_inv_eq; cbn; [|reflexivity]. rewrite cb_ids_app. cbn. now rewrite app_nil_r. }
  destruct (run_script_cb ann Ha (scr id) held _ R Hi1) as [H1 H2].
  destruct (run_script rep ann held (log_ev (RanCleanup id) s) (scr id)) as [s' r]. cbn [fst snd] in *.
  destruct (hangs r) eqn:Hh.
  - split; [exact H1|]. cbn [snd]. congruence.
  - apply IH. now apply H2.
Qed.

Lemma phase_cleanups_cb ann : ann_cb ann ->
  forall held s R, cb_inv R s -> cb_good R (phase_cleanups E rep ann held s).
Proof.
  intros Ha held s R Hi. unfold phase_cleanups.
  destruct (is_success (st_status s)); [now apply cb_good_stay|].
  destruct (l_cleanups held); [now apply cb_good_stay|].
  destruct (run_list_cb_other ann (cl_script E) Ha (st_cleanups s) (hold_cleanups held) s R Hi) as [H1 H2].
  destruct (run_list rep ann (cl_script E) RanCleanup (hold_cleanups held) s (st_cleanups s)) as [s' r].
  cbn [fst snd] in *. destruct (hangs r) eqn:Hh.
  - split; [exact H1|]. cbn [snd]. congruence.
  - apply cb_good_stay. specialize (H2 eq_refl). revert H2. now apply cb_inv_eq.
Qed.

(** the phase that runs them: under the callbacks lock nothing else can run or
    clear them *)
Lemma run_list_cb_main ann held : ann_ok ann -> l_callbacks held = true ->
  forall ids s,
  let p := run_list rep ann (cb_script E) RanCallback held s ids in
  st_callbacks (fst p) = st_callbacks s /\
  exists ran rest, ids = ran ++ rest /\ cb_ids (st_log (fst p)) = cb_ids (st_log s) ++ ran /\
                   (hangs (snd p) = false -> rest = []).
Proof.
  intros Ha Hl ids. induction ids as [|id ids IH]; intros s p; subst p; cbn [run_list].
  - cbn. split; [reflexivity|]. exists [], []. repeat split; auto. now rewrite app_nil_r.
  - pose proof (run_script_ok rep ann Ha (cb_script E id) held (log_ev (RanCallback id) s)) as Hr.
    apply (refines_cbview _ _ _ Hl) in Hr.
    destruct (run_script rep ann held (log_ev (RanCallback id) s) (cb_script E id)) as [s' r].
    cbn [fst] in Hr. destruct Hr as [A B]. cbn [log_ev st_log st_callbacks] in A, B.
    rewrite cb_ids_app in A. cbn in A.
    destruct (hangs r) eqn:Hh; cbn [fst snd].
    + split; [exact B|]. exists [id], ids. split; [reflexivity|]. split; [exact A|]. congruence.
    + destruct (IH s') as (C & ran & rest & D1 & D2 & D3).
      split; [congruence|]. exists (id :: ran), rest. split; [now rewrite D1|]. split.
      * rewrite D2, A, <- app_assoc. reflexivity.
      * exact D3.
Qed.

Lemma phase_callbacks_cb ann : ann_ok ann ->
  forall held s R, cb_inv R s ->
  cb_good R (phase_callbacks E rep ann held s) /\
  (l_callbacks held = false -> hangs (snd (phase_callbacks E rep ann held s)) = false ->
   st_callbacks (fst (phase_callbacks E rep ann held s)) = []).
Proof.
  intros Ha held s R Hi. unfold phase_callbacks. destruct (l_callbacks held) eqn:Hl.
  - split; [now apply cb_good_stay|discriminate].
  - destruct (run_list_cb_main ann (hold_callbacks held) Ha eq_refl (st_callbacks s) s)
      as (A & ran & rest & B1 & B2 & B3).
    destruct (run_list rep ann (cb_script E) RanCallback (hold_callbacks held) s (st_callbacks s)) as [s' r].
    cbn [fst snd] in *. unfold cb_inv in Hi. destruct (hangs r) eqn:Hh; cbn [fst snd].
    + split; [|intros _; rewrite Hh; discriminate]. split; [|cbn [fst snd]; congruence].
      exists rest. cbn [fst]. rewrite B2, <- app_assoc, <- B1. exact Hi.
    + split; [|reflexivity]. apply cb_good_stay. unfold cb_inv. cbn.
      rewrite (B3 eq_refl), app_nil_r in B1. rewrite B2, app_nil_r, <- B1. exact Hi.
Qed.

Lemma announce_body_cb ann : ann_ok ann -> ann_cb ann -> ann_cb (announce_body E rep ann).
Proof.
  intros Ho Ha held s R Hi. unfold announce_body.
  destruct (phase_cleanups_cb ann Ha held s R Hi) as [H1 H2].
  destruct (phase_cleanups E rep ann held s) as [s1 r1]. cbn [fst snd] in *.
  destruct (hangs r1) eqn:Hh.
  - split; [exact H1|]. cbn [snd]. congruence.
  - apply phase_callbacks_cb; [exact Ho|]. specialize (H2 eq_refl). revert H2. now apply cb_inv_eq.
Qed.

Lemma ann0_cb : ann_cb ann0.
Proof. intros held s R Hi. now apply cb_good_stay. Qed.
Lemma ann1_cb : ann_cb (ann1 E rep).
Proof. apply announce_body_cb; [apply ann0_ok|apply ann0_cb]. Qed.
Lemma ann2_cb : ann_cb (ann2 E rep).
Proof. apply announce_body_cb; [apply ann1_ok|apply ann1_cb]. Qed.

Definition added_cb (o : op) : list Z := match o with OAddCallback id => [id] | _ => [] end.
Definition registered_callbacks (ops : list op) : list Z := flat_map added_cb ops.

Lemma cb_good_nil R p : cb_good R p -> cb_good (R ++ []) p.
Proof. now rewrite app_nil_r. Qed.

Lemma step_cb s o R : cb_inv R s -> cb_good (R ++ added_cb o) (step E rep s o).
Proof.
  intros Hi. destruct o; cbn [step added_cb]; try apply cb_good_nil.
  - now apply cb_good_stay.
  - apply cb_good_stay. revert Hi. apply cb_inv_eq; unfold do_set_exception;
      now destruct (negb (done s) || override).
  - destruct (do_cancel_cs msg k s) as [s' will] eqn:Hc. apply cb_good_stay.
    revert Hi. unfold do_cancel_cs in Hc. destruct (done s); inversion Hc; subst; auto.
  - unfold do_transition. destruct (done s); now apply cb_good_stay.
  - unfold do_transition. destruct (done s); now apply cb_good_stay.
  - now apply ann2_cb.
  - apply phase_cleanups_cb; [apply ann1_cb|exact Hi].
  - now apply cb_good_stay.
  - apply phase_callbacks_cb; [apply ann1_ok|exact Hi].
  - apply cb_good_stay. unfold cb_inv in *. cbn. now rewrite app_assoc, Hi.
  - now apply cb_good_stay.
  - now apply cb_good_stay.
  - apply run_call_cb; [apply ann2_cb|exact Hi].
Qed.

Lemma cb_pre_more R X s : cb_pre R s -> cb_pre (R ++ X) s.
Proof. intros (rest & <-). exists (rest ++ X). now rewrite app_assoc. Qed.

Lemma final_cb ops : forall s R, cb_inv R s ->
  cb_pre (R ++ registered_callbacks ops) (fst (final E rep s ops)) /\
  (snd (final E rep s ops) = false ->
   cb_inv (R ++ registered_callbacks ops) (fst (final E rep s ops))).
Proof.
  induction ops as [|o ops IH]; intros s R Hi; cbn [final registered_callbacks flat_map].
  - rewrite app_nil_r. split; [now apply cb_inv_pre|auto].
  - destruct (step_cb s o R Hi) as [H1 H2].
    destruct (step E rep s o) as [s' r]. cbn [fst snd] in *.
    rewrite app_assoc. destruct (hangs r) eqn:Hh; cbn [fst snd].
    + split; [now apply cb_pre_more|discriminate].
    + apply IH. now apply H2.
Qed.

(** an announce that returns has run everything that was pending *)
Lemma announce_runs_pending s R o : (o = OAnnounce \/ o = OCallbacks) ->
  cb_inv R s -> hangs (snd (step E rep s o)) = false ->
  st_callbacks (fst (step E rep s o)) = [] /\ cb_ids (st_log (fst (step E rep s o))) = R.
Proof.
  intros Ho Hi Hh.
  assert (Hg : cb_good R (step E rep s o)).
  { pose proof (step_cb s o R Hi) as H. destruct Ho; subst o; cbn [added_cb] in H;
      now rewrite app_nil_r in H. }
  assert (He : st_callbacks (fst (step E rep s o)) = []).
  { destruct Ho; subst o; cbn [step] in *.
    - unfold ann2, announce_body in *.
      destruct (phase_cleanups_cb (ann1 E rep) ann1_cb no_locks s R Hi) as [_ K].
      destruct (phase_cleanups E rep (ann1 E rep) no_locks s) as [s1 r1]. cbn [fst snd] in *.
      destruct (hangs r1) eqn:Hh1; [cbn [snd] in Hh; congruence|].
      assert (Hi1 : cb_inv R (set_event s1)) by (specialize (K eq_refl); revert K; now apply cb_inv_eq).
      now apply (phase_callbacks_cb (ann1 E rep) (ann1_ok E rep) no_locks (set_event s1) R Hi1).
    - now apply (phase_callbacks_cb (ann1 E rep) (ann1_ok E rep) no_locks s R Hi). }
  split; [exact He|]. destruct Hg as [_ Hg]. specialize (Hg Hh). unfold cb_inv in Hg.
  now rewrite He, app_nil_r in Hg.
Qed.

End CallbacksOnce.

(** * Failure cleanups run once, in registration order (mirror of the above) *)

Definition cl_inv (R : list Z) (s : state) : Prop := cl_ids (st_log s) ++ st_cleanups s = R.
Definition cl_pre (R : list Z) (s : state) : Prop := exists rest, cl_ids (st_log s) ++ rest = R.
Definition cl_good (R : list Z) (p : state * cres) : Prop :=
  cl_pre R (fst p) /\ (hangs (snd p) = false -> cl_inv R (fst p)).
Definition ann_cl (ann : nested) : Prop :=
  forall held s R, cl_inv R s -> cl_good R (ann held s).

Lemma cl_inv_pre R s : cl_inv R s -> cl_pre R s.
Proof. intros H. now exists (st_cleanups s). Qed.
Lemma cl_good_stay R s r : cl_inv R s -> cl_good R (s, r).
Proof. intros H. split; [now apply cl_inv_pre|auto]. Qed.
Lemma cl_inv_eq R s s' :
  cl_ids (st_log s') = cl_ids (st_log s) -> st_cleanups s' = st_cleanups s ->
  cl_inv R s -> cl_inv R s'.
Proof. unfold cl_inv. intros -> ->. auto. Qed.

Lemma allowed_clview held c s : l_cleanups held = true -> allowed held c = true ->
  cl_ids (st_log (cs_apply c s)) = cl_ids (st_log s) /\ st_cleanups (cs_apply c s) = st_cleanups s.
Proof.
  intros Hl Ha. destruct c as [| | | | | |[]| | | |]; cbn [allowed] in Ha; try rewrite Hl in Ha;
    try discriminate; cbn [cs_apply].
  - destruct (done s); [|now split]. unfold do_set_exception. rewrite orb_true_r. now split.
  - unfold do_cancel_cs. destruct (done s); now split.
  - now split.
  - cbn. rewrite cl_ids_app. cbn. now rewrite app_nil_r.
  - cbn. rewrite cl_ids_app. cbn. now rewrite app_nil_r.
  - now split.
Qed.

Lemma refines_clview held s s' : l_cleanups held = true -> refines held s s' ->
  cl_ids (st_log s') = cl_ids (st_log s) /\ st_cleanups s' = st_cleanups s.
Proof.
  intros Hl (l & -> & F). revert s. induction F as [|c l Hc F IH]; intros s; [now split|].
  change (cs_run (c :: l) s) with (cs_run l (cs_apply c s)).
  destruct (IH (cs_apply c s)) as [A B]. destruct (allowed_clview held c s Hl Hc) as [C D].
  split; congruence.
Qed.

Section CleanupsOnce.
Variable E : env.
Variable rep : bool.

Lemma run_call_cl ann : ann_cl ann ->
  forall held s c R, cl_inv R s -> cl_good R (run_call rep ann held s c).
Proof.
  intros Ha held s c R Hi. destruct c; cbn [run_call]; try now apply cl_good_stay.
  - destruct (done s); [|now apply cl_good_stay]. destruct (l_state held); [now apply cl_good_stay|].
    apply cl_good_stay. revert Hi. apply cl_inv_eq; unfold do_set_exception; now rewrite orb_true_r.
  - destruct (l_state held); [now apply cl_good_stay|].
    destruct (do_cancel_cs msg k s) as [s' will] eqn:Hc.
    assert (Hi' : cl_inv R s').
    { revert Hi. unfold do_cancel_cs in Hc. destruct (done s); inversion Hc; subst; auto. }
    destruct will; [now apply Ha|now apply cl_good_stay].
Qed.

Lemma run_script_cl ann : ann_cl ann ->
  forall sc held s R, cl_inv R s -> cl_good R (run_script rep ann held s sc).
Proof.
  intros Ha sc. induction sc as [|c sc IH]; intros held s R Hi; cbn [run_script];
    [now apply cl_good_stay|].
  destruct (run_call_cl ann Ha held s c R Hi) as [H1 H2].
  destruct (run_call rep ann held s c) as [s' r]. cbn [fst snd] in *.
  destruct (hangs (in_cb r)) eqn:Hh.
  - split; [exact H1|]. cbn [snd]. congruence.
  - apply IH. specialize (H2 (hangs_in_cb _ Hh)). revert H2. apply cl_inv_eq; cbn; [|reflexivity].
    rewrite cl_ids_app. cbn. now rewrite app_nil_r.
Qed.

(** cleanups do not touch the done callbacks *)
Lemma run_list_cl_other ann scr : ann_cl ann ->
  forall ids held s R, cl_inv R s -> cl_good R (run_list rep ann scr RanCallback held s ids).
Proof.
  intros Ha ids. induction ids as [|id ids IH]; intros held s R Hi; cbn [run_list];
    [now apply cl_good_stay|].
  assert (Hi1 : cl_inv R (log_ev (RanCallback id) s)).
  { revert Hi. apply cl_inv_eq; cbn; [|reflexivity]. rewrite cl_ids_app. cbn. now rewrite app_nil_r. }
  destruct (run_script_cl ann Ha (scr id) held _ R Hi1) as [H1 H2].
  destruct (run_script rep ann held (log_ev (RanCallback id) s) (scr id)) as [s' r]. cbn [fst snd] in *.
  destruct (hangs r) eqn:Hh.
  - split; [exact H1|]. cbn [snd]. congruence.
  - apply IH. now apply H2.
Qed.

Lemma phase_callbacks_cl ann : ann_cl ann ->
  forall held s R, cl_inv R s -> cl_good R (phase_callbacks E rep ann held s).
Proof.
  intros Ha held s R Hi. unfold phase_callbacks.
  destruct (l_callbacks held); [now apply cl_good_stay|].
  destruct (run_list_cl_other ann (cb_script E) Ha (st_callbacks s) (hold_callbacks held) s R Hi) as [H1 H2].
  destruct (run_list rep ann (cb_script E) RanCallback (hold_callbacks held) s (st_callbacks s)) as [s' r].
  cbn [fst snd] in *. destruct (hangs r) eqn:Hh.
  - split; [exact H1|]. cbn [snd]. congruence.
  - apply cl_good_stay. specialize (H2 eq_refl). revert H2. now apply cl_inv_eq.
Qed.

(** the phase that runs them: under the cleanups lock nothing else can run or
    clear them *)
Lemma run_list_cl_main ann held : ann_ok ann -> l_cleanups held = true ->
  forall ids s,
  let p := run_list rep ann (cl_script E) RanCleanup held s ids in
  st_cleanups (fst p) = st_cleanups s /\
  exists ran rest, ids = ran ++ rest /\ cl_ids (st_log (fst p)) = cl_ids (st_log s) ++ ran /\
                   (hangs (snd p) = false -> rest = []).
Proof.
  intros Ha Hl ids. induction ids as [|id ids IH]; intros s p; subst p; cbn [run_list].
  - cbn. split; [reflexivity|]. exists [], []. repeat split; auto. now rewrite app_nil_r.
  - pose proof (run_script_ok rep ann Ha (cl_script E id) held (log_ev (RanCleanup id) s)) as Hr.
    apply (refines_clview _ _ _ Hl) in Hr.
    destruct (run_script rep ann held (log_ev (RanCleanup id) s) (cl_script E id)) as [s' r].
    cbn [fst] in Hr. destruct Hr as [A B]. cbn [log_ev st_log st_cleanups] in A, B.
    rewrite cl_ids_app in A. cbn in A.
    destruct (hangs r) eqn:Hh; cbn [fst snd].
    + split; [exact B|]. exists [id], ids. split; [reflexivity|]. split; [exact A|]. congruence.
    + destruct (IH s') as (C & ran & rest & D1 & D2 & D3).
      split; [congruence|]. exists (id :: ran), rest. split; [now rewrite D1|]. split.
      * rewrite D2, A, <- app_assoc. reflexivity.
      * exact D3.
Qed.

Lemma phase_cleanups_cl ann : ann_ok ann ->
  forall held s R, cl_inv R s ->
  cl_good R (phase_cleanups E rep ann held s) /\
  (is_success (st_status s) = false -> l_cleanups held = false ->
   hangs (snd (phase_cleanups E rep ann held s)) = false ->
   st_cleanups (fst (phase_cleanups E rep ann held s)) = []).
Proof.
  intros Ha held s R Hi. unfold phase_cleanups.
  destruct (is_success (st_status s)) eqn:Hs; [split; [now apply cl_good_stay|discriminate]|].
  destruct (l_cleanups held) eqn:Hl.
  - split; [now apply cl_good_stay|intros _; discriminate].
  - destruct (run_list_cl_main ann (hold_cleanups held) Ha eq_refl (st_cleanups s) s)
      as (A & ran & rest & B1 & B2 & B3).
    destruct (run_list rep ann (cl_script E) RanCleanup (hold_cleanups held) s (st_cleanups s)) as [s' r].
    cbn [fst snd] in *. unfold cl_inv in Hi. destruct (hangs r) eqn:Hh; cbn [fst snd].
    + split; [|intros _ _; rewrite Hh; discriminate]. split; [|cbn [fst snd]; congruence].
      exists rest. cbn [fst]. rewrite B2, <- app_assoc, <- B1. exact Hi.
    + split; [|reflexivity]. apply cl_good_stay. unfold cl_inv. cbn.
      rewrite (B3 eq_refl), app_nil_r in B1. rewrite B2, app_nil_r, <- B1. exact Hi.
Qed.

Lemma announce_body_cl ann : ann_ok ann -> ann_cl ann -> ann_cl (announce_body E rep ann).
Proof.
  intros Ho Ha held s R Hi. unfold announce_body.
  destruct (phase_cleanups_cl ann Ho held s R Hi) as [[H1 H2] _].
  destruct (phase_cleanups E rep ann held s) as [s1 r1]. cbn [fst snd] in *.
  destruct (hangs r1) eqn:Hh.
  - split; [exact H1|]. cbn [snd]. congruence.
  - apply phase_callbacks_cl; [exact Ha|]. specialize (H2 eq_refl). revert H2. now apply cl_inv_eq.
Qed.

Lemma ann0_cl : ann_cl ann0.
Proof. intros held s R Hi. now apply cl_good_stay. Qed.
Lemma ann1_cl : ann_cl (ann1 E rep).
Proof. apply announce_body_cl; [apply ann0_ok|apply ann0_cl]. Qed.
Lemma ann2_cl : ann_cl (ann2 E rep).
Proof. apply announce_body_cl; [apply ann1_ok|apply ann1_cl]. Qed.

Definition added_cl (o : op) : list Z := match o with OAddCleanup id => [id] | _ => [] end.
Definition registered_cleanups (ops : list op) : list Z := flat_map added_cl ops.

Lemma cl_good_nil R p : cl_good R p -> cl_good (R ++ []) p.
Proof. now rewrite app_nil_r. Qed.

Lemma step_cl s o R : cl_inv R s -> cl_good (R ++ added_cl o) (step E rep s o).
Proof.
  intros Hi. destruct o; cbn [step added_cl]; try apply cl_good_nil.
  - now apply cl_good_stay.
  - apply cl_good_stay. revert Hi. apply cl_inv_eq; unfold do_set_exception;
      now destruct (negb (done s) || override).
  - destruct (do_cancel_cs msg k s) as [s' will] eqn:Hc. apply cl_good_stay.
    revert Hi. unfold do_cancel_cs in Hc. destruct (done s); inversion Hc; subst; auto.
  - unfold do_transition. destruct (done s); now apply cl_good_stay.
  - unfold do_transition. destruct (done s); now apply cl_good_stay.
  - now apply ann2_cl.
  - apply phase_cleanups_cl; [apply ann1_ok|exact Hi].
  - now apply cl_good_stay.
  - apply phase_callbacks_cl; [apply ann1_cl|exact Hi].
  - now apply cl_good_stay.
  - apply cl_good_stay. unfold cl_inv in *. cbn. now rewrite app_assoc, Hi.
  - now apply cl_good_stay.
  - apply run_call_cl; [apply ann2_cl|exact Hi].
Qed.

Lemma cl_pre_more R X s : cl_pre R s -> cl_pre (R ++ X) s.
Proof. intros (rest & <-). exists (rest ++ X). now rewrite app_assoc. Qed.

Lemma final_cl ops : forall s R, cl_inv R s ->
  cl_pre (R ++ registered_cleanups ops) (fst (final E rep s ops)) /\
  (snd (final E rep s ops) = false ->
   cl_inv (R ++ registered_cleanups ops) (fst (final E rep s ops))).
Proof.
  induction ops as [|o ops IH]; intros s R Hi; cbn [final registered_cleanups flat_map].
  - rewrite app_nil_r. split; [now apply cl_inv_pre|auto].
  - destruct (step_cl s o R Hi) as [H1 H2].
    destruct (step E rep s o) as [s' r]. cbn [fst snd] in *.
    rewrite app_assoc. destruct (hangs r) eqn:Hh; cbn [fst snd].
    + split; [now apply cl_pre_more|discriminate].
    + apply IH. now apply H2.
Qed.


End CleanupsOnce.

(** * Facts along every history *)

Lemma inv_iff s : inv s ->
  (st_exc s <> None <-> (st_status s = Failed \/ st_status s = Cancelled)).
Proof.
  intros [H _]. unfold has_exc in H. destruct (st_exc s), (st_status s); cbn in H; try discriminate;
    split; intros K; try congruence; try (destruct K; discriminate); auto.
Qed.

Lemma inv_exc_done s e : inv s -> st_exc s = Some e -> done s = true.
Proof.
  intros [H _] He. unfold has_exc, done in *. rewrite He in H. now destruct (st_status s).
Qed.

Lemma cs_run_exc_kept l : forall s e0, inv s -> st_exc s = Some e0 ->
  existsb replacer l = false -> st_exc (cs_run l s) = Some e0.
Proof.
  induction l as [|c l IH]; intros s e0 Hi He Hx; [exact He|].
  cbn in Hx. apply orb_false_iff in Hx. destruct Hx as [Hc Hl].
  change (cs_run (c :: l) s) with (cs_run l (cs_apply c s)).
  apply IH; [now apply cs_inv|now apply cs_exc_kept|exact Hl].
Qed.

Section Histories.
Variable E : env.
Variable rep : bool.

Lemma step_inv s o : inv s -> inv (fst (step E rep s o)).
Proof. apply (step_closed E rep inv cs_inv). Qed.

Lemma step_done s o : done s = true -> done (fst (step E rep s o)) = true.
Proof. apply (step_closed E rep (fun s => done s = true) cs_done_mono). Qed.

Lemma step_event s o : st_event s = true -> st_event (fst (step E rep s o)) = true.
Proof. apply (step_closed E rep (fun s => st_event s = true) cs_event_mono). Qed.

Definition along (Q : state -> op -> cres -> state -> Prop) (h : list (state * op * cres * state)) :=
  Forall (fun t => match t with (s0, o, r, s') => Q s0 o r s' end) h.

(** done is monotone; a done transfer is not restarted *)
Lemma done_monotone_run ops s : done s = true ->
  along (fun s0 o r s' =>
           done s0 = true /\ done s' = true /\
           (o = OCall CDone -> r = RBool true) /\
           ((o = OQueued \/ o = ORunning) -> r = RRuntimeError /\ s' = s0))
        (run E rep s ops).
Proof.
  apply (run_Forall E rep (fun s => done s = true)); [apply step_done|].
  intros s0 o Hd. split; [exact Hd|]. split; [now apply step_done|]. split.
  - intros ->. cbn. now rewrite Hd.
  - intros [-> | ->]; cbn; unfold do_transition; rewrite Hd; now split.
Qed.

Lemma no_restart_step s : done s = true ->
  step E rep s OQueued = (s, RRuntimeError) /\ step E rep s ORunning = (s, RRuntimeError).
Proof. intros Hd. cbn. unfold do_transition. now rewrite Hd. Qed.

(** first failure kept *)
Lemma first_failure_step s e0 : inv s -> st_exc s = Some e0 ->
  forall e m k,
  step E rep s (OSetException e false) = (s, RUnit) /\
  step E rep s (OCancel m k) = (s, RUnit) /\
  step E rep s (OCancelCS m k) = (s, RBool false).
Proof.
  intros Hi He e m k. pose proof (inv_exc_done s e0 Hi He) as Hd.
  cbn. unfold do_set_exception, do_cancel_cs. rewrite Hd. cbn. auto.
Qed.

Lemma first_failure_run ops :
  along (fun s0 o r s' => forall e0, st_exc s0 = Some e0 ->
           ((exists e, o = OSetException e false) \/ (exists m k, o = OCancel m k) \/
            (exists m k, o = OCancelCS m k)) -> s' = s0)
        (run E rep init ops).
Proof.
  apply (run_Forall E rep inv); [apply step_inv| |apply inv_init].
  intros s0 o Hi e0 He Ho.
  destruct Ho as [[e ->]|[(m & k & ->)|(m & k & ->)]];
    destruct (first_failure_step s0 e0 Hi He (mkExn KOther 0) 0 KCancelled) as (A & B & C).
  - destruct (first_failure_step s0 e0 Hi He e 0 KCancelled) as (A' & _). now rewrite A'.
  - destruct (first_failure_step s0 e0 Hi He e0 m k) as (_ & B' & _). now rewrite B'.
  - destruct (first_failure_step s0 e0 Hi He e0 m k) as (_ & _ & C'). now rewrite C'.
Qed.

(** only set_result / override / the user's set_exception (in a done state) replace *)
Lemma replaced_step s o e0 : inv s -> st_exc s = Some e0 ->
  st_exc (fst (step E rep s o)) <> Some e0 ->
  (exists r, o = OSetResult r) \/ (exists e, o = OSetException e true) \/
  (done s = true /\
   ((exists e, o = OUserSetException e) \/ is_announce_op o = true) /\
   exists l e, fst (step E rep s o) = cs_run l s /\
               Forall (fun c => allowed no_locks c = true) l /\ In (CsUserSetException e) l).
Proof.
  intros Hi He Hne. destruct (step_cs E rep s o) as (l & Hl & F).
  destruct (existsb replacer l) eqn:Hx.
  2:{ exfalso. apply Hne. rewrite Hl. now apply cs_run_exc_kept. }
  apply existsb_exists in Hx. destruct Hx as (c & Hin & Hc).
  pose proof (proj1 (Forall_forall _ _) F c Hin) as Hoc.
  pose proof (inv_exc_done s e0 Hi He) as Hd.
  destruct o; cbn [cs_of_op] in Hoc; try (subst c; cbn in Hc; try discriminate).
  - left. eauto.
  - destruct override; [|discriminate]. right. left. eauto.
  - right. right. split; [exact Hd|]. split; [now right|].
    destruct c; cbn in Hc, Hoc; try discriminate; try (destruct ov; discriminate).
    exists l, e. split; [exact Hl|]. split; [exact F|exact Hin].
  - right. right. split; [exact Hd|]. split; [now right|].
    destruct c; cbn in Hc, Hoc; try discriminate; try (destruct ov; discriminate).
    exists l, e. split; [exact Hl|]. split; [exact F|exact Hin].
  - right. right. split; [exact Hd|]. split; [now right|].
    destruct c; cbn in Hc, Hoc; try discriminate; try (destruct ov; discriminate).
    exists l, e. split; [exact Hl|]. split; [exact F|exact Hin].
  - contradiction.
  - (* OCall: only future.set_exception changes anything in a done state *)
    destruct c0.
    + exfalso. apply Hne. exact He.
    + exfalso. apply Hne. exact He.
    + exfalso. apply Hne. exact He.
    + right. right. split; [exact Hd|]. split; [left; exists e; reflexivity|].
      destruct c; cbn in Hc, Hoc; try discriminate; try (destruct ov; discriminate).
      exists l, e1. split; [exact Hl|]. split; [exact F|exact Hin].
    + exfalso. apply Hne. cbn. unfold do_cancel_cs. rewrite Hd. exact He.
Qed.

Lemma replaced_run ops :
  along (fun s0 o r s' => forall e0, st_exc s0 = Some e0 -> st_exc s' <> Some e0 ->
           (exists v, o = OSetResult v) \/ (exists e, o = OSetException e true) \/
           (done s0 = true /\
            ((exists e, o = OUserSetException e) \/ is_announce_op o = true) /\
            exists l e, s' = cs_run l s0 /\
                        Forall (fun c => allowed no_locks c = true) l /\
                        In (CsUserSetException e) l))
        (run E rep init ops).
Proof.
  apply (run_Forall E rep inv); [apply step_inv| |apply inv_init].
  intros s0 o Hi e0 He Hne. exact (replaced_step s0 o e0 Hi He Hne).
Qed.

(** agreement *)
Definition agrees (s : state) : Prop :=
  (st_exc s <> None <-> (st_status s = Failed \/ st_status s = Cancelled)) /\
  (st_event s = true ->
   (forall e, st_exc s = Some e -> obs_result s = RRaises e) /\
   (st_status s = Success ->
    st_exc s = None /\ exists v, st_result s = Some v /\ obs_result s = RReturns (Some v))).

Lemma inv_agrees s : inv s -> agrees s.
Proof.
  intros Hi. split; [now apply inv_iff|]. intros Hev. split.
  - intros e He. unfold obs_result. now rewrite Hev, He.
  - intros Hs. destruct Hi as [H1 H2]. specialize (H2 Hs).
    unfold has_exc in H1. rewrite Hs in H1. cbn in H1.
    destruct (st_exc s) eqn:He; [discriminate|]. split; [reflexivity|].
    destruct (st_result s) as [v|] eqn:Hr; [|congruence]. exists v. split; [reflexivity|].
    unfold obs_result. now rewrite Hev, He, Hr.
Qed.

Lemma agreement_run ops :
  along (fun s0 o r s' => agrees s0 /\ agrees s' /\ (o = OCall CResult -> r = obs_result s0))
        (run E rep init ops).
Proof.
  apply (run_Forall E rep inv); [apply step_inv| |apply inv_init].
  intros s0 o Hi. split; [now apply inv_agrees|]. split; [apply inv_agrees, step_inv, Hi|].
  now intros ->.
Qed.

(** the user's set_exception *)
Lemma user_set_exception_step s e :
  (done s = false -> step E rep s (OUserSetException e) = (s, RNotDone)) /\
  (done s = true ->
   step E rep s (OUserSetException e) = (do_set_exception e true s, RUnit) /\
   st_exc (do_set_exception e true s) = Some e /\ st_status (do_set_exception e true s) = Failed).
Proof.
  split; intros Hd; cbn; rewrite Hd; [reflexivity|].
  unfold do_set_exception. rewrite orb_true_r. cbn. auto.
Qed.

(** cleanups only from a non-success state *)
Lemma cleanups_nonsuccess_run ops s :
  along (fun s0 o r s' => st_status s0 = Success -> cl_ids (st_log s') = cl_ids (st_log s0))
        (run E rep s ops).
Proof.
  apply (run_Forall E rep (fun _ => True)); auto.
  intros s0 o _. apply step_success_no_cleanups.
Qed.

Lemma never_stuck_run ops s : along (fun s0 o r s' => r <> RStuck) (run E rep s ops).
Proof.
  apply (run_Forall E rep (fun _ => True)); auto. intros s0 o _. apply step_never_stuck.
Qed.

End Histories.

Lemma no_self_deadlock_run E ops s :
  along (fun s0 o r s' => r = RSelfDeadlock -> done s0 = false /\ is_announce_op o = true)
        (run E true s ops).
Proof.
  apply (run_Forall E true (fun _ => True)); auto. intros s0 o _. apply step_no_self_deadlock.
Qed.

(** the discipline every caller in the library follows: announce only once done *)
Lemma no_self_deadlock_disciplined E ops s :
  along (fun s0 o r s' => is_announce_op o = true -> done s0 = true) (run E true s ops) ->
  along (fun s0 o r s' => r <> RSelfDeadlock /\ r <> RStuck) (run E true s ops).
Proof.
  intros Hd. pose proof (no_self_deadlock_run E ops s) as H1.
  pose proof (never_stuck_run E true ops s) as H2. unfold along in *.
  rewrite Forall_forall in *. intros [[[s0 o] r] s'] Hin.
  specialize (Hd _ Hin). specialize (H1 _ Hin). specialize (H2 _ Hin). cbn in *.
  split; [|exact H2]. intros Hr. destruct (H1 Hr) as [A B]. rewrite (Hd B) in A. discriminate.
Qed.

(** at most once, by counting *)
Lemma prefix_count (l rest R : list Z) id : l ++ rest = R ->
  (count_occ Z.eq_dec l id <= count_occ Z.eq_dec R id)%nat.
Proof. intros <-. rewrite count_occ_app. lia. Qed.

(** * Callbacks that do not call the future (ids only) *)

Definition core (s : state) := (st_status s, st_exc s, st_result s).

Lemma run_list_plain_core rep ann scr mk held ids : (forall id, scr id = []) ->
  forall s, core (fst (run_list rep ann scr mk held s ids)) = core s.
Proof.
  intros Hs. induction ids as [|id ids IH]; intros s; cbn [run_list]; [reflexivity|].
  rewrite Hs. cbn [run_script hangs]. now rewrite IH.
Qed.

Lemma announce_plain_core rep s o : is_announce_op o = true ->
  core (fst (step no_scripts rep s o)) = core s.
Proof.
  assert (Hc : forall ann held s0, core (fst (phase_cleanups no_scripts rep ann held s0)) = core s0).
  { intros ann held s0. unfold phase_cleanups. destruct (is_success (st_status s0)); [reflexivity|].
    destruct (l_cleanups held); [reflexivity|].
    pose proof (run_list_plain_core rep ann (cl_script no_scripts) RanCleanup (hold_cleanups held)
                  (st_cleanups s0) (fun _ => eq_refl) s0) as H.
    destruct (run_list rep ann (cl_script no_scripts) RanCleanup (hold_cleanups held) s0 (st_cleanups s0))
      as [s' r]. cbn [fst] in *. destruct (hangs r); exact H. }
  assert (Hb : forall ann held s0, core (fst (phase_callbacks no_scripts rep ann held s0)) = core s0).
  { intros ann held s0. unfold phase_callbacks. destruct (l_callbacks held); [reflexivity|].
    pose proof (run_list_plain_core rep ann (cb_script no_scripts) RanCallback (hold_callbacks held)
                  (st_callbacks s0) (fun _ => eq_refl) s0) as H.
    destruct (run_list rep ann (cb_script no_scripts) RanCallback (hold_callbacks held) s0 (st_callbacks s0))
      as [s' r]. cbn [fst] in *. destruct (hangs r); exact H. }
  destruct o; try discriminate; intros _; cbn [step].
  - unfold ann2, announce_body. specialize (Hc (ann1 no_scripts rep) no_locks s).
    destruct (phase_cleanups no_scripts rep (ann1 no_scripts rep) no_locks s) as [s1 r1]. cbn [fst] in Hc.
    destruct (hangs r1); [exact Hc|]. rewrite Hb. exact Hc.
  - apply Hc.
  - apply Hb.
Qed.

Lemma replaced_plain rep s o e0 : inv s -> st_exc s = Some e0 ->
  st_exc (fst (step no_scripts rep s o)) <> Some e0 ->
  (exists r, o = OSetResult r) \/ (exists e, o = OSetException e true) \/
  (done s = true /\ exists e, o = OUserSetException e).
Proof.
  intros Hi He Hne.
  destruct (replaced_step no_scripts rep s o e0 Hi He Hne) as [H|[H|(Hd & [H|H] & _)]]; auto.
  exfalso. apply Hne. pose proof (announce_plain_core rep s o H) as Hc. unfold core in Hc.
  inversion Hc. congruence.
Qed.

(** * A done state is frozen

    Stronger than first-failure-kept and needing no reachability: in ANY done
    state (success included) nothing but set_result, set_exception(override)
    and the user's set_exception changes (status, exception, result). *)

Lemma cs_done_frozen c s : done s = true -> replacer c = false -> core (cs_apply c s) = core s.
Proof.
  intros Hd Hr. destruct c; cbn [cs_apply replacer] in *; try discriminate;
    unfold core; crush_state s; try reflexivity; cases st; fin.
Qed.

Lemma cs_run_done_frozen l : forall s, done s = true -> existsb replacer l = false ->
  core (cs_run l s) = core s.
Proof.
  induction l as [|c l IH]; intros s Hd Hx; [reflexivity|].
  cbn in Hx. apply orb_false_iff in Hx. destruct Hx as [Hc Hl].
  change (cs_run (c :: l) s) with (cs_run l (cs_apply c s)).
  rewrite IH; [now apply cs_done_frozen|now apply cs_done_mono|exact Hl].
Qed.

Lemma done_frozen_step E rep s o : done s = true ->
  core (fst (step E rep s o)) <> core s ->
  (exists r, o = OSetResult r) \/ (exists e, o = OSetException e true) \/
  (((exists e, o = OUserSetException e) \/ is_announce_op o = true) /\
   exists l e, fst (step E rep s o) = cs_run l s /\
               Forall (fun c => allowed no_locks c = true) l /\ In (CsUserSetException e) l).
Proof.
  intros Hd Hne. destruct (step_cs E rep s o) as (l & Hl & F).
  destruct (existsb replacer l) eqn:Hx.
  2:{ exfalso. apply Hne. rewrite Hl. now apply cs_run_done_frozen. }
  apply existsb_exists in Hx. destruct Hx as (c & Hin & Hc).
  pose proof (proj1 (Forall_forall _ _) F c Hin) as Hoc.
  destruct o; cbn [cs_of_op] in Hoc; try (subst c; cbn in Hc; try discriminate).
  - left. eauto.
  - destruct override; [|discriminate]. right. left. eauto.
  - right. right. split; [now right|].
    destruct c; cbn in Hc, Hoc; try discriminate; try (destruct ov; discriminate).
    exists l, e. split; [exact Hl|]. split; [exact F|exact Hin].
  - right. right. split; [now right|].
    destruct c; cbn in Hc, Hoc; try discriminate; try (destruct ov; discriminate).
    exists l, e. split; [exact Hl|]. split; [exact F|exact Hin].
  - right. right. split; [now right|].
    destruct c; cbn in Hc, Hoc; try discriminate; try (destruct ov; discriminate).
    exists l, e. split; [exact Hl|]. split; [exact F|exact Hin].
  - contradiction.
  - destruct c0.
    + exfalso. now apply Hne.
    + exfalso. now apply Hne.
    + exfalso. now apply Hne.
    + right. right. split; [left; exists e; reflexivity|].
      destruct c; cbn in Hc, Hoc; try discriminate; try (destruct ov; discriminate).
      exists l, e0. split; [exact Hl|]. split; [exact F|exact Hin].
    + exfalso. apply Hne. cbn. unfold do_cancel_cs. now rewrite Hd.
Qed.

Lemma done_frozen_run E rep ops s : done s = true ->
  along (fun s0 o r s' => core s' <> core s0 ->
           (exists v, o = OSetResult v) \/ (exists e, o = OSetException e true) \/
           (((exists e, o = OUserSetException e) \/ is_announce_op o = true) /\
            exists l e, s' = cs_run l s0 /\
                        Forall (fun c => allowed no_locks c = true) l /\
                        In (CsUserSetException e) l))
        (run E rep s ops).
Proof.
  apply (run_Forall E rep (fun s => done s = true)); [apply step_done|].
  intros s0 o Hd Hne. exact (done_frozen_step E rep s0 o Hd Hne).
Qed.
