From Coq Require Import ZArith List Bool Lia ZifyBool Arith.
From S3V Require Import gen.Tables model.Chunk model.Progress model.Plan
  proofs.PlanProofs proofs.ChunkProofs.
Import ListNotations.
Open Scope Z_scope.

(** * Sums and running sums *)

Lemma zsum_app a b : zsum (a ++ b) = zsum a + zsum b.
Proof. induction a as [|x a IH]; cbn [zsum app]; lia. Qed.

(** Every prefix sum lies in [0, n]. *)
Definition within (n : Z) (l : list Z) : Prop := forall k, 0 <= zsum (firstn k l) <= n.

(** ... and the total is n. *)
Definition exact_for (n : Z) (l : list Z) : Prop := within n l /\ zsum l = n.

Lemma within_nonneg n l : within n l -> 0 <= n.
Proof. intros H. specialize (H 0%nat). cbn in H. lia. Qed.

(** * The aggregator *)

Lemma agg_run_cons thr p e r :
  agg_run thr p (e :: r) =
  (fst (agg_run thr (fst (agg_ev thr p e)) r),
   snd (agg_ev thr p e) ++ snd (agg_run thr (fst (agg_ev thr p e)) r)).
Proof.
  cbn [agg_run]. destruct (agg_ev thr p e) as [p1 o1]. cbn [fst snd].
  destruct (agg_run thr p1 r) as [p2 o2]. reflexivity.
Qed.

Lemma agg_run_app thr a : forall p b,
  agg_run thr p (a ++ b) =
  (fst (agg_run thr (fst (agg_run thr p a)) b),
   snd (agg_run thr p a) ++ snd (agg_run thr (fst (agg_run thr p a)) b)).
Proof.
  induction a as [|e a IH]; intros p b.
  - cbn [app agg_run fst snd]. now destruct (agg_run thr p b).
  - rewrite <- app_comm_cons, !agg_run_cons, IH. cbn [fst snd]. now rewrite app_assoc.
Qed.

(** The raw value of one event. *)
Definition ev_value (e : ev) : Z := match e with EvProgress n => n | EvClose => 0 end.

Lemma raw_sum_cons e r : raw_sum (e :: r) = ev_value e + raw_sum r.
Proof. destruct e; cbn [raw_sum ev_value]; lia. Qed.

(** One event either passes nothing on (pending grows by its value) or passes
    on everything pending (pending becomes 0). *)
Lemma agg_ev_cases thr p e :
  (agg_ev thr p e = (p + ev_value e, [])) \/ (agg_ev thr p e = (0, [p + ev_value e])).
Proof.
  destruct e as [n|]; cbn [agg_ev ev_value].
  - unfold agg_call. destruct (p + n >=? thr); auto.
  - unfold agg_flush. rewrite Z.add_0_r. destruct (p >? 0); auto.
Qed.

(** Conservation: what reached the subscriber plus what is pending is the raw
    sum (plus what was pending before). *)
Theorem agg_conserves thr es : forall p,
  zsum (snd (agg_run thr p es)) + fst (agg_run thr p es) = p + raw_sum es.
Proof.
  induction es as [|e es IH]; intros p; [cbn; lia|].
  rewrite agg_run_cons, raw_sum_cons. cbn [fst snd]. rewrite zsum_app.
  specialize (IH (fst (agg_ev thr p e))).
  destruct (agg_ev_cases thr p e) as [E|E]; rewrite E in *; cbn [fst snd zsum] in *; lia.
Qed.

(** Every prefix of what reached the subscriber sums to nothing or to the raw
    sum of a prefix of the events (it is the raw sum at the last trigger). *)
Lemma agg_prefix thr es : forall p m,
  zsum (firstn m (snd (agg_run thr p es))) = 0 \/
  exists n, zsum (firstn m (snd (agg_run thr p es))) = p + raw_sum (firstn n es).
Proof.
  induction es as [|e es IH]; intros p m.
  - left. cbn. now rewrite firstn_nil.
  - rewrite agg_run_cons. cbn [snd].
    destruct (agg_ev_cases thr p e) as [E|E]; rewrite E; cbn [fst snd app].
    + destruct (IH (p + ev_value e) m) as [Z0|[n Hn]]; [left; exact Z0|].
      right. exists (S n). cbn [firstn]. rewrite raw_sum_cons. lia.
    + destruct m as [|m]; [left; reflexivity|]. cbn [firstn zsum]. right.
      destruct (IH 0 m) as [Z0|[n Hn]].
      * exists 1%nat. cbn [firstn]. rewrite raw_sum_cons. cbn [raw_sum]. lia.
      * exists (S n). cbn [firstn]. rewrite raw_sum_cons. lia.
Qed.

Corollary agg_prefix0 thr es m :
  exists n, zsum (firstn m (subscriber_values thr es)) = raw_sum (firstn n es).
Proof.
  unfold subscriber_values. destruct (agg_prefix thr es 0 m) as [Z0|[n Hn]].
  - exists 0%nat. cbn. exact Z0.
  - exists n. lia.
Qed.

(** Bounds carry over from the raw values to the aggregated ones. *)
Theorem agg_within thr es lo hi :
  (forall n, lo <= raw_sum (firstn n es) <= hi) ->
  forall m, lo <= zsum (firstn m (subscriber_values thr es)) <= hi.
Proof. intros H m. destruct (agg_prefix0 thr es m) as [n ->]. apply H. Qed.

(** At close: if the raw sum never exceeded its final value, what is pending
    at close is >= 0, so the flush (which only fires for > 0) loses nothing. *)
Theorem agg_flushed_total thr es :
  (forall n, raw_sum (firstn n es) <= raw_sum es) ->
  zsum (subscriber_values thr (es ++ [EvClose])) = raw_sum es.
Proof.
  intros Hmax. unfold subscriber_values. rewrite agg_run_app. cbn [snd]. rewrite zsum_app.
  pose proof (agg_conserves thr es 0) as Hc.
  destruct (agg_prefix0 thr es (length (snd (agg_run thr 0 es)))) as [n Hn].
  unfold subscriber_values in Hn. rewrite firstn_all in Hn.
  specialize (Hmax n).
  set (p1 := fst (agg_run thr 0 es)) in *. set (o1 := snd (agg_run thr 0 es)) in *.
  cbn [agg_run agg_ev]. unfold agg_flush.
  destruct (p1 >? 0) eqn:E; cbn [snd app zsum]; lia.
Qed.

(** * Events of a script, prefix by prefix *)

Lemma step_events_short c o : (length (step_events c o) <= 1)%nat.
Proof.
  unfold step_events. destruct o as [amt|w wh| | | |]; cbn [step snd]; try (cbn; lia).
  - unfold do_read. destruct (closed c); [cbn; lia|]. cbn [snd].
    destruct (enabled c); [|cbn; lia]. unfold emit. destruct (_ =? 0); cbn; lia.
  - unfold do_seek. destruct (negb _); [cbn; lia|]. destruct (closed c); [cbn; lia|]. cbn [snd].
    destruct (enabled c); [|cbn; lia]. unfold emit. destruct (_ =? 0); cbn; lia.
  - unfold do_close. cbn [snd]. destruct (enabled c); cbn; lia.
Qed.

(** Every prefix of the event list is the event list of a prefix of the script. *)
Lemma events_prefix ops : forall c k,
  exists n, firstn k (run_events c ops) = run_events c (firstn n ops).
Proof.
  induction ops as [|o ops IH]; intros c k.
  - exists 0%nat. unfold run_events; cbn. now rewrite firstn_nil.
  - rewrite run_events_cons. pose proof (step_events_short c o) as Hs.
    destruct (step_events c o) as [|x [|y t]] eqn:E; [| |cbn in Hs; lia].
    + destruct (IH (step_state c o) k) as [n Hn]. exists (S n).
      cbn [firstn app]. rewrite run_events_cons, E. exact Hn.
    + destruct k as [|k]; [exists 0%nat; reflexivity|].
      destruct (IH (step_state c o) k) as [n Hn]. exists (S n).
      cbn [firstn app]. rewrite run_events_cons, E. cbn [app]. now rewrite Hn.
Qed.

(** * One upload body, through the aggregator *)

Theorem upload_body_within thr first rs c :
  fresh c -> valid_attempt first = true -> forallb valid_attempt rs = true ->
  within (size c) (subscriber_values thr (run_events c (body_life first rs))).
Proof.
  intros Hf Hvf Hvs m. apply agg_within. intros k.
  destruct (events_prefix (body_life first rs) c k) as [n ->].
  apply (request_reported_eq_bounded_pos first rs c n Hf Hvf Hvs).
Qed.

Theorem upload_body_exact thr first rs c :
  fresh c -> valid_attempt first = true -> forallb valid_attempt rs = true ->
  size c <= amount_read (run_state c (request_ops first rs)) ->
  exact_for (size c) (subscriber_values thr (run_events c (body_life first rs))).
Proof.
  intros Hf Hvf Hvs Hfull. split; [now apply upload_body_within|].
  destruct (request_complete_sum first rs c Hf Hvf Hvs Hfull) as [Hsum Hev].
  rewrite Hev, agg_flushed_total; [exact Hsum|].
  intros n. rewrite Hsum.
  destruct (events_prefix (request_ops first rs) c n) as [k ->].
  (* a prefix of the request script is a prefix of the body's life *)
  assert (Hpre : firstn k (request_ops first rs) =
                 firstn (Nat.min k (length (request_ops first rs))) (body_life first rs)).
  { unfold body_life. rewrite firstn_app.
    replace (Nat.min k (length (request_ops first rs)) - length (request_ops first rs))%nat
      with 0%nat by lia.
    cbn [firstn]. rewrite app_nil_r.
    destruct (Nat.le_ge_cases k (length (request_ops first rs))) as [L|G].
    - now rewrite Nat.min_l.
    - rewrite Nat.min_r by exact G. now rewrite !firstn_all2 by lia. }
  rewrite Hpre.
  apply (request_reported_eq_bounded_pos first rs c _ Hf Hvf Hvs).
Qed.

(** * Copies *)

Lemma copy_progress_exact_for n : 0 <= n -> exact_for n (copy_progress n).
Proof.
  intros Hn. unfold copy_progress. split; [|cbn; lia].
  intros [|[|k]]; cbn; lia.
Qed.

(** * The plan's part sizes add up to the object size *)

Lemma zseq_snoc s n : zseq s (S n) = zseq s n ++ [s + Z.of_nat n].
Proof.
  revert s; induction n as [|n IH]; intros s.
  - cbn. now rewrite Z.add_0_r.
  - change (zseq s (S (S n))) with (s :: zseq (s + 1) (S n)). rewrite IH.
    cbn [zseq app]. do 3 f_equal. lia.
Qed.

Lemma zsum_const_prefix (f : Z -> Z) ps : forall m s,
  (forall i, s <= i < s + Z.of_nat m -> f i = ps) ->
  zsum (map f (zseq s m)) = Z.of_nat m * ps.
Proof.
  induction m as [|m IH]; intros s H; [reflexivity|].
  cbn [zseq map zsum]. rewrite IH by (intros i Hi; apply H; lia).
  rewrite (H s) by lia. lia.
Qed.

(** All parts but the last have the part size, the last has the rest. *)
Lemma tile_sum (f : Z -> Z) n ps total :
  0 <= n -> (forall i, 0 <= i < n - 1 -> f i = ps) ->
  (0 < n -> f (n - 1) = total - (n - 1) * ps) -> (n = 0 -> total = 0) ->
  zsum (map f (zseq 0 (Z.to_nat n))) = total.
Proof.
  intros Hn Hfull Hlast Hzero.
  destruct (Z.to_nat n) as [|m] eqn:E.
  - cbn. symmetry. apply Hzero. lia.
  - rewrite zseq_snoc, map_app, zsum_app. cbn [map zsum].
    rewrite (zsum_const_prefix f ps m 0) by (intros i Hi; apply Hfull; lia).
    replace (0 + Z.of_nat m) with (n - 1) by lia. rewrite Hlast by lia. lia.
Qed.

Lemma num_parts_facts size ps : 0 <= size -> 0 < ps ->
  0 <= num_parts size ps /\ (num_parts size ps = 0 -> size = 0) /\
  (num_parts size ps - 1) * ps < size \/ size = 0.
Proof.
  intros Hs Hp. unfold num_parts.
  pose proof (ceil_div_spec size ps Hs Hp). pose proof (ceil_div_nonneg size ps Hs Hp).
  pose proof (ceil_div_zero_iff size ps Hs Hp).
  destruct (Z.eq_dec size 0); [right; assumption|left]. repeat split; try lia.
Qed.

Theorem copy_sizes_sum size ps : 0 <= size -> 0 < ps ->
  zsum (map (fun i => copy_part_size ps i (num_parts size ps) size)
            (zseq 0 (Z.to_nat (num_parts size ps)))) = size.
Proof.
  intros Hs Hp. unfold num_parts.
  pose proof (ceil_div_spec size ps Hs Hp) as Hc. pose proof (ceil_div_nonneg size ps Hs Hp) as Hn.
  pose proof (ceil_div_zero_iff size ps Hs Hp) as Hz.
  apply (tile_sum _ (ceil_div size ps) ps size Hn).
  - intros i Hi. unfold copy_part_size. destruct (i =? ceil_div size ps - 1) eqn:E; lia.
  - intros Hpos. unfold copy_part_size. rewrite Z.eqb_refl. lia.
  - intros E. apply Hz. exact E.
Qed.

Theorem upload_sizes_sum size ps : 0 <= size -> 0 < ps ->
  zsum (map (fun i => Z.min ps (size - i * ps)) (zseq 0 (Z.to_nat (num_parts size ps)))) = size.
Proof.
  intros Hs Hp. unfold num_parts.
  pose proof (ceil_div_spec size ps Hs Hp) as Hc. pose proof (ceil_div_nonneg size ps Hs Hp) as Hn.
  pose proof (ceil_div_zero_iff size ps Hs Hp) as Hz.
  apply (tile_sum _ (ceil_div size ps) ps size Hn).
  - intros i Hi. nia.
  - intros Hpos. nia.
  - intros E. apply Hz. exact E.
Qed.

Definition interval_len (p : Z * Z) : Z := snd p - fst p.

Theorem download_sizes_sum size ps : 0 <= size -> 0 < ps ->
  zsum (map (fun r => interval_len (range_interval size r)) (download_ranges size ps)) = size.
Proof.
  intros Hs Hp. unfold download_ranges. rewrite map_map.
  pose proof (ceil_div_spec size ps Hs Hp) as Hc. pose proof (ceil_div_nonneg size ps Hs Hp) as Hn.
  pose proof (ceil_div_zero_iff size ps Hs Hp) as Hz. unfold num_parts in *.
  apply (tile_sum _ (ceil_div size ps) ps size Hn).
  - intros i Hi. unfold range_param, range_interval, interval_len.
    destruct (i =? ceil_div size ps - 1) eqn:E; [lia|]. cbn [fst snd]. nia.
  - intros Hpos. unfold range_param, range_interval, interval_len. rewrite Z.eqb_refl.
    cbn [fst snd]. lia.
  - intros E. apply Hz. exact E.
Qed.

(** The copy plan as _submit_multipart_request computes it. *)
Theorem copy_plan_sizes_sum mn mx mp size c plan :
  0 < mn -> mn <= mx -> 0 <= size ->
  copy_plan_with mn mx mp size c = Some plan ->
  zsum (map snd plan) = size /\ Forall (fun p => 0 <= snd p) plan.
Proof.
  intros Hmn Hmx Hs. unfold copy_plan_with.
  destruct (adjust_chunksize_with mn mx mp c (Some size)) as [ps|] eqn:E; [|discriminate].
  intros [= <-]. pose proof (adjust_with_in_limits mn mx mp Hmx c (Some size) ps E) as Hps.
  rewrite map_map. cbn [snd]. split; [apply copy_sizes_sum; lia|].
  apply Forall_forall. intros p Hin. apply in_map_iff in Hin as (i & <- & Hi). cbn [snd].
  apply zseq_In in Hi. unfold copy_part_size, num_parts in *.
  pose proof (ceil_div_spec size ps Hs ltac:(lia)).
  destruct (i =? ceil_div size ps - 1) eqn:E2; nia.
Qed.

(** * Interleavings: sums commute *)

Definition acc_sum (bs : list (Z * Z)) : Z := zsum (map fst bs).
Definition hi_sum (bs : list (Z * Z)) : Z := zsum (map snd bs).

Lemma acc_sum_app a b : acc_sum (a ++ b) = acc_sum a + acc_sum b.
Proof. unfold acc_sum. now rewrite map_app, zsum_app. Qed.

Lemma hi_sum_app a b : hi_sum (a ++ b) = hi_sum a + hi_sum b.
Proof. unfold hi_sum. now rewrite map_app, zsum_app. Qed.

(** [l] keeps its running sum, started at [fst b], within [0, snd b]. *)
Definition part_ok (l : list Z) (b : Z * Z) : Prop :=
  forall k, 0 <= fst b + zsum (firstn k l) <= snd b.

Lemma parts_acc_bounds ls bs : Forall2 part_ok ls bs -> 0 <= acc_sum bs <= hi_sum bs.
Proof.
  induction 1 as [|l b ls bs H _ IH]; [cbn; lia|].
  unfold acc_sum, hi_sum in *. cbn [map zsum]. specialize (H 0%nat). cbn in H. lia.
Qed.

Lemma interleaving_running ls out : interleaving ls out ->
  forall bs, Forall2 part_ok ls bs ->
  forall k, 0 <= acc_sum bs + zsum (firstn k out) <= hi_sum bs.
Proof.
  induction 1 as [ls Hnil|pre x l post out Hil IH]; intros bs Hok k.
  - rewrite firstn_nil. cbn [zsum]. pose proof (parts_acc_bounds ls bs Hok). lia.
  - destruct k as [|k]; [cbn [firstn zsum]; pose proof (parts_acc_bounds _ bs Hok); lia|].
    apply Forall2_app_inv_l in Hok as (bpre & brest & Hpre & Hrest & ->).
    inversion Hrest as [|? b ? bpost Hb Hpost]; subst.
    destruct b as [acc hi].
    assert (Hok' : Forall2 part_ok (pre ++ l :: post) (bpre ++ (acc + x, hi) :: bpost)).
    { apply Forall2_app; [exact Hpre|]. constructor; [|exact Hpost].
      intros j. specialize (Hb (S j)). cbn [firstn zsum fst snd] in *. lia. }
    specialize (IH _ Hok' k).
    rewrite acc_sum_app, hi_sum_app in *. unfold acc_sum, hi_sum in *.
    cbn [map zsum fst snd firstn] in *. lia.
Qed.

Lemma interleaving_total ls out : interleaving ls out -> zsum out = zsum (map zsum ls).
Proof.
  induction 1 as [ls Hnil|pre x l post out Hil IH].
  - cbn [zsum]. induction Hnil as [|l ls -> _ IH]; [reflexivity|]. cbn [map zsum]. lia.
  - cbn [zsum]. rewrite IH, !map_app, !zsum_app. cbn [map zsum]. lia.
Qed.

(** Parts that are each within their size, interleaved in any way, are within
    the sum of the sizes; if each part is exact so is the whole. *)
Theorem interleaved_within ls sizes out :
  Forall2 (fun l n => within n l) ls sizes -> interleaving ls out ->
  within (zsum sizes) out.
Proof.
  intros Hparts Hil k.
  assert (Hok : Forall2 part_ok ls (map (fun n => (0, n)) sizes)).
  { clear Hil k. induction Hparts as [|l n ls sizes H _ IH]; cbn [map]; [constructor|].
    constructor; [|exact IH]. intros j. cbn [fst snd]. specialize (H j). lia. }
  pose proof (interleaving_running ls out Hil _ Hok k) as H.
  assert (Ea : acc_sum (map (fun n => (0, n)) sizes) = 0).
  { unfold acc_sum. rewrite map_map. cbn [fst]. clear. induction sizes; cbn; lia. }
  assert (Eh : hi_sum (map (fun n => (0, n)) sizes) = zsum sizes).
  { unfold hi_sum. rewrite map_map. cbn [snd]. now rewrite map_id. }
  lia.
Qed.

Theorem interleaved_exact ls sizes out :
  Forall2 (fun l n => exact_for n l) ls sizes -> interleaving ls out ->
  exact_for (zsum sizes) out.
Proof.
  intros Hparts Hil. split.
  - apply (interleaved_within ls sizes out); [|exact Hil].
    clear Hil. induction Hparts as [|l n ls sizes [H _] _ IH]; constructor; assumption.
  - rewrite (interleaving_total ls out Hil). clear Hil.
    induction Hparts as [|l n ls sizes [_ H] _ IH]; [reflexivity|]. cbn [map zsum]. lia.
Qed.
