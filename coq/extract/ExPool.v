From Coq Require Import ZArith List Extraction ExtrOcamlBasic.
From S3V Require Import gen.Tables model.Pool.
Extraction Language OCaml.
Extraction "../ocaml/gen/pool.ml" Z.of_nat Z.to_nat Z.of_N N.of_nat Z.add
  run observe max_attempts.
