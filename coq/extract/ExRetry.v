From Coq Require Import ZArith List Extraction ExtrOcamlBasic.
From S3V Require Import model.Retry.
Extraction Language OCaml.
Extraction "../ocaml/gen/retry.ml" Z.of_nat Z.to_nat Z.of_N N.of_nat Z.add
  run_get_full run_get g_progress g_requests g_attempts range_bytes.
