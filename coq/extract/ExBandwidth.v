From Coq Require Import ZArith QArith List Extraction ExtrOcamlBasic.
From S3V Require Import gen.Tables model.Bandwidth.
Extraction Language OCaml.
Extraction "../ocaml/gen/bandwidth.ml" Z.of_nat Z.to_nat Z.of_N N.of_nat Z.add
  BW_ALPHA BW_BYTES_THRESHOLD bucket0 sys0 run_decs_nt sys_run_nt Qred.
