From Coq Require Import ZArith List Extraction ExtrOcamlBasic.
From S3V Require Import gen.Tables model.Crt.
Extraction Language OCaml.
Extraction "../ocaml/gen/crt.ml" Z.of_nat Z.to_nat Z.of_N N.of_nat Z.add
  init step run future_of holding crt_permits.
