From Coq Require Import ZArith List Extraction ExtrOcamlBasic.
From S3V Require Import model.Sema model.SemaConc.
Extraction Language OCaml.
Extraction "../ocaml/gen/sema.ml" Z.of_nat Z.to_nat Z.of_N N.of_nat Z.add
  sw_init run step ts_run wf wf_strict grun ghost0 quiescent sum_out get known
  cinit cstep crun.
