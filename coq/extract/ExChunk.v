From Coq Require Import ZArith List Extraction ExtrOcamlBasic.
From S3V Require Import gen.Tables model.Chunk model.Progress.
Extraction Language OCaml.
Extraction "../ocaml/gen/chunk.ml" Z.of_nat Z.to_nat Z.of_N N.of_nat Z.add
  mk_chunk step run raw_sum chunk_bytes bounded_pos send_loop
  agg_call agg_flush agg_run subscriber_values subscriber_values_default
  sign_ops send_ops attempt_ops request_ops body_life valid_attempt valid_op copy_progress zsum suppressed_ok hyp_ok.
