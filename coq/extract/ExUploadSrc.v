From Coq Require Import ZArith List Extraction ExtrOcamlBasic.
From S3V Require Import gen.Tables model.Plan model.Chunk model.Progress model.S3Spec model.UploadSrc.
Extraction Language OCaml.
Extraction "../ocaml/gen/uploadsrc.ml" Z.of_nat Z.to_nat Z.of_N N.of_nat Z.add
  upload_seq upload_seq_unrepaired copy_seq legacy_seq upload_ord copy_ord legacy_ord
  final_send l_send_loop l_seek mk_lchunk.
