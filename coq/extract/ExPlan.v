From Coq Require Import ZArith List Extraction ExtrOcamlBasic.
From S3V Require Import gen.Tables model.Plan.
Extraction Language OCaml.
Extraction "../ocaml/gen/plan.ml" Z.of_nat Z.to_nat Z.of_N N.of_nat Z.add
  num_parts range_param copy_part_size adjust_chunksize adjust_chunksize_with
  is_multipart is_multipart_preread download_ranges copy_plan upload_plan copy_plan_with upload_plan_with.
