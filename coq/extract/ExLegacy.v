From Coq Require Import ZArith List Extraction ExtrOcamlBasic.
From S3V Require Import model.Plan model.Legacy.
Extraction Language OCaml.
Extraction "../ocaml/gen/legacy.ml" Z.of_nat Z.to_nat Z.of_N N.of_nat Z.add
  legacy_upload_inorder legacy_multipart_upload legacy_multipart_upload_unrepaired
  legacy_download legacy_download_unrepaired final_fs dest_trace init_fs parts_run upload_part_extent.
