From Coq Require Import ZArith List Extraction ExtrOcamlBasic.
From S3V Require Import model.Retry model.DeferQ model.DownloadDest.
Extraction Language OCaml.
Extraction "../ocaml/gen/download.ml" Z.of_nat Z.to_nat Z.of_N N.of_nat Z.add
  manager_download pool_download_with pool_download dl_plan plan_interval write_all merge.
