From Coq Require Import ZArith List String Extraction ExtrOcamlBasic.
From S3V Require Import gen.Tables gen.Shapes model.Route.
Extraction Language OCaml.
Extraction "../ocaml/gen/route.ml" Z.of_nat Z.to_nat Z.of_N N.of_nat Z.add
  route op_name.
