From Coq Require Import ZArith List Extraction ExtrOcamlBasic.
From S3V Require Import model.Sys.
Extraction Language OCaml.
Extraction "../ocaml/gen/sys.ml" Z.of_nat Z.to_nat Z.of_N N.of_nat Z.add
  Sys.step Sys.init Sys.run Sys.is_done.
