From Coq Require Import ZArith List Extraction ExtrOcamlBasic.
From S3V Require Import model.Coord.
Extraction Language OCaml.
Extraction "../ocaml/gen/coord.ml" Z.of_nat Z.to_nat Z.of_N N.of_nat Z.add Z.eqb
  init step run final hangs obs_result done no_scripts cb_ids cl_ids.
