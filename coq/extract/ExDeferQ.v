From Coq Require Import ZArith List Extraction ExtrOcamlBasic.
From S3V Require Import model.DeferQ.
Extraction Language OCaml.
Extraction "../ocaml/gen/deferq.ml" Z.of_nat Z.to_nat Z.of_N N.of_nat Z.add Z.ltb
  init request_writes run manager_run next_offset heap pending chunks_from.
