(* driver for the extracted Plan model: one command per line *)
let z = z_of_string
let range_str (s, e) = string_of_z s ^ ":" ^ string_of_zopt e
let () = iter_lines (fun line ->
  match words line with
  | ["np"; size; ps] -> string_of_z (num_parts (z size) (z ps))
  | ["rp"; ps; idx; n; total] ->
      range_str (range_param (z ps) (z idx) (z n) (zopt_of_string total))
  | ["cps"; ps; idx; n; total] -> string_of_z (copy_part_size (z ps) (z idx) (z n) (z total))
  | ["adj"; c; size] -> string_of_zopt (adjust_chunksize (z c) (zopt_of_string size))
  | ["adjw"; mn; mx; mp; c; size] ->
      string_of_zopt (adjust_chunksize_with (z mn) (z mx) (z mp) (z c) (zopt_of_string size))
  | ["mp"; size; thr] -> if is_multipart (z size) (z thr) then "1" else "0"
  | ["mpp"; got; thr] -> if is_multipart_preread (z got) (z thr) then "1" else "0"
  | ["dl"; size; ps] -> String.concat "," (List.map range_str (download_ranges (z size) (z ps)))
  | ["cpw"; mn; mx; mp; size; c] ->
      (match copy_plan_with (z mn) (z mx) (z mp) (z size) (z c) with
       | None -> "none"
       | Some l -> String.concat "," (List.map (fun ((pn, r), sz) ->
           string_of_z pn ^ "/" ^ range_str r ^ "/" ^ string_of_z sz) l))
  | ["upw"; mn; mx; mp; size; c] ->
      (match upload_plan_with (z mn) (z mx) (z mp) (z size) (z c) with
       | None -> "none"
       | Some l -> String.concat "," (List.map (fun ((pn, st), ln) ->
           string_of_z pn ^ "/" ^ string_of_z st ^ "/" ^ string_of_z ln) l))
  | ["cp"; size; c] ->
      (match copy_plan (z size) (z c) with
       | None -> "none"
       | Some l -> String.concat "," (List.map (fun ((pn, r), sz) ->
           string_of_z pn ^ "/" ^ range_str r ^ "/" ^ string_of_z sz) l))
  | ["up"; size; c] ->
      (match upload_plan (z size) (z c) with
       | None -> "none"
       | Some l -> String.concat "," (List.map (fun ((pn, st), ln) ->
           string_of_z pn ^ "/" ^ string_of_z st ^ "/" ^ string_of_z ln) l))
  | _ -> "ERR bad command")
