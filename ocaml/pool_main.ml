(* driver for the extracted Pool model (trace validator).
   input line : <workers> <event> <event> ...
   output line: ok <observables>  |  rej <index of first rejected event> <observables>
   observables: per transfer exc,done,jtc,temp,dest,written-bits,ncounted,nfin
   joined by ';', then the shutdown phase. *)
let nat s = nat_of_int (int_of_string s)
let bool_ s = match s with "1" -> true | "0" -> false | _ -> failwith ("bad bool " ^ s)
let ev_of_string (tok : string) : event =
  match String.split_on_char ':' tok with
  | ["un"; t] -> UNew (nat t)
  | ["up"; t] -> UPut (nat t)
  | ["uc"; t] -> UCancel (nat t)
  | ["ui"] -> UInterrupt
  | ["ur"; t; b] -> UResult (nat t, bool_ b)
  | ["us"] -> UShutSub
  | ["uw"] -> UShutWorkers
  | ["ux"] -> UShutReturn
  | ["sg"; "-"] -> SGet None
  | ["sg"; t] -> SGet (Some (nat t))
  | ["ss"; b] -> SSize (bool_ b)
  | ["sa"; b] -> SAlloc (bool_ b)
  | ["sn"; n] -> SAnnounce (nat n)
  | ["se"; t; i] -> SEnq (nat t, nat i)
  | ["sx"] -> SNotifyExc
  | ["sd"] -> SNotifyDone
  | "w" :: w :: rest ->
      let a = match rest with
        | ["g"; "-"] -> WGet None
        | ["g"; t; i] -> WGet (Some (nat t, nat i))
        | ["c"; b] -> WCheck (bool_ b)
        | ["a"; "ok"] -> WAttempt AOk
        | ["a"; "re"] -> WAttempt ARetry
        | ["a"; "fa"] -> WAttempt AFatal
        | ["x"] -> WNotifyExc
        | ["d"; r] -> WDecr (z_of_string r)
        | ["f"; b] -> WFinChk (bool_ b)
        | ["rm"] -> WRemove
        | ["rn"; b] -> WRename (bool_ b)
        | ["rx"] -> WRenExc
        | ["rr"] -> WRenRemove
        | ["dn"] -> WDone
        | _ -> failwith ("bad worker action " ^ tok) in
      W (nat w, a)
  | _ -> failwith ("bad event " ^ tok)

let b2s b = if b then "1" else "0"
let exc_str = function
  | None -> "-" | Some ECancel -> "cancel" | Some EJob -> "job"
  | Some ESubmit -> "submit" | Some ERename -> "rename"
let tr_str ((((e, d), j), ((tmp, dst), bits)), (nc, nf)) =
  String.concat "," [exc_str e; b2s d; string_of_z j; b2s tmp; b2s dst;
                     "w" ^ String.concat "" (List.map b2s bits);
                     string_of_int (int_of_nat nc); string_of_int (int_of_nat nf)]
let ush_str = function URun -> "run" | USub -> "sub" | UWrk -> "wrk" | URet -> "ret"
let obs_str s =
  let (trs, u) = observe s in
  String.concat ";" (List.map tr_str trs) ^ " " ^ ush_str u

let () = iter_lines (fun line ->
  match words line with
  | nw :: evs ->
      let (s, r) = run (nat nw) (List.map ev_of_string evs) in
      (match r with
       | None -> "ok " ^ obs_str s
       | Some i -> "rej " ^ string_of_int (int_of_nat i) ^ " " ^ obs_str s)
  | [] -> "ERR empty")
