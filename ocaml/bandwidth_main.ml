(* driver for the extracted Bandwidth model: one history per line.

   B <alpha> <max> ; c <amt> <tok> <time> ; x <tok> ; ...
       bucket history: c = consume, x = cancel
       answer per op:  G | R:<wait> | X      ('~' appended to G/R = near tie)
   S <alpha> <max> <threshold> ; r <sid> <amount> <exc> <time> ; w <sid> <exc> <time>
       ; z <sid> <exc> <time> ; e <sid> ; d <sid> ; ...
       stream history: r = read, w = wake-up of a sleeping stream, z = close,
       e/d = enable/disable;  exc = 1 iff the transfer's exception is set
       answer per event: P (read passes) | S:<wait> (sleeps) | E (raises)
                         | C (closed) | K | BAD
   <alpha>, <threshold>: '-' = the source's default (gen/Tables.v).
   rationals are <hexnum>/<hexden>, integers hex. *)
let z = z_of_string

let q_of_string (s : string) : q =
  match String.split_on_char '/' s with
  | [n] -> { qnum = z n; qden = XH }
  | [n; d] ->
      (match z d with
       | Zpos p -> qred { qnum = z n; qden = p }
       | _ -> failwith ("non-positive denominator in " ^ s))
  | _ -> failwith ("bad rational " ^ s)

let string_of_q (x : q) : string =
  string_of_z x.qnum ^ "/" ^ hex_of_pos x.qden

let alpha_of s = if s = "-" then bW_ALPHA else q_of_string s
let bool_of s = (s = "1")

let split_ops (line : string) : string list list =
  List.map words (String.split_on_char ';' line)

let bop_of = function
  | ["c"; amt; tok; t] -> Consume (z amt, z tok, q_of_string t)
  | ["x"; tok] -> Cancel (z tok)
  | _ -> failwith "bad bucket op"

let sev_of = function
  | ["r"; sid; amount; exc; t] -> EvRead (z sid, z amount, bool_of exc, q_of_string t)
  | ["w"; sid; exc; t] -> EvWake (z sid, bool_of exc, q_of_string t)
  | ["z"; sid; exc; t] -> EvClose (z sid, bool_of exc, q_of_string t)
  | ["e"; sid] -> EvEnable (z sid)
  | ["d"; sid] -> EvDisable (z sid)
  | _ -> failwith "bad stream event"

let tie b = if b then "~" else ""

let dec_str (d, nt) = match d with
  | None -> "X"
  | Some Granted -> "G" ^ tie nt
  | Some (Refused w) -> "R" ^ tie nt ^ ":" ^ string_of_q w

let out_str (o, nt) = match o with
  | OPass -> "P" ^ tie nt
  | OSleep w -> "S" ^ tie nt ^ ":" ^ string_of_q w
  | ORaise -> "E"
  | OClosed -> "C" ^ tie nt
  | OOk -> "K"
  | OBad -> "BAD"

let () = iter_lines (fun line ->
  match split_ops line with
  | ["B"; alpha; mx] :: ops ->
      let ops = List.map bop_of (List.filter (fun w -> w <> []) ops) in
      String.concat " " (List.map dec_str (run_decs_nt (alpha_of alpha) (q_of_string mx) bucket0 ops))
  | ["S"; alpha; mx; thr] :: evs ->
      let evs = List.map sev_of (List.filter (fun w -> w <> []) evs) in
      let thr = if thr = "-" then bW_BYTES_THRESHOLD else z thr in
      String.concat " " (List.map out_str (sys_run_nt thr (alpha_of alpha) (q_of_string mx) sys0 evs))
  | _ -> "ERR bad command")
