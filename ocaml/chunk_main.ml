(* driver for the extracted Chunk / Progress models: one command per line *)
let zs = z_of_string
let bytes_of_hex s =
  if s = "-" then [] else
  List.init (String.length s / 2) (fun i -> zs (String.sub s (2 * i) 2))
let hex_of_bytes l =
  String.concat "" (List.map (fun b ->
    let h = string_of_z b in if String.length h = 1 then "0" ^ h else h) l)
let split_on c s = if s = "" then [] else String.split_on_char c s

let op_of_token t =
  match String.split_on_char ':' t with
  | ["R"; "N"] -> Read None
  | ["R"; a] -> Read (Some (zs a))
  | ["S"; w; wh] -> Seek (zs w, zs wh)
  | ["E"] -> Enable
  | ["D"] -> Disable
  | ["T"] -> Tell
  | ["C"] -> Close
  | _ -> failwith ("bad op " ^ t)

let token_of_op = function
  | Read None -> "R:N"
  | Read (Some a) -> "R:" ^ string_of_z a
  | Seek (w, wh) -> "S:" ^ string_of_z w ^ ":" ^ string_of_z wh
  | Enable -> "E" | Disable -> "D" | Tell -> "T" | Close -> "C"

let string_of_result = function
  | RData d -> "d" ^ hex_of_bytes d
  | RPos p -> "p" ^ string_of_z p
  | RNone -> "n"
  | RValueError -> "e"

let string_of_ev = function EvProgress n -> string_of_z n | EvClose -> "X"

let read_of_token t = if t = "N" then None else Some (zs t)

(* attempt token: <signops>/<sendreads>, both comma separated, possibly empty *)
let attempt_of_token t =
  match String.split_on_char '/' t with
  | [s; r] -> { sign_body = List.map op_of_token (split_on ',' s);
                send_reads = List.map read_of_token (split_on ',' r) }
  | _ -> failwith ("bad attempt " ^ t)

let thr_of s = if s = "-" then aGG_PROGRESS_THRESHOLD else zs s

let () = iter_lines (fun line ->
  match words line with
  | "run" :: f :: start :: req :: full :: en :: thr :: ops ->
      let c = mk_chunk (bytes_of_hex f) (zs start) (zs req) (zs full) (en = "1") in
      let ((_, rs), es) = run c (List.map op_of_token ops) in
      String.concat "," (List.map string_of_result rs) ^ " | " ^
      String.concat "," (List.map string_of_ev es) ^ " | " ^
      String.concat "," (List.map string_of_z (subscriber_values (thr_of thr) es))
  | "runq" :: f :: start :: req :: full :: en :: thr :: ops ->
      (* the raw events are not observable from outside the managers' bodies *)
      let c = mk_chunk (bytes_of_hex f) (zs start) (zs req) (zs full) (en = "1") in
      let ((_, rs), es) = run c (List.map op_of_token ops) in
      String.concat "," (List.map string_of_result rs) ^ " | * | " ^
      String.concat "," (List.map string_of_z (subscriber_values (thr_of thr) es))
  | "hyp" :: f :: start :: req :: full :: en :: ops ->
      (* decision procedure for the hypotheses of chunk_reported_checked *)
      let c = mk_chunk (bytes_of_hex f) (zs start) (zs req) (zs full) (en = "1") in
      if hyp_ok c (List.map op_of_token ops) then "1" else "0"
  | "reqops" :: first :: resends ->
      let a = attempt_of_token first and rs = List.map attempt_of_token resends in
      (if valid_attempt a && List.for_all valid_attempt rs then "valid " else "invalid ") ^
      String.concat " " (List.map token_of_op (body_life a rs))
  | "agg" :: thr :: evs ->
      let es = List.map (fun t -> if t = "X" then EvClose else EvProgress (zs t)) evs in
      let (p, out) = agg_run (thr_of thr) Z0 es in
      string_of_z p ^ " | " ^ String.concat "," (List.map string_of_z out)
  | ["copy"; n] -> String.concat "," (List.map string_of_z (copy_progress (zs n)))
  | _ -> "ERR bad command")
