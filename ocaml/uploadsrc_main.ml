(* driver for the extracted UploadSrc / S3Spec models: one command per line

   up <kind> <data> <pos> <script> <thr> <cfg> <mn> <mx> <mp> <alg> <order>
        kind   path | seek | stream | unrep (stream with the pre-repair reader)
        data   hex bytes, "-" = empty         script  comma separated hex numbers, "-" = none
        alg    0|1 (a checksum algorithm is in use)
        order  "-" = submission order, else comma separated task indices (hex)
     -> <put|mp> c=<chunk> bodies=<pn>:<hex>;... reads=<n,...> parts=<etag>/<pn>/<cks>;... ok=<0|1> obj=<hex|none>
   cp <data> <thr> <cfg> <mn> <mx> <mp> <alg> <order>
     -> ranges=<pn>:<lo>:<hi>;... parts=... ok=.. obj=..       (ranges only for order "-")
   lg <data> <thr> <ps> <order>
     -> bodies=... parts=... ok=.. obj=..                       (bodies only for order "-")
   fs <data> <start> <requested> <full> <sizes> <ops...>
     -> the bytes of the final complete send after the history <ops>, or "none"
   ls <data> <start> <requested> <where> <sizes>
     -> legacy chunk: seek(where), seek(0), complete send *)
let zs = z_of_string
let bytes_of_hex s =
  if s = "-" then [] else
  List.init (String.length s / 2) (fun i -> zs (String.sub s (2 * i) 2))
let hex_of_bytes l =
  if l = [] then "-" else
  String.concat "" (List.map (fun b ->
    let h = string_of_z b in if String.length h = 1 then "0" ^ h else h) l)
let split_on c s = if s = "-" || s = "" then [] else String.split_on_char c s
let zlist s = List.map zs (split_on ',' s)
let natlist s = List.map (fun x -> Z.to_nat (zs x)) (split_on ',' s)

let str_bodies l =
  String.concat ";" (List.map (fun (pn, d) -> string_of_z pn ^ ":" ^ hex_of_bytes d) l)
let str_parts l =
  String.concat ";" (List.map (fun p ->
    string_of_z p.pm_etag ^ "/" ^ string_of_z p.pm_num ^ "/" ^ string_of_zopt p.pm_cks) l)
let str_obj = function None -> "none" | Some d -> hex_of_bytes d
let str_bool b = if b then "1" else "0"
let str_zs l = String.concat "," (List.map string_of_z l)

let op_of_token t =
  match String.split_on_char ':' t with
  | ["R"; "N"] -> Read None
  | ["R"; a] -> Read (Some (zs a))
  | ["S"; w; wh] -> Seek (zs w, zs wh)
  | ["E"] -> Enable
  | ["D"] -> Disable
  | ["T"] -> Tell
  | ["C"] -> Close
  | _ -> failwith ("bad op " ^ t)

let show_upload = function
  | None -> "none"
  | Some (((((bodies, c), reads), parts), ok), obj) ->
      (match bodies with [(pn, _)] when pn = Z0 -> "put" | _ -> "mp") ^
      " c=" ^ string_of_z c ^ " bodies=" ^ str_bodies bodies ^ " reads=" ^ str_zs reads ^
      " parts=" ^ str_parts parts ^ " ok=" ^ str_bool ok ^ " obj=" ^ str_obj obj

let () = iter_lines (fun line ->
  match words line with
  | ["up"; kind; data; pos; script; thr; cfg; mn; mx; mp; alg; order] ->
      let d = bytes_of_hex data and scr = zlist script in
      let a = (alg = "1") in
      if kind = "unrep" then
        show_upload (upload_seq_unrepaired (zs mn) (zs mx) (zs mp) (zs thr) (zs cfg) a d scr)
      else
        let src = match kind with
          | "path" -> SrcPath d
          | "seek" -> SrcSeekable (d, zs pos, scr)
          | "stream" -> SrcStream (d, scr)
          | _ -> failwith ("bad kind " ^ kind) in
        if order = "-" then show_upload (upload_seq (zs mn) (zs mx) (zs mp) (zs thr) (zs cfg) a src)
        else show_upload (upload_ord (zs mn) (zs mx) (zs mp) (zs thr) (zs cfg) a src (natlist order))
  | ["cp"; data; thr; cfg; mn; mx; mp; alg; order] ->
      let o = bytes_of_hex data and a = (alg = "1") in
      if order = "-" then
        (match copy_seq (zs mn) (zs mx) (zs mp) (zs thr) (zs cfg) a o with
         | None -> "none"
         | Some (((ranges, parts), ok), obj) ->
             "ranges=" ^ String.concat ";" (List.map (fun (pn, (lo, hi)) ->
                 string_of_z pn ^ ":" ^ string_of_z lo ^ ":" ^ string_of_zopt hi) ranges) ^
             " parts=" ^ str_parts parts ^ " ok=" ^ str_bool ok ^ " obj=" ^ str_obj obj)
      else
        (match copy_ord (zs mn) (zs mx) (zs mp) (zs thr) (zs cfg) a o (natlist order) with
         | None -> "none"
         | Some ((parts, ok), obj) ->
             "parts=" ^ str_parts parts ^ " ok=" ^ str_bool ok ^ " obj=" ^ str_obj obj)
  | ["lg"; data; thr; ps; order] ->
      let f = bytes_of_hex data in
      if order = "-" then
        (match legacy_seq f (zs thr) (zs ps) with
         | None -> "none"
         | Some (((bodies, parts), ok), obj) ->
             "bodies=" ^ str_bodies bodies ^ " parts=" ^ str_parts parts ^ " ok=" ^ str_bool ok ^
             " obj=" ^ str_obj obj)
      else
        (match legacy_ord f (zs thr) (zs ps) (natlist order) with
         | None -> "none"
         | Some ((parts, ok), obj) ->
             "parts=" ^ str_parts parts ^ " ok=" ^ str_bool ok ^ " obj=" ^ str_obj obj)
  | "fs" :: data :: start :: req :: full :: sizes :: ops ->
      let c = mk_chunk (bytes_of_hex data) (zs start) (zs req) (zs full) false in
      (match final_send c { ss_history = List.map op_of_token ops; ss_sizes = zlist sizes } with
       | None -> "none"
       | Some d -> hex_of_bytes d)
  | ["ls"; data; start; req; where_; sizes] ->
      let c = mk_lchunk (bytes_of_hex data) (zs start) (zs req) in
      (match l_send_loop (l_seek (l_seek c (zs where_)) Z0) (zlist sizes) [] with
       | None -> "none"
       | Some d -> hex_of_bytes d)
  | _ -> "ERR bad command")
