(* driver for the extracted Coord model.
   one line = "<R|U> | <env> | <ops>"   (R: repaired cancel = the code in /repo, U: pre-repair variant)
     env : cb<id>=<call>,<call>..  cl<id>=<call>,..        (scripts of done callbacks / failure cleanups)
     call: done | status | result | sx:<kind>:<id> | cancel:<kind>:<msg>       kind: c|f|o
     ops : sr:<v> se:<kind>:<id>:<0|1> ccs:<kind>:<msg> q r ann ph1 ph2 ph3 adc:<id> afc:<id> exc | <call>
   output: for every executed op  "<outcome>/<status>,<exc>,<result>,<event>,<pending cleanups>,<pending callbacks>,<new log entries>,<done()>,<what result() would do>"
   (the history ends after an op whose thread hangs) *)
let z = z_of_string
let kind_of = function "c" -> KCancelled | "f" -> KFatal | "o" -> KOther | s -> failwith ("bad kind " ^ s)
let str_kind = function KCancelled -> "c" | KFatal -> "f" | KOther -> "o"
let str_exn e = str_kind e.e_kind ^ string_of_z e.e_msg
let str_status = function
  | NotStarted -> "ns" | Queued -> "q" | Running -> "r" | Success -> "ok" | Failed -> "fail" | Cancelled -> "canc"

let call_of (tok : string) : call option =
  match String.split_on_char ':' tok with
  | ["done"] -> Some CDone
  | ["status"] -> Some CStatus
  | ["result"] -> Some CResult
  | ["sx"; k; id] -> Some (CSetException { e_kind = kind_of k; e_msg = z id })
  | ["cancel"; k; m] -> Some (CCancel (z m, kind_of k))
  | _ -> None

let op_of (tok : string) : op =
  match call_of tok with
  | Some c -> OCall c
  | None ->
    (match String.split_on_char ':' tok with
     | ["sr"; v] -> OSetResult (z v)
     | ["se"; k; id; ov] -> OSetException ({ e_kind = kind_of k; e_msg = z id }, ov = "1")
     | ["ccs"; k; m] -> OCancelCS (z m, kind_of k)
     | ["q"] -> OQueued
     | ["r"] -> ORunning
     | ["ann"] -> OAnnounce
     | ["ph1"] -> OCleanups
     | ["ph2"] -> OEvent
     | ["ph3"] -> OCallbacks
     | ["adc"; id] -> OAddCallback (z id)
     | ["afc"; id] -> OAddCleanup (z id)
     | ["exc"] -> OException
     | _ -> failwith ("bad op " ^ tok))

let rec str_res = function
  | RUnit -> "unit"
  | RBool b -> if b then "T" else "F"
  | RStatus st -> "st:" ^ str_status st
  | RExc None -> "exc:-"
  | RExc (Some e) -> "exc:" ^ str_exn e
  | RReturns None -> "ret:none"
  | RReturns (Some v) -> "ret:" ^ string_of_z v
  | RRaises e -> "raise:" ^ str_exn e
  | RBlocked -> "blocked"
  | RNotDone -> "notdone"
  | RRuntimeError -> "rterr"
  | RSelfDeadlock -> "DEADLOCK"
  | RCallbackBlocked -> "CBBLOCKED"
  | RStuck -> "STUCK"

let str_ev = function
  | RanCleanup id -> "K" ^ string_of_z id
  | RanCallback id -> "C" ^ string_of_z id
  | ScriptRes r -> "S(" ^ str_res r ^ ")"

let str_ids = function [] -> "-" | l -> String.concat "." (List.map string_of_z l)

let rec drop n l = if n <= 0 then l else match l with [] -> [] | _ :: r -> drop (n - 1) r

let parse_env (toks : string list) : env =
  let cbs = ref [] and cls = ref [] in
  List.iter (fun tok ->
    match String.index_opt tok '=' with
    | None -> failwith ("bad env entry " ^ tok)
    | Some i ->
      let lhs = String.sub tok 0 i and rhs = String.sub tok (i + 1) (String.length tok - i - 1) in
      let calls = List.map (fun c -> match call_of c with Some c -> c | None -> failwith ("bad call " ^ c))
          (List.filter (fun w -> w <> "") (String.split_on_char ',' rhs)) in
      let id = z (String.sub lhs 2 (String.length lhs - 2)) in
      (match String.sub lhs 0 2 with
       | "cb" -> cbs := (id, calls) :: !cbs
       | "cl" -> cls := (id, calls) :: !cls
       | _ -> failwith ("bad env entry " ^ tok))) toks;
  let look tbl id = match List.find_opt (fun (k, _) -> Z.eqb k id) tbl with Some (_, c) -> c | None -> [] in
  { cb_script = look !cbs; cl_script = look !cls }

let () = iter_lines (fun line ->
  match String.split_on_char '|' line with
  | [variant; envs; opss] ->
    let repaired = (match String.trim variant with "R" -> true | "U" -> false | s -> failwith ("bad variant " ^ s)) in
    let e = parse_env (words envs) in
    let ops = List.map op_of (words opss) in
    let h = run e repaired init ops in
    let prev = ref 0 in
    String.concat " " (List.map (fun (((_, _), r), s') ->
      let lg = drop !prev s'.st_log in
      prev := List.length s'.st_log;
      Printf.sprintf "%s/%s,%s,%s,%s,%s,%s,%s,%s,%s" (str_res r) (str_status s'.st_status)
        (match s'.st_exc with None -> "-" | Some x -> str_exn x)
        (match s'.st_result with None -> "none" | Some v -> string_of_z v)
        (if s'.st_event then "1" else "0")
        (str_ids s'.st_cleanups) (str_ids s'.st_callbacks)
        (match lg with [] -> "-" | l -> String.concat "." (List.map str_ev l))
        (if done0 s' then "T" else "F") (str_res (obs_result s'))) h)
  | _ -> "ERR bad line")
