(* replayer for the extracted Sys model.
   lines:  init w_sub w_req w_io q_sub q_req q_io up down
           <EVENT> args...      -> "ok" | "REJECT"
           dump                 -> ghost summary of the current state *)
let z = z_of_string
let b s = (s = "1")
let stage_of = function "sub" -> SSub | "req" -> SReq | "io" -> SIO | "inline" -> SInline | s -> failwith ("stage " ^ s)
let op_of = function
  | "create" -> OpCreate | "part" -> OpPart | "complete" -> OpComplete | "abort" -> OpAbort
  | "head" -> OpHead | "data" -> OpData | "get" -> OpGet | s -> failwith ("op " ^ s)
let zlist s = if s = "-" then [] else List.map z (String.split_on_char ',' s)

let parse (w : string list) : event =
  match w with
  | ["ENewTransfer"; a; t] -> ENewTransfer (z a, z t)
  | ["EAddCallback"; a; t; c] -> EAddCallback (z a, z t, z c)
  | ["EAddCleanup"; a; t; c] -> EAddCleanup (z a, z t, z c)
  | ["ESubmit"; a; k; t; g; fin; deps; kind] -> ESubmit (z a, z k, z t, stage_of g, b fin, zlist deps, z kind)
  | ["EAcquire"; a; k; sem] -> EAcquire (z a, z k, z sem)
  | ["EEnqueue"; a; k] -> EEnqueue (z a, z k)
  | ["EAssoc"; a; k] -> EAssoc (z a, z k)
  | ["ETaskStart"; k] -> ETaskStart (z k)
  | ["EDepsDone"; k] -> EDepsDone (z k)
  | ["EDoneCheck"; k; v] -> EDoneCheck (z k, b v)
  | ["EMainBegin"; k] -> EMainBegin (z k)
  | ["EMainEnd"; k; ok] -> EMainEnd (z k, b ok)
  | ["ESetResult"; k] -> ESetResult (z k)
  | ["ESetException"; a; t; e; o] -> ESetException (z a, z t, z e, b o)
  | ["ECancel"; a; t; e] -> ECancel (z a, z t, z e)
  | ["EStatus"; k; r; ok] -> EStatus (z k, b r, b ok)
  | ["EOnQueued"; k] -> EOnQueued (z k)
  | ["EOnProgress"; a; t] -> EOnProgress (z a, z t)
  | ["EWaitAll"; k] -> EWaitAll (z k)
  | ["EAnnBegin"; a; t] -> EAnnBegin (z a, z t)
  | ["ECleanupsBegin"; a; t] -> ECleanupsBegin (z a, z t)
  | ["ECleanup"; a; t; c] -> ECleanup (z a, z t, z c)
  | ["ECleanupsEnd"; a; t] -> ECleanupsEnd (z a, z t)
  | ["EEventSet"; a; t] -> EEventSet (z a, z t)
  | ["ECallbacksBegin"; a; t] -> ECallbacksBegin (z a, z t)
  | ["ECallback"; a; t; c] -> ECallback (z a, z t, z c)
  | ["ECallbacksEnd"; a; t] -> ECallbacksEnd (z a, z t)
  | ["EAnnEnd"; a; t] -> EAnnEnd (z a, z t)
  | ["ETaskEnd"; k] -> ETaskEnd (z k)
  | ["ERelease"; k] -> ERelease (z k)
  | ["EDissoc"; k] -> EDissoc (z k)
  | ["ECount"; a; t; op] -> ECount (z a, z t, z op)
  | ["ES3Begin"; a; r; op; t; uid] -> ES3Begin (z a, z r, op_of op, z t, z uid)
  | ["ES3Effect"; r; uid] -> ES3Effect (z r, z uid)
  | ["ES3End"; r; ok] -> ES3End (z r, b ok)
  | ["EResult"; a; t; raised] -> EResult (z a, z t, b raised)
  | ["EFs"; a; t; op] -> EFs (z a, z t, (match op with "open" -> FOpen | "write" -> FWrite | "close" -> FClose
                                           | "rename" -> FRename | "remove" -> FRemove | s -> failwith ("fsop " ^ s)))
  | ["EShutdownBegin"] -> EShutdownBegin
  | ["EStageShutdown"; g] -> EStageShutdown (stage_of g)
  | ["EStageJoined"; g] -> EStageJoined (stage_of g)
  | ["EShutdownReturn"] -> EShutdownReturn
  | _ -> failwith "unknown event"

let status_str = function
  | NotStarted -> "not-started" | Queued -> "queued" | Running -> "running"
  | Success -> "success" | Failed -> "failed" | Cancelled -> "cancelled"
let bs x = if x then "1" else "0"
let zl l = String.concat "," (List.map string_of_z l)

let dump (s : state) : string =
  let cs = List.map (fun c ->
    Printf.sprintf "T%s:%s:exc=%s:event=%s:cl=[%s]:cb=[%s]:rancl=[%s]:rancb=[%s]:q=%s:pad=%s"
      (string_of_z c.c_id) (status_str c.c_status) (string_of_zopt c.c_exc) (bs c.c_event)
      (zl c.c_cleanups) (zl c.c_callbacks) (zl c.c_ran_cleanups) (zl c.c_ran_callbacks)
      (string_of_z c.c_queued_cbs) (bs c.c_progress_after_done)) s.coords in
  let us = List.map (fun u ->
    Printf.sprintf "U%s:t=%s:inflight=%s:completes=%s:abort=%s:aborts=%s:after=%s:while=%s"
      (string_of_z u.u_id) (string_of_z u.u_t) (string_of_z u.u_inflight) (string_of_z u.u_completes_ok)
      (bs u.u_abort_begun) (string_of_z u.u_abort_count) (bs u.u_begun_after_abort) (bs u.u_abort_while_inflight)) s.uploads in
  let fs = List.map (fun f ->
    Printf.sprintf "F%s:exists=%s:open=%s:renamed=%s:removed=%s:writes=%s:renames=%s"
      (string_of_z f.f_t) (bs f.f_exists) (bs f.f_open) (bs f.f_renamed) (bs f.f_removed)
      (string_of_z f.f_writes) (string_of_z f.f_renames)) s.files in
  let sm = List.map (fun (i, v) -> string_of_z i ^ "=" ^ string_of_z v) s.sems in
  String.concat " " (cs @ us @ fs @ ["sems=" ^ String.concat "," sm;
                                "shutdown=" ^ string_of_z s.shutdown_phase;
                                "after=" ^ string_of_z s.after_shutdown_events])

let cur : state option ref = ref None
let dead = ref false
let () = iter_lines (fun line ->
  match words line with
  | ["init"; a; b2; c; d; e; f; g; h] ->
      cur := Some (init (z a) (z b2) (z c) (z d) (z e) (z f) (z g) (z h)); dead := false; "ok"
  | ["dump"] -> (match !cur with Some s -> dump s | None -> "nostate")
  | w ->
      if !dead then "skip" else
      (match !cur with
       | None -> "nostate"
       | Some s ->
           (match step s (parse w) with
            | Some s' -> cur := Some s'; "ok"
            | None -> dead := true; "REJECT")))
