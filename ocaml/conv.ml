(* Shared conversion helpers, textually appended after an extracted module
   (which defines positive/z/n/nat).  Numbers travel as hex strings so that no
   value is ever squeezed through an OCaml int. *)
let msb_bits_of_hex (s : String.t) : bool list =
  let l = ref [] in
  String.iter (fun c ->
    let v = match c with
      | '0'..'9' -> Char.code c - 48
      | 'a'..'f' -> Char.code c - 87
      | 'A'..'F' -> Char.code c - 55
      | _ -> failwith ("bad hex digit in " ^ s) in
    l := (v land 1 = 1) :: (v land 2 = 2) :: (v land 4 = 4) :: (v land 8 = 8) :: !l) s;
  List.rev !l   (* most significant bit first *)

let pos_of_hex (s : String.t) : positive =
  let msb = msb_bits_of_hex s in
  let rec strip = function false :: r -> strip r | l -> l in
  match strip msb with
  | [] -> failwith "pos_of_hex: zero"
  | _ :: rest -> List.fold_left (fun p b -> if b then XI p else XO p) XH rest

let z_of_string (s : String.t) : z =
  if s = "" then failwith "empty number" else
  let neg = s.[0] = '-' in
  let body = if neg then String.sub s 1 (String.length s - 1) else s in
  if String.for_all (fun c -> c = '0') body then Z0
  else if neg then Zneg (pos_of_hex body) else Zpos (pos_of_hex body)

let hex_of_pos (p : positive) : String.t =
  let rec bits = function XH -> [true] | XO q -> false :: bits q | XI q -> true :: bits q in
  let lsb = bits p in
  let rec groups = function
    | [] -> []
    | a :: b :: c :: d :: r -> (a, b, c, d) :: groups r
    | l -> groups (l @ [false]) in
  let digs = List.map (fun (a, b, c, d) ->
    let v = (if a then 1 else 0) + (if b then 2 else 0) + (if c then 4 else 0) + (if d then 8 else 0) in
    "0123456789abcdef".[v]) (groups lsb) in
  String.init (List.length digs) (fun i -> List.nth (List.rev digs) i)

let string_of_z = function
  | Z0 -> "0"
  | Zpos p -> hex_of_pos p
  | Zneg p -> "-" ^ hex_of_pos p

let rec nat_of_int n = if n <= 0 then O else S (nat_of_int (n - 1))
let rec int_of_nat = function O -> 0 | S k -> 1 + int_of_nat k

let zopt_of_string s = if s = "-" then None else Some (z_of_string s)
let string_of_zopt = function None -> "-" | Some z -> string_of_z z

let words (line : String.t) : String.t list =
  List.filter (fun w -> w <> "") (String.split_on_char ' ' (String.trim line))

let iter_lines (f : String.t -> String.t) : unit =
  (try
    while true do
      let line = input_line stdin in
      (try print_string (f line) with
       | Failure m -> print_string ("ERR " ^ m)
       | Not_found -> print_string "ERR not_found"
       | Invalid_argument m -> print_string ("ERR " ^ m));
      print_newline ()
    done
  with End_of_file -> ())
