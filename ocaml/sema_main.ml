(* driver for the extracted semaphore models (coq/model/Sema.v, SemaConc.v).
   One case per line, numbers in hex:
     S <cap> <op>...     sliding window; op = a<tag> (acquire, blocking=False)
                         | b<tag> (acquire, blocking=True) | r<tag>:<token>
       -> <res>... | <count> | <tag>:<next>:<lowest>:<pending,..> ... | wf=<0|1> q=<0|1>
          res = k<token> | N (NoResourcesAvailable) | B (would block) | O (released) | V (ValueError)
     T <cap> <op>...     TaskSemaphore; op = a | b | r
       -> <res>... | <value>      res = A | N | B | R
     C <cap> <label>...  schedule with waiters; label = A<tid>:<tag> (blocking acquire)
                         | N<tid>:<tag> (non-blocking) | W<tid> (notified thread runs)
                         | P<tid> (spurious wake-up) | R<tag>:<token>:<tid|-> (release; waiter notify picks)
       -> <res>... | <count> | <waiting tids> | <notified tids> | wf=<0|1>
          res as for S, '-' for a spurious wake-up, X = label not enabled (run stops) *)
let z = z_of_string
let tail s = String.sub s 1 (String.length s - 1)
let split c s = String.split_on_char c s

let parse_op (w : string) : op =
  match w.[0] with
  | 'a' -> OAcq (z (tail w), false)
  | 'b' -> OAcq (z (tail w), true)
  | 'r' -> (match split ':' (tail w) with
            | [t; k] -> ORel (z t, z k)
            | _ -> failwith ("bad op " ^ w))
  | _ -> failwith ("bad op " ^ w)

let string_of_res = function
  | RTok k -> "k" ^ string_of_z k
  | RNoRes -> "N"
  | RWouldBlock -> "B"
  | ROk -> "O"
  | RValErr -> "V"

let string_of_tag (t, r) =
  string_of_z t ^ ":" ^ string_of_z r.t_next ^ ":" ^ string_of_z r.t_low ^ ":" ^
  String.concat "," (List.map string_of_z r.t_pend)

let b01 b = if b then "1" else "0"

let parse_top (w : string) : top =
  match w with
  | "a" -> TAcq false
  | "b" -> TAcq true
  | "r" -> TRel
  | _ -> failwith ("bad op " ^ w)

let string_of_tres = function
  | TAcquired -> "A" | TNoRes -> "N" | TWouldBlock -> "B" | TReleased -> "R"

let parse_label (w : string) : clabel =
  match w.[0] with
  | 'A' | 'N' -> (match split ':' (tail w) with
            | [i; t] -> LAcq (z i, z t, w.[0] = 'A')
            | _ -> failwith ("bad label " ^ w))
  | 'W' -> LWake (z (tail w))
  | 'P' -> LSpurious (z (tail w))
  | 'R' -> (match split ':' (tail w) with
            | [t; k; i] -> LRel (z t, z k, zopt_of_string i)
            | _ -> failwith ("bad label " ^ w))
  | _ -> failwith ("bad label " ^ w)

let tids l = String.concat "," (List.map (fun (i, _) -> string_of_z i) l)

let () = iter_lines (fun line ->
  match words line with
  | "S" :: cap :: ops ->
      let cap = z cap in
      let ops = List.map parse_op ops in
      let (xs, s) = run (sw_init cap) ops in
      let (_, g) = grun (sw_init cap) ghost0 ops in
      String.concat " " (List.map string_of_res xs) ^ " | " ^ string_of_z s.sw_count ^ " | " ^
      String.concat " " (List.map string_of_tag s.sw_tags) ^ " | wf=" ^ b01 (wf cap ops) ^
      " q=" ^ b01 (quiescent g)
  | "T" :: cap :: ops ->
      let (xs, v) = ts_run (z cap) (List.map parse_top ops) in
      String.concat " " (List.map string_of_tres xs) ^ " | " ^ string_of_z v
  | "C" :: cap :: labels ->
      let cap = z cap in
      let rec go c ls accr acco =
        match ls with
        | [] -> (c, List.rev accr, List.rev acco)
        | l :: r ->
            (match cstep c l with
             | None -> (c, List.rev_append accr (List.map (fun _ -> "X") ls), List.rev acco)
             | Some (c', o) ->
                 (match o with
                  | None -> go c' r ("-" :: accr) acco
                  | Some p -> go c' r (string_of_res (fst (step c.c_sw p)) :: accr) (p :: acco))) in
      let (c, rs, ops) = go (cinit cap) (List.map parse_label labels) [] [] in
      String.concat " " rs ^ " | " ^ string_of_z c.c_sw.sw_count ^ " | " ^ tids c.c_wait ^
      " | " ^ tids c.c_noti ^ " | wf=" ^ b01 (wf cap ops)
  | _ -> "ERR bad command")
