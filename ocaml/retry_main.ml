(* driver for the extracted Retry model: one task per line *)
let zs = z_of_string
let bytes_of_hex s =
  if s = "-" then [] else
  List.init (String.length s / 2) (fun i -> zs (String.sub s (2 * i) 2))
let hex_of_bytes l =
  String.concat "" (List.map (fun b ->
    let h = string_of_z b in if String.length h = 1 then "0" ^ h else h) l)
let split_on c s = if s = "" || s = "-" || s = "_" then [] else String.split_on_char c s

(* n | q<0/1> | a<k>:<0/1> *)
let fault_of_token t =
  if t = "n" then NoFault
  else if t.[0] = 'q' then FaultOnRequest (t = "q1")
  else if t.[0] = 'a' then
    (match String.split_on_char ':' (String.sub t 1 (String.length t - 1)) with
     | [k; r] -> FaultAfter (zs k, r = "1")
     | _ -> failwith ("bad fault " ^ t))
  else failwith ("bad fault " ^ t)

let string_of_gev = function
  | GReq -> "Q"
  | GProg n -> "P" ^ string_of_z n
  | GDeliver (o, d) -> "D" ^ string_of_z o ^ ":" ^ hex_of_bytes d

let string_of_outcome = function
  | Ok -> "ok" | Stopped -> "stopped" | RetriesExceeded -> "exceeded" | Raised -> "raised"

let () = iter_lines (fun line ->
  match words line with
  | ["get"; obj; start; len; io; mx; faults; reads; dn] ->
      let faults = List.map fault_of_token (split_on ',' faults) in
      let reads = if reads = "-" then [] else
        List.map (fun a -> List.map zs (split_on ',' a)) (String.split_on_char '/' reads) in
      let dn = if dn = "-" then None else Some (Z.to_nat (zs dn)) in
      let r = run_get_full (bytes_of_hex obj) (zs start) (zs len) (zs io) (zs mx) faults reads dn in
      String.concat " " (List.map string_of_gev r.g_trace) ^ " | " ^
      string_of_outcome r.g_outcome ^ " | " ^
      string_of_int (int_of_nat (g_requests r)) ^ " | " ^
      String.concat "," (List.map string_of_z (g_progress r)) ^ " | " ^
      String.concat ";" (List.map (fun a -> String.concat "," (List.map (fun (o, d) ->
        string_of_z o ^ ":" ^ hex_of_bytes d) a)) (g_attempts r))
  | _ -> "ERR bad command")
