(* driver for the extracted Route model (property C15): one case per line.

   route <mode...> <nparts> [Name=hexid ...]
       mode: tmup <ws> <mp> | tmdl <known> <ranged> | tmcp <known> <mp> <sv> | tmdel
             | legup <mp> | legdl <ranged> | pool <known> <ranged>      (booleans: 0/1)
     -> REJECT                       validation raised before any request
      | Op(k=U:hexid,k=L:literal,k=P;...)|Op(...)      the calls in order, kwargs in model order

   Coq strings are the extracted inductive (EmptyString | String of ascii * _);
   native OCaml strings are written String.t here. *)
let coq_of_char (c : char) : ascii =
  let n = Char.code c in
  Ascii (n land 1 <> 0, n land 2 <> 0, n land 4 <> 0, n land 8 <> 0,
         n land 16 <> 0, n land 32 <> 0, n land 64 <> 0, n land 128 <> 0)

let coq_of_native (s : String.t) : string =
  let r = ref EmptyString in
  for i = Stdlib.String.length s - 1 downto 0 do r := String (coq_of_char s.[i], !r) done;
  !r

let char_of_coq (Ascii (b0, b1, b2, b3, b4, b5, b6, b7)) : char =
  let v b k = if b then k else 0 in
  Char.chr (v b0 1 + v b1 2 + v b2 4 + v b3 8 + v b4 16 + v b5 32 + v b6 64 + v b7 128)

let native_of_coq (s : string) : String.t =
  let b = Buffer.create 32 in
  let rec go = function EmptyString -> () | String (c, r) -> Buffer.add_char b (char_of_coq c); go r in
  go s; Buffer.contents b

let bool_of_tok = function "0" -> false | "1" -> true | t -> failwith ("bad bool " ^ t)

let parse_pair (tok : String.t) : string * z =
  match Stdlib.String.index_opt tok '=' with
  | None -> failwith ("bad pair " ^ tok)
  | Some i ->
      (coq_of_native (Stdlib.String.sub tok 0 i),
       z_of_string (Stdlib.String.sub tok (i + 1) (Stdlib.String.length tok - i - 1)))

let parse_mode (toks : String.t list) : mode * String.t list =
  match toks with
  | "tmup" :: a :: b :: r -> (TMUpload (bool_of_tok a, bool_of_tok b), r)
  | "tmdl" :: a :: b :: r -> (TMDownload (bool_of_tok a, bool_of_tok b), r)
  | "tmcp" :: a :: b :: c :: r -> (TMCopy (bool_of_tok a, bool_of_tok b, bool_of_tok c), r)
  | "tmdel" :: r -> (TMDelete, r)
  | "legup" :: a :: r -> (LegUpload (bool_of_tok a), r)
  | "legdl" :: a :: r -> (LegDownload (bool_of_tok a), r)
  | "pool" :: a :: b :: r -> (PoolDownload (bool_of_tok a, bool_of_tok b), r)
  | _ -> failwith "bad mode"

let show_val = function
  | U id -> "U:" ^ string_of_z id
  | L s -> "L:" ^ native_of_coq s
  | P -> "P"

let show_call ((o, kw) : op * kwargs) : String.t =
  native_of_coq (op_name o) ^ "(" ^
  Stdlib.String.concat "," (List.map (fun (k, v) -> native_of_coq k ^ "=" ^ show_val v) kw) ^ ")"

let () = iter_lines (fun line ->
  match words line with
  | "route" :: rest ->
      let (m, rest) = parse_mode rest in
      (match rest with
       | n :: pairs ->
           let d = List.map parse_pair pairs in
           (match route m (nat_of_int (int_of_string n)) d with
            | None -> "REJECT"
            | Some calls -> Stdlib.String.concat "|" (List.map show_call calls))
       | [] -> "ERR missing part count")
  | _ -> "ERR bad command")
