(* driver for the extracted Crt model.
   one case per line:  <permits-hex> <op> <op> ...
     S:<u|p|s|x>:<nsubs>:<raises 0|1>:<0|q|a|m>       submit; fails nowhere | in on_queued | building the arguments | in make_request
     C:<idx>:<k|f|e|c>                                CRT finishes request idx (ok | ok, rename fails | error | cancelled)
     R:<idx>:<k|f|e|c>                                CRT resolves finished_future of request idx only
     D:<idx>                                          CRT delivers on_done of a resolved request
     X:<0|1>                                          shutdown(cancel)
   "permits" alone prints CRT_PERMITS.
   answer: one segment per op, joined by " | ":
     <result>;<permits-hex>;<holding>;<new log events>;<transfers>
*)
let kind_of = function
  | "u" -> Upload | "p" -> DownloadPath | "s" -> DownloadStream | "x" -> Delete
  | s -> failwith ("bad kind " ^ s)
let kind_str = function Upload -> "u" | DownloadPath -> "p" | DownloadStream -> "s" | Delete -> "x"
let outcome_of = function
  | "k" -> Ok | "f" -> OkRenameFail | "e" -> Err | "c" -> Cancelled
  | s -> failwith ("bad outcome " ^ s)
let fail_of = function
  | "0" -> NoFail | "q" -> FailQueued | "a" -> FailArgs | "m" -> FailMakeRequest
  | s -> failwith ("bad failpoint " ^ s)
let bool_of = function "0" -> false | "1" -> true | s -> failwith ("bad bool " ^ s)
let op_of (w : string) : op =
  match String.split_on_char ':' w with
  | ["S"; k; n; r; f] -> OSubmit (kind_of k, nat_of_int (int_of_string n), bool_of r, fail_of f)
  | ["C"; i; o] -> OComplete (nat_of_int (int_of_string i), outcome_of o)
  | ["R"; i; o] -> OResolve (nat_of_int (int_of_string i), outcome_of o)
  | ["D"; i] -> ODeliver (nat_of_int (int_of_string i))
  | ["X"; c] -> OShutdown (bool_of c)
  | _ -> failwith ("bad op " ^ w)
let res_str = function
  | RSubmitted -> "submitted" | RWouldBlock -> "block" | RRaised -> "raised"
  | RResolved -> "resolved" | RCompleted -> "completed" | RCallbackRaised -> "cbraised" | RInvalid -> "invalid"
  | RReturned -> "returned" | RHang -> "hang"
let ev_str (i, e) =
  let i = string_of_int (int_of_nat i) in
  match e with
  | EvAcquire -> "a" ^ i
  | EvQueued k -> "q" ^ i ^ "." ^ string_of_int (int_of_nat k)
  | EvRename -> "mv" ^ i
  | EvRenameFail -> "mf" ^ i
  | EvRemove -> "rm" ^ i
  | EvSubDone k -> "d" ^ i ^ "." ^ string_of_int (int_of_nat k)
  | EvRelease -> "r" ^ i
  | EvAfter -> "f" ^ i
let temp_str = function TAbsent -> "n" | TTemp -> "t" | TRenamed -> "p" | TRemoved -> "x"
let fut_str = function
  | FvNone -> "U" | FvConstructFail -> "F" | FvPending -> "P"
  | FvSuccess -> "S" | FvError -> "E" | FvCancelled -> "C"
let tr_str t =
  string_of_z t.t_id ^ "/" ^ kind_str t.t_kind ^ temp_str t.t_temp ^ fut_str (future_of t)
  ^ (if t.t_after then "+" else "-")
let rec drop n l = if n <= 0 then l else match l with [] -> [] | _ :: r -> drop (n - 1) r
let () = iter_lines (fun line ->
  match words line with
  | ["permits"] -> string_of_z crt_permits
  | n :: ops ->
      let s = ref (init (z_of_string n)) in
      let segs = List.map (fun w ->
        let before = List.length !s.log in
        let (s', r) = step !s (op_of w) in
        s := s';
        String.concat ";" [
          res_str r; string_of_z s'.permits;
          string_of_int (int_of_nat (holding s'.transfers));
          String.concat "," (List.map ev_str (drop before s'.log));
          String.concat "," (List.map tr_str s'.transfers) ]) ops in
      String.concat " | " segs
  | _ -> "ERR bad command")
