(* driver for the extracted DownloadDest model.  One download per line:
     m <kind p|s|n> <init> <obj> <thr> <chunk> <io> <attempts> <faultss> <readss> <sched>
     p <max_attempts|-> <obj> <thr> <chunk> <io> <faultss> <readss> <sched>
   obj/init: hex bytes or "-" (empty); numbers hex;
   faultss: per planned request ';'-separated, each ','-separated tokens n | q<0/1> | a<k>:<0/1>, "_" = empty script, "-" = no scripts;
   readss: per request ';', per attempt '/', sizes ',', "_" = empty, "-" = none;
   sched: ','-separated request indices (hex) or "-".
   answer: <outcome> | <content: none or =hex> | <writes off:hex,...> | <range=calls;...> *)
let zs = z_of_string
let bytes_of_hex s =
  if s = "-" then [] else
  List.init (String.length s / 2) (fun i -> zs (String.sub s (2 * i) 2))
let hex_of_bytes l =
  String.concat "" (List.map (fun b ->
    let h = string_of_z b in if String.length h = 1 then "0" ^ h else h) l)
let split_on c s = if s = "" || s = "-" || s = "_" then [] else String.split_on_char c s

let fault_of_token t =
  if t = "n" then NoFault
  else if t.[0] = 'q' then FaultOnRequest (t = "q1")
  else if t.[0] = 'a' then
    (match String.split_on_char ':' (String.sub t 1 (String.length t - 1)) with
     | [k; r] -> FaultAfter (zs k, r = "1")
     | _ -> failwith ("bad fault " ^ t))
  else failwith ("bad fault " ^ t)

let faultss_of s = List.map (fun p -> List.map fault_of_token (split_on ',' p)) (split_on ';' s)
let readss_of s =
  List.map (fun p -> List.map (fun a -> List.map zs (split_on ',' a)) (split_on '/' p)) (split_on ';' s)
let sched_of s = List.map (fun i -> Z.to_nat (zs i)) (split_on ',' s)

let str_outcome = function DlOk -> "ok" | DlFailed -> "failed" | DlNoFile -> "nofile"
let str_content = function None -> "none" | Some c -> "=" ^ hex_of_bytes c
let str_writes ws = String.concat "," (List.map (fun (o, d) -> string_of_z o ^ ":" ^ hex_of_bytes d) ws)
let str_range = function
  | None -> "none"
  | Some (s, None) -> string_of_z s ^ "-"
  | Some (s, Some e) -> string_of_z s ^ "-" ^ string_of_z e
let str_parts ps =
  String.concat ";" (List.map (fun (r, n) -> str_range r ^ "=" ^ string_of_int (int_of_nat n)) ps)
let str_result r =
  str_outcome r.dl_out ^ " | " ^ str_content r.dl_content ^ " | " ^ str_writes r.dl_writes ^ " | " ^ str_parts r.dl_parts

let () = iter_lines (fun line ->
  match words line with
  | ["m"; kind; init; obj; thr; chunk; io; att; fs; rs; sched] ->
      let k = (match kind with "p" -> DPath | "s" -> DSeekable | "n" -> DStream | _ -> failwith "bad kind") in
      let cfg = { c_threshold = zs thr; c_chunk = zs chunk; c_io_chunk = zs io; c_attempts = zs att } in
      str_result (manager_download k (bytes_of_hex init) (bytes_of_hex obj) cfg (faultss_of fs) (readss_of rs) (sched_of sched))
  | ["p"; mx; obj; thr; chunk; io; fs; rs; sched] ->
      let o = bytes_of_hex obj in
      if mx = "-" then
        str_result (pool_download o (zs thr) (zs chunk) (zs io) (faultss_of fs) (readss_of rs) (sched_of sched))
      else
        str_result (pool_download_with (zs mx) o (zs thr) (zs chunk) (zs io) (faultss_of fs) (readss_of rs) (sched_of sched))
  | _ -> "ERR bad command")
