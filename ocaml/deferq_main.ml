(* driver for the extracted DeferQ model.  One history per line:
     h  <off>:<hexdata> ...   -> writes of each call (',' inside a call, '|' between calls) # final next_offset
     hs <off>:<hexdata> ...   -> same # heap in pop order # pending sorted by offset
     m  <off>:<hexdata> ...   -> bytes on the stream after the manager path # next_offset
   offsets are hex numbers (may be negative), data is 2 hex digits per byte. *)
let bytes_of_hex (s : string) : z list =
  let n = String.length s in
  if n mod 2 <> 0 then failwith "odd hex data" else
  List.init (n / 2) (fun i -> z_of_string (String.sub s (2 * i) 2))

let hex_of_bytes (l : z list) : string =
  String.concat "" (List.map (fun b ->
    let h = string_of_z b in if String.length h = 1 then "0" ^ h else h) l)

let entry_of_tok (t : string) =
  match String.index_opt t ':' with
  | None -> failwith ("bad delivery " ^ t)
  | Some i -> (z_of_string (String.sub t 0 i),
               bytes_of_hex (String.sub t (i + 1) (String.length t - i - 1)))

let str_entry (o, d) = string_of_z o ^ ":" ^ hex_of_bytes d
let str_writes ws = String.concat "," (List.map str_entry ws)

let rec insert_kv (k, v) = function
  | [] -> [(k, v)]
  | (k', v') :: r -> if Z.ltb k k' then (k, v) :: (k', v') :: r else (k', v') :: insert_kv (k, v) r
let sort_kv l = List.fold_left (fun acc kv -> insert_kv kv acc) [] l

let () = iter_lines (fun line ->
  match words line with
  | "h" :: toks ->
      let (s, wss) = run init (List.map entry_of_tok toks) in
      String.concat "|" (List.map str_writes wss) ^ "#" ^ string_of_z s.next_offset
  | "hs" :: toks ->
      let (s, wss) = run init (List.map entry_of_tok toks) in
      String.concat "|" (List.map str_writes wss) ^ "#" ^ string_of_z s.next_offset
      ^ "#" ^ str_writes s.heap
      ^ "#" ^ String.concat "," (List.map (fun (k, v) -> string_of_z k ^ "=" ^ string_of_z v)
                                   (sort_kv s.pending))
  | "m" :: toks ->
      let (s, out) = manager_run (init, []) (List.map entry_of_tok toks) in
      hex_of_bytes out ^ "#" ^ string_of_z s.next_offset
  | _ -> "ERR bad command")
