(* driver for the extracted Legacy model: one case per line

   up <size> <thr> <chunk> <create_ok> <parts_ok bits|.> <started> <complete_ok> <abort_ok> <put_ok>
     -> <outcome> <events,>            (parts in part-number order)
   ext <size> <chunk> <part number> -> <start>/<length> of the part's ReadFileChunk
   dl <thr> <chunk> <max> <obj hex|.> <old: N | S<hex>> <head_ok> <rename_ok> <io_open_ok>
      <io_fail|-> <started> <sched ,|.> <single attempts ;|.> <ranged lists "|" of attempts|.>
     -> <outcome> T=<N|S hex> D=<N|S hex> P=<O|C|X per prefix> EV=<events,>
   dlu ...   same for the variant before the rename repair
   attempt := <get:-|r|f>:<open:-|r|f>:<reads ,|.>:<fail_after: -|<k><r|f>>:<write_fail: -|<j><r|f>>
*)
let z = z_of_string
let b s = (s = "1")
let nat_of_hex s = nat_of_int (int_of_string ("0x" ^ s))
let hex_of_nat n = Printf.sprintf "%x" (int_of_nat n)
let split c s = if s = "." || s = "" then [] else String.split_on_char c s

let bytes_of_hex s =
  if s = "." then [] else
  let n = String.length s / 2 in
  List.init n (fun i -> z_of_string (String.sub s (2 * i) 2))
let hex_of_bytes l =
  String.concat "" (List.map (fun x -> let h = string_of_z x in if String.length h = 1 then "0" ^ h else h) l)
let optbytes_of s = if s = "N" then None else Some (bytes_of_hex (let r = String.sub s 1 (String.length s - 1) in if r = "" then "." else r))
let str_optbytes = function None -> "N" | Some l -> "S" ^ hex_of_bytes l

let cls_of = function 'r' -> Retryable | 'f' -> Fatal | _ -> failwith "bad class"
let optcls s = if s = "-" then None else Some (cls_of s.[0])
let tagged conv s =
  if s = "-" then None else
  let n = String.length s in Some (conv (String.sub s 0 (n - 1)), cls_of s.[n - 1])

let attempt_of s =
  match String.split_on_char ':' s with
  | [g; o; rd; fa; wf] ->
      { a_get = optcls g; a_open = optcls o; a_reads = List.map z (split ',' rd);
        a_fail_after = tagged z fa; a_write_fail = tagged nat_of_hex wf }
  | _ -> failwith ("bad attempt " ^ s)
let attempts_of s = List.map attempt_of (split ';' s)

let str_uev = function
  | UCreate ok -> "C" ^ (if ok then "1" else "0")
  | UPart (pn, ok) -> "P" ^ string_of_z pn ^ "/" ^ (if ok then "1" else "0")
  | UComplete ok -> "K" ^ (if ok then "1" else "0")
  | UAbort ok -> "A" ^ (if ok then "1" else "0")
  | UPut ok -> "U" ^ (if ok then "1" else "0")
let str_uout = function
  | USuccess -> "ok" | UFailed -> "upload-failed" | UCreateErr -> "create-err"
  | UAbortErr -> "abort-err" | UCompleteErr -> "complete-err" | UPutErr -> "put-err"

let str_range = function None -> "-" | Some (s, e) -> string_of_z s ^ ":" ^ string_of_zopt e
let b01 ok = if ok then "1" else "0"
let str_dev = function
  | EHead ok -> "H" ^ b01 ok
  | EGet (r, att, ok) -> "G" ^ str_range r ^ "/" ^ hex_of_nat att ^ "/" ^ b01 ok
  | EOpen ok -> "O" ^ b01 ok
  | EWrite (off, d, ok) -> "W" ^ string_of_z off ^ "/" ^ (if d = [] then "." else hex_of_bytes d) ^ "/" ^ b01 ok
  | ERemove -> "RM"
  | ERename ok -> "RN" ^ b01 ok
let str_dout = function
  | DSuccess -> "ok" | DHeadErr -> "head-err" | DFatal -> "fatal" | DRetriesExceeded -> "retries-exceeded"
  | DIOErr -> "io-err" | DRenameErr -> "rename-err"

let download f = function
  | [thr; chunk; mx; obj; old; head_ok; rename_ok; io_open_ok; io_fail; started; sched; single; ranged] ->
      let objb = bytes_of_hex obj in
      let oldb = optbytes_of old in
      let o = { o_head_ok = b head_ok; o_single = attempts_of single;
                o_ranged = List.map attempts_of (if ranged = "." then [] else String.split_on_char '|' ranged);
                o_started = nat_of_hex started; o_sched = List.map nat_of_hex (split ',' sched);
                o_io_open_ok = b io_open_ok;
                o_io_fail = (if io_fail = "-" then None else Some (nat_of_hex io_fail));
                o_rename_ok = b rename_ok } in
      let (evs, out) = f (z thr) (z chunk) (nat_of_hex mx) objb o in
      let fin = final_fs oldb evs in
      let trace = dest_trace (init_fs oldb) evs in
      let cls d = if d = oldb then "O" else if d = Some objb then "C" else "X" in
      str_dout out ^ " T=" ^ str_optbytes fin.temp ^ " D=" ^ str_optbytes fin.dest
      ^ " P=" ^ String.concat "" (List.map cls trace)
      ^ " EV=" ^ String.concat "," (List.map str_dev evs)
  | _ -> "ERR bad dl command"

let () = iter_lines (fun line ->
  match words line with
  | ["up"; size; thr; chunk; create_ok; parts; started; complete_ok; abort_ok; put_ok] ->
      let oks = if parts = "." then [] else List.init (String.length parts) (fun i -> parts.[i] = '1') in
      let (log, out) = legacy_upload_inorder (z size) (z thr) (z chunk) (b create_ok) oks
                         (nat_of_hex started) (b complete_ok) (b abort_ok) (b put_ok) in
      str_uout out ^ " " ^ String.concat "," (List.map str_uev log)
  | ["upu"; create_ok; parts; started; complete_ok; abort_ok] ->
      let oks = if parts = "." then [] else List.init (String.length parts) (fun i -> parts.[i] = '1') in
      let m = parts_run oks (nat_of_hex started) in
      let order = List.init (int_of_nat m) nat_of_int in
      let (log, out) = legacy_multipart_upload_unrepaired (b create_ok) oks (nat_of_hex started) order
                         (b complete_ok) (b abort_ok) in
      str_uout out ^ " " ^ String.concat "," (List.map str_uev log)
  | ["ext"; size; chunk; pn] ->
      let (st, ln) = upload_part_extent (z size) (z chunk) (z pn) in string_of_z st ^ "/" ^ string_of_z ln
  | "dl" :: rest -> download legacy_download rest
  | "dlu" :: rest -> download legacy_download_unrepaired rest
  | _ -> "ERR bad command")
