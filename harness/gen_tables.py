#!/usr/bin/env python3
"""Fail-closed extractor: /repo/s3transfer/*.py  ->  coq/gen/Tables.v

Reads the source with `ast` only (nothing is imported or executed).  It
evaluates a tiny expression language -- literals, lists, dicts of literals,
`+` on lists, `+ - * **` on ints, names bound earlier in the same module or
class, names imported `from s3transfer.<mod> import <name>`, and
`<Class>.<ATTR>` -- and aborts on anything else for a table it was asked for.

Usage: gen_tables.py <repo-root> <out.v>
"""
import ast
import sys
import os
from fractions import Fraction


class Unsupported(Exception):
    pass


class Module:
    def __init__(self, root, name):
        self.root = root
        self.name = name
        path = os.path.join(root, 's3transfer', name + '.py')
        if name == '__init__':
            path = os.path.join(root, 's3transfer', '__init__.py')
        with open(path) as f:
            self.tree = ast.parse(f.read(), path)
        self.path = path
        self.env = {}       # module-level names
        self.classes = {}   # class name -> {attr: value}
        self.imports = {}   # local name -> (module, name)
        self.funcs = {}     # (class or None, func name) -> ast.FunctionDef
        self._scan()

    def _scan(self):
        for node in self.tree.body:
            if isinstance(node, ast.ImportFrom) and node.module and \
                    node.module.startswith('s3transfer.'):
                mod = node.module.split('.', 1)[1]
                for a in node.names:
                    self.imports[a.asname or a.name] = (mod, a.name)
            elif isinstance(node, ast.Assign):
                self._assign(node, self.env, None)
            elif isinstance(node, ast.ClassDef):
                cenv = {}
                self.classes[node.name] = cenv
                for sub in node.body:
                    if isinstance(sub, ast.Assign):
                        self._assign(sub, cenv, node.name)
                    elif isinstance(sub, ast.FunctionDef):
                        self.funcs[(node.name, sub.name)] = sub
            elif isinstance(node, ast.FunctionDef):
                self.funcs[(None, node.name)] = node

    def _assign(self, node, env, cls):
        if len(node.targets) != 1 or not isinstance(node.targets[0], ast.Name):
            return
        name = node.targets[0].id
        try:
            env[name] = self.eval(node.value, cls)
        except Unsupported as e:
            env[name] = e   # remembered; only fatal if somebody asks for it

    def lookup(self, name, cls):
        if cls is not None and name in self.classes.get(cls, {}):
            v = self.classes[cls][name]
        elif name in self.env:
            v = self.env[name]
        elif name in self.imports:
            mod, n = self.imports[name]
            return MODULES.get(self.root, mod).lookup(n, None)
        else:
            raise Unsupported(f'{self.path}: unbound name {name}')
        if isinstance(v, Unsupported):
            raise v
        return v

    def eval(self, e, cls):
        if isinstance(e, ast.Constant):
            if isinstance(e.value, (int, str, float)) and not isinstance(e.value, bool):
                return e.value
            raise Unsupported(f'{self.path}:{e.lineno}: constant {e.value!r}')
        if isinstance(e, ast.List):
            return [self.eval(x, cls) for x in e.elts]
        if isinstance(e, ast.Tuple):
            return [self.eval(x, cls) for x in e.elts]
        if isinstance(e, ast.Dict):
            return {self.eval(k, cls): self.eval(v, cls)
                    for k, v in zip(e.keys, e.values)}
        if isinstance(e, ast.Name):
            return self.lookup(e.id, cls)
        if isinstance(e, ast.Attribute) and isinstance(e.value, ast.Name):
            cname = e.value.id
            if cname in self.classes and e.attr in self.classes[cname]:
                v = self.classes[cname][e.attr]
                if isinstance(v, Unsupported):
                    raise v
                return v
            if cname in self.imports:
                mod, n = self.imports[cname]
                m = MODULES.get(self.root, mod)
                if n in m.classes and e.attr in m.classes[n]:
                    v = m.classes[n][e.attr]
                    if isinstance(v, Unsupported):
                        raise v
                    return v
            raise Unsupported(f'{self.path}:{e.lineno}: attribute {cname}.{e.attr}')
        if isinstance(e, ast.BinOp):
            l, r = self.eval(e.left, cls), self.eval(e.right, cls)
            if isinstance(e.op, ast.Add) and isinstance(l, list) and isinstance(r, list):
                return l + r
            if isinstance(l, int) and isinstance(r, int):
                if isinstance(e.op, ast.Add):
                    return l + r
                if isinstance(e.op, ast.Sub):
                    return l - r
                if isinstance(e.op, ast.Mult):
                    return l * r
                if isinstance(e.op, ast.Pow) and 0 <= r <= 64:
                    return l ** r
            raise Unsupported(f'{self.path}:{e.lineno}: binop')
        raise Unsupported(f'{self.path}:{getattr(e, "lineno", "?")}: {type(e).__name__}')

    def default_arg(self, cls, func, arg):
        fn = self.funcs.get((cls, func))
        if fn is None:
            raise Unsupported(f'{self.path}: no function {cls}.{func}')
        args = fn.args.args
        defaults = fn.args.defaults
        off = len(args) - len(defaults)
        for i, a in enumerate(args):
            if a.arg == arg:
                if i < off:
                    raise Unsupported(f'{self.path}: {cls}.{func}({arg}) has no default')
                return self.eval(defaults[i - off], cls)
        raise Unsupported(f'{self.path}: {cls}.{func} has no argument {arg}')


class _Modules:
    def __init__(self):
        self.cache = {}

    def get(self, root, name):
        if (root, name) not in self.cache:
            self.cache[(root, name)] = Module(root, name)
        return self.cache[(root, name)]


MODULES = _Modules()


def find_call_int(mod, cls, func, callee_attr):
    """The single int literal argument of the single call `...<callee_attr>(<int>)`
    inside cls.func (e.g. threading.Semaphore(128))."""
    fn = mod.funcs.get((cls, func))
    if fn is None:
        raise Unsupported(f'{mod.path}: no function {cls}.{func}')
    found = []
    for n in ast.walk(fn):
        if isinstance(n, ast.Call) and isinstance(n.func, ast.Attribute) \
                and n.func.attr == callee_attr and len(n.args) == 1:
            found.append(mod.eval(n.args[0], cls))
    if len(found) != 1 or not isinstance(found[0], int):
        raise Unsupported(f'{mod.path}: expected exactly one {callee_attr}(<int>) in {cls}.{func}, got {found}')
    return found[0]


# ---- what the Coq development needs --------------------------------------

def collect(root):
    M = lambda n: MODULES.get(root, n)
    out = []   # (coq_name, kind, value)

    def Z(name, v):
        if not isinstance(v, int):
            raise Unsupported(f'{name}: expected int, got {v!r}')
        out.append((name, 'Z', v))

    def L(name, v):
        if not (isinstance(v, list) and all(isinstance(x, str) for x in v)):
            raise Unsupported(f'{name}: expected list of str, got {v!r}')
        out.append((name, 'L', v))

    def D(name, v):
        if not (isinstance(v, dict) and all(isinstance(k, str) and isinstance(x, str) for k, x in v.items())):
            raise Unsupported(f'{name}: expected dict str->str, got {v!r}')
        out.append((name, 'D', list(v.items())))

    def Q(name, v):
        if isinstance(v, int):
            fr = Fraction(v)
        elif isinstance(v, float):
            fr = Fraction(repr(v))   # the decimal literal, exactly
        else:
            raise Unsupported(f'{name}: expected number, got {v!r}')
        out.append((name, 'Q', fr))

    utils, consts, manager = M('utils'), M('constants'), M('manager')
    upload, copies, legacy = M('upload'), M('copies'), M('__init__')
    bandwidth, crt, pool = M('bandwidth'), M('crt'), M('processpool')

    # limits
    Z('MAX_PARTS', utils.lookup('MAX_PARTS', None))
    Z('MAX_SINGLE_UPLOAD_SIZE', utils.lookup('MAX_SINGLE_UPLOAD_SIZE', None))
    Z('MIN_UPLOAD_CHUNKSIZE', utils.lookup('MIN_UPLOAD_CHUNKSIZE', None))
    Z('ADJ_DEFAULT_MAX_SIZE', utils.default_arg('ChunksizeAdjuster', '__init__', 'max_size'))
    Z('ADJ_DEFAULT_MIN_SIZE', utils.default_arg('ChunksizeAdjuster', '__init__', 'min_size'))
    Z('ADJ_DEFAULT_MAX_PARTS', utils.default_arg('ChunksizeAdjuster', '__init__', 'max_parts'))
    # config defaults
    for a in ['multipart_threshold', 'multipart_chunksize', 'max_request_concurrency',
              'max_submission_concurrency', 'max_request_queue_size',
              'max_submission_queue_size', 'max_io_queue_size', 'io_chunksize',
              'num_download_attempts', 'max_in_memory_upload_chunks',
              'max_in_memory_download_chunks']:
        Z('CFG_' + a, manager.default_arg('TransferConfig', '__init__', a))
    # progress / bandwidth
    Z('AGG_PROGRESS_THRESHOLD', upload.default_arg('AggregatedProgressCallback', '__init__', 'threshold'))
    Z('BW_BYTES_THRESHOLD', bandwidth.default_arg('BandwidthLimitedStream', '__init__', 'bytes_threshold'))
    Q('BW_ALPHA', bandwidth.default_arg('BandwidthRateTracker', '__init__', 'alpha'))
    # crt / pool
    Z('CRT_PERMITS', find_call_int(crt, 'CRTTransferManager', '__init__', 'Semaphore'))
    Z('POOL_MAX_ATTEMPTS', pool.classes['GetObjectWorker']['_MAX_ATTEMPTS']
      if not isinstance(pool.classes['GetObjectWorker'].get('_MAX_ATTEMPTS'), Unsupported)
      else None)

    # routing tables
    L('ALLOWED_DOWNLOAD_ARGS', consts.lookup('ALLOWED_DOWNLOAD_ARGS', None))
    L('FULL_OBJECT_CHECKSUM_ARGS', consts.lookup('FULL_OBJECT_CHECKSUM_ARGS', None))
    L('TM_ALLOWED_DOWNLOAD_ARGS', manager.lookup('ALLOWED_DOWNLOAD_ARGS', 'TransferManager'))
    L('TM_ALLOWED_UPLOAD_ARGS', manager.lookup('ALLOWED_UPLOAD_ARGS', 'TransferManager'))
    L('TM_ALLOWED_COPY_ARGS', manager.lookup('ALLOWED_COPY_ARGS', 'TransferManager'))
    L('TM_ALLOWED_DELETE_ARGS', manager.lookup('ALLOWED_DELETE_ARGS', 'TransferManager'))
    L('UP_PUT_OBJECT_BLOCKLIST', upload.lookup('PUT_OBJECT_BLOCKLIST', 'UploadSubmissionTask'))
    L('UP_CREATE_MULTIPART_BLOCKLIST', upload.lookup('CREATE_MULTIPART_BLOCKLIST', 'UploadSubmissionTask'))
    L('UP_UPLOAD_PART_ARGS', upload.lookup('UPLOAD_PART_ARGS', 'UploadSubmissionTask'))
    L('UP_COMPLETE_MULTIPART_ARGS', upload.lookup('COMPLETE_MULTIPART_ARGS', 'UploadSubmissionTask'))
    D('CP_HEAD_MAPPING', copies.lookup('EXTRA_ARGS_TO_HEAD_ARGS_MAPPING', 'CopySubmissionTask'))
    L('CP_UPLOAD_PART_COPY_ARGS', copies.lookup('UPLOAD_PART_COPY_ARGS', 'CopySubmissionTask'))
    L('CP_CREATE_MULTIPART_BLACKLIST', copies.lookup('CREATE_MULTIPART_ARGS_BLACKLIST', 'CopySubmissionTask'))
    L('CP_COMPLETE_MULTIPART_ARGS', copies.lookup('COMPLETE_MULTIPART_ARGS', 'CopySubmissionTask'))
    L('LEGACY_ALLOWED_DOWNLOAD_ARGS', legacy.lookup('ALLOWED_DOWNLOAD_ARGS', 'S3Transfer'))
    L('LEGACY_ALLOWED_UPLOAD_ARGS', legacy.lookup('ALLOWED_UPLOAD_ARGS', 'S3Transfer'))
    L('LEGACY_UPLOAD_PART_ARGS', legacy.lookup('UPLOAD_PART_ARGS', 'MultipartUploader'))
    L('CRT_ALLOWED_DOWNLOAD_ARGS', crt.lookup('ALLOWED_DOWNLOAD_ARGS', 'CRTTransferManager'))
    L('CRT_ALLOWED_UPLOAD_ARGS', crt.lookup('ALLOWED_UPLOAD_ARGS', 'CRTTransferManager'))
    L('CRT_ALLOWED_DELETE_ARGS', crt.lookup('ALLOWED_DELETE_ARGS', 'CRTTransferManager'))
    return out


def coq_str(s):
    if not all(32 <= ord(c) < 127 for c in s):
        raise Unsupported(f'non-ascii string {s!r}')
    return '"' + s.replace('"', '""') + '"'


def emit(items):
    lines = ['(* GENERATED by harness/gen_tables.py from /repo/s3transfer -- do not edit *)',
             'From Coq Require Import ZArith QArith List String.',
             'Import ListNotations.',
             'Open Scope string_scope.',
             '']
    for name, kind, v in items:
        if kind == 'Z':
            lines.append(f'Definition {name} : Z := ({v})%Z.')
        elif kind == 'Q':
            lines.append(f'Definition {name} : Q := ({v.numerator} # {v.denominator})%Q.')
        elif kind == 'L':
            body = '; '.join(coq_str(x) for x in v)
            lines.append(f'Definition {name} : list string := [{body}].')
        elif kind == 'D':
            body = '; '.join(f'({coq_str(k)}, {coq_str(x)})' for k, x in v)
            lines.append(f'Definition {name} : list (string * string) := [{body}].')
    lines.append('')
    return '\n'.join(lines)


def main():
    root, out = sys.argv[1], sys.argv[2]
    try:
        text = emit(collect(root))
    except Unsupported as e:
        print(f'gen_tables: FAIL-CLOSED: {e}', file=sys.stderr)
        sys.exit(2)
    except (KeyError, SyntaxError, OSError) as e:
        print(f'gen_tables: FAIL-CLOSED: {type(e).__name__}: {e}', file=sys.stderr)
        sys.exit(2)
    old = None
    if os.path.exists(out):
        with open(out) as f:
            old = f.read()
    if old != text:
        os.makedirs(os.path.dirname(out), exist_ok=True)
        with open(out, 'w') as f:
            f.write(text)
        print('gen_tables: wrote', out)
    else:
        print('gen_tables: unchanged', out)


if __name__ == '__main__':
    main()
