"""Shared machinery of ./check: build, proof capture, differential loop,
violation / known-finding protocol, evidence.  See DESIGN.md section 3."""
import fcntl
import glob
import hashlib
import json
import os
import random
import re
import subprocess
import sys
import time

VERIF = os.path.dirname(os.path.dirname(os.path.abspath(__file__)))
REPO = os.environ.get('VERIF_REPO', '/repo')
COQ = os.path.join(VERIF, 'coq')
OCAML = os.path.join(VERIF, 'ocaml')
PY = os.environ.get('VERIF_PYTHON', '/venv/bin/python')
NPROC = int(os.environ.get('VERIF_JOBS', '8'))

GATE_RE = re.compile(
    r'\b(Axiom|Axioms|Parameter|Parameters|Conjecture|Conjectures|Admitted|admit|'
    r'Admit\s+Obligations|bypass_check|give_up)\b|Unset\s+Guard|Unset\s+Positivity|'
    r'Unset\s+Universe|type-in-type|impredicative-set|Unset\s+Strict')


class BuildBroken(Exception):
    def __init__(self, what, log):
        super().__init__(what)
        self.what = what
        self.log = log


def sh(cmd, timeout, cwd=None, env=None, input=None):
    e = dict(os.environ)
    if env:
        e.update(env)
    try:
        p = subprocess.run(cmd, shell=isinstance(cmd, str), cwd=cwd, env=e, input=input,
                           stdout=subprocess.PIPE, stderr=subprocess.STDOUT,
                           timeout=timeout, text=True)
        return p.returncode, p.stdout
    except subprocess.TimeoutExpired as ex:
        out = ex.stdout or ''
        if isinstance(out, bytes):
            out = out.decode(errors='replace')
        return 124, out + f'\n[timeout after {timeout}s]'


# --------------------------------------------------------------------------
# gate + build

def strip_coq_comments(text):
    out, depth, i = [], 0, 0
    while i < len(text):
        if text.startswith('(*', i):
            depth += 1
            i += 2
        elif text.startswith('*)', i) and depth:
            depth -= 1
            i += 2
        else:
            if depth == 0:
                out.append(text[i])
            i += 1
    return ''.join(out)


def gate():
    """Reject any construct that would declare an axiom or weaken the kernel."""
    bad = []
    for path in sorted(glob.glob(os.path.join(COQ, '**', '*.v'), recursive=True)):
        text = strip_coq_comments(open(path).read())
        # strings can not hide a vernacular command, but avoid flagging them
        text_ns = re.sub(r'"[^"]*"', '""', text)
        for m in GATE_RE.finditer(text_ns):
            line = text_ns.count('\n', 0, m.start()) + 1
            bad.append(f'{os.path.relpath(path, VERIF)}:{line}: {m.group(0)}')
        # Variable / Hypothesis / Context outside a Section
        depth = 0
        for ln, l in enumerate(text_ns.split('\n'), 1):
            s = l.strip()
            if re.match(r'Section\s+\w+', s):
                depth += 1
            elif re.match(r'End\s+\w+', s) and depth:
                depth -= 1
            elif depth == 0 and re.match(r'(Variable|Variables|Hypothesis|Hypotheses|Context)\b', s):
                bad.append(f'{os.path.relpath(path, VERIF)}:{ln}: {s.split()[0]} outside a Section')
    for mk in ['_CoqProject']:
        t = open(os.path.join(COQ, mk)).read()
        if re.search(r'type-in-type|impredicative-set|-vos|-vok|bypass', t):
            bad.append(f'coq/{mk}: forbidden flag')
    return bad


class Lock:
    def __enter__(self):
        self.f = open(os.path.join(VERIF, '.build.lock'), 'w')
        fcntl.flock(self.f, fcntl.LOCK_EX)
        return self

    def __exit__(self, *a):
        fcntl.flock(self.f, fcntl.LOCK_UN)
        self.f.close()


def regen():
    """Regenerate coq/gen/*.v from /repo and the installed botocore."""
    rc, out = sh([sys.executable, os.path.join(VERIF, 'harness', 'gen_tables.py'), REPO,
                  os.path.join(COQ, 'gen', 'Tables.v')], 60)
    if rc != 0:
        raise BuildBroken('translator gen_tables.py failed closed on the current source', out)
    gs = os.path.join(VERIF, 'harness', 'gen_shapes.py')
    if os.path.exists(gs):
        rc, out2 = sh([PY, gs, os.path.join(COQ, 'gen', 'Shapes.v')], 120)
        if rc != 0:
            raise BuildBroken('translator gen_shapes.py failed', out2)
        out += out2
    return out


def coq_files():
    fs = []
    for d in ['gen', 'model', 'proofs', 'props', 'extract']:
        fs += sorted(glob.glob(os.path.join(COQ, d, '*.v')))
    return [os.path.relpath(f, COQ) for f in fs]


def ensure_makefile():
    files = coq_files()
    header = open(os.path.join(COQ, '_CoqProject')).read().split('\n')
    header = [l for l in header if l.startswith('-')]
    want = '\n'.join(header + files) + '\n'
    lst = os.path.join(COQ, '.files')
    if not os.path.exists(os.path.join(COQ, 'Makefile')) or \
            not os.path.exists(lst) or open(lst).read() != want:
        tmp = os.path.join(COQ, '_CoqProject.full')
        open(tmp, 'w').write(want)
        rc, out = sh(['coq_makefile', '-f', '_CoqProject.full', '-o', 'Makefile'], 60, cwd=COQ)
        if rc != 0:
            raise BuildBroken('coq_makefile failed', out)
        open(lst, 'w').write(want)


def coq_make(targets, timeout=1500):
    """Full .vo build of the given targets (and whatever they depend on)."""
    ensure_makefile()
    rc, out = sh(['timeout', str(timeout), 'make', f'-j{NPROC}'] + list(targets), timeout + 30, cwd=COQ)
    if rc != 0:
        m = re.search(r'File "\./([^"]+)", line (\d+)', out)
        where = f'{m.group(1)}:{m.group(2)}' if m else 'unknown location'
        raise BuildBroken(f'Coq build failed at {where}', out[-4000:])
    return out


def ocaml_build(component):
    """gen/<c>.ml (extracted) + conv.ml + <c>_main.ml -> bin/<c>; rebuilt when stale."""
    gen = os.path.join(OCAML, 'gen', component + '.ml')
    srcs = [gen, os.path.join(OCAML, 'conv.ml'), os.path.join(OCAML, component + '_main.ml')]
    binp = os.path.join(OCAML, 'bin', component)
    for s in srcs:
        if not os.path.exists(s):
            raise BuildBroken(f'extracted model source missing: {s}', '')
    if os.path.exists(binp) and all(os.path.getmtime(binp) >= os.path.getmtime(s) for s in srcs):
        return binp
    os.makedirs(os.path.join(OCAML, 'build'), exist_ok=True)
    os.makedirs(os.path.join(OCAML, 'bin'), exist_ok=True)
    allml = os.path.join(OCAML, 'build', component + '_all.ml')
    with open(allml, 'w') as f:
        for s in srcs:
            f.write(open(s).read() + '\n')
    rc, out = sh(['timeout', '300', 'ocamlfind', 'ocamlopt', '-w', '-a', '-O2', allml, '-o', binp],
                 330, cwd=os.path.join(OCAML, 'build'))
    if rc != 0:
        raise BuildBroken(f'OCaml build of the extracted model "{component}" failed', out[-3000:])
    return binp


def build(prop_file, extract_files=(), components=()):
    """gate, regenerate, make the property's theorem file and the extraction
    files it needs, build the drivers.  Returns the regen log."""
    with Lock():
        return build_locked(prop_file, extract_files, components)


def dep_closure(vfiles):
    """Transitive .v dependencies (inside coq/) of the given .v files, via coqdep."""
    seen, todo = set(), list(vfiles)
    while todo:
        f = todo.pop()
        if f in seen or not os.path.exists(os.path.join(COQ, f)):
            continue
        seen.add(f)
        rc, out = sh(['coqdep', '-Q', '.', 'S3V', f], 60, cwd=COQ)
        for m in re.finditer(r'(\S+)\.vo\b', out.split(':', 1)[1] if ':' in out else ''):
            d = m.group(1) + '.v'
            if not d.startswith('/') and d not in seen:
                todo.append(d)
    return seen


def build_locked(prop_file, extract_files=(), components=()):
    log = regen()
    ensure_makefile()
    mine = dep_closure([f'props/{prop_file}.v'] + [f'extract/{e}.v' for e in extract_files])
    bad = gate()
    hits = [b for b in bad if any(b.startswith('coq/' + f + ':') for f in mine) or b.startswith('coq/_CoqProject')]
    if hits:
        raise BuildBroken('gate: forbidden construct in the Coq files this property depends on', '\n'.join(hits))
    if bad:
        log += ' [gate: unrelated files still carry forbidden constructs: ' + '; '.join(bad[:4]) + ']'
    targets = [f'props/{prop_file}.vo'] + [f'extract/{e}.vo' for e in extract_files]
    coq_make(targets)
    for c in components:
        ocaml_build(c)
    return log


class _NoLock:
    def __enter__(self):
        return self

    def __exit__(self, *a):
        pass


def print_assumptions(prop_file, lock=True):
    """Recompile props/<file>.v alone and parse theorem names + Print Assumptions output."""
    with (Lock() if lock else _NoLock()):
        rc, out = sh(['timeout', '600', 'coqc', '-Q', '.', 'S3V', '-w',
                      '-notation-overridden,-deprecated-hint-without-locality,-deprecated-instance-without-locality',
                      f'props/{prop_file}.v'], 630, cwd=COQ)
    if rc != 0:
        raise BuildBroken(f'props/{prop_file}.v no longer checks', out[-4000:])
    src = strip_coq_comments(open(os.path.join(COQ, 'props', prop_file + '.v')).read())
    theorems = re.findall(r'^\s*(?:Theorem|Lemma|Corollary)\s+(\w+)', src, re.M)
    examples = re.findall(r'^\s*Example\s+(\w+)', src, re.M)
    printed = re.findall(r'Print Assumptions\s+(\w+)', src)
    closed = out.count('Closed under the global context')
    axioms = []
    # "Axioms:" blocks list entries "name : type" starting at column 0; the type
    # may continue on indented lines.  Parsed line by line (no backtracking).
    in_block = False
    for line in out.split('\n'):
        if line.startswith('Axioms:'):
            in_block = True
            continue
        if line.startswith('Closed under the global context') or line.startswith('File '):
            in_block = False
            continue
        if in_block and line and not line[0].isspace():
            m = re.match(r"([\w.']+)\s*(:|$)", line)
            if m:
                axioms.append(m.group(1))
            else:
                in_block = False
    missing = [t for t in theorems if t not in printed]
    return {'theorems': theorems, 'examples': examples, 'printed': printed,
            'closed': closed, 'axioms': sorted(set(axioms)), 'missing_print': missing,
            'raw': out}


# --------------------------------------------------------------------------
# model runner

def run_model(component, lines, timeout=600):
    binp = os.path.join(OCAML, 'bin', component)
    lines = list(lines)
    if not lines:
        return []
    data = '\n'.join(lines) + '\n'
    p = subprocess.run([binp], input=data, stdout=subprocess.PIPE, stderr=subprocess.PIPE,
                       text=True, timeout=timeout)
    if p.returncode != 0:
        raise BuildBroken(f'model driver {component} crashed', p.stderr[-2000:])
    out = p.stdout.split('\n')
    if out and out[-1] == '':
        out.pop()
    if len(out) != len(lines):
        raise BuildBroken(f'model driver {component}: {len(out)} answers for {len(lines)} cases', '')
    return out


def hx(n):
    """int -> the driver's number syntax"""
    return ('-' if n < 0 else '') + format(abs(n), 'x')


def unhx(s):
    return None if s == '-' else int(s, 16)


# --------------------------------------------------------------------------
# context: violations, known findings, evidence

class Ctx:
    def __init__(self, prop, tier, seed):
        self.prop = prop
        self.tier = tier
        self.seed = seed
        self.t0 = time.time()
        self.violations = []      # dicts
        self.known_hits = []
        self.cov = {'evaluations': 0, 'samples': [], 'components': {}}
        self.distinct = set()
        self.assumptions = []
        self.obligations = 0
        self.discharged = 0
        self.trusted = []
        self.checker_cmd = ''
        self.notes = []
        kf = os.path.join(VERIF, 'known_findings.json')
        self.known = json.load(open(kf))['findings'] if os.path.exists(kf) else []

    def rng(self, *tag):
        return random.Random(f'{self.seed}:{self.prop}:' + ':'.join(str(t) for t in tag))

    def thorough(self):
        return self.tier == 'thorough'

    def count(self, component, n=1, nontrivial_key=None, **hist):
        self.cov['evaluations'] += n
        c = self.cov['components'].setdefault(component, {'cases': 0, 'hist': {}})
        c['cases'] += n
        for k, v in hist.items():
            c['hist'][f'{k}={v}'] = c['hist'].get(f'{k}={v}', 0) + n
        if nontrivial_key is not None:
            self.distinct.add(hashlib.sha1(repr((component, nontrivial_key)).encode()).hexdigest()[:16])

    def sample(self, obj, limit=3):
        comp = obj.get('component', '') if isinstance(obj, dict) else ''
        n = sum(1 for s in self.cov['samples'] if isinstance(s, dict) and s.get('component', '') == comp)
        if n < limit and len(self.cov['samples']) < 24:
            self.cov['samples'].append(obj)

    def report(self, signature, what, replay, no_input=False):
        """A property violation (or an unverified obligation when no_input)."""
        for k in self.known:
            if k.get('status') == 'known' and k.get('property') == self.prop and \
                    k.get('signature') == signature:
                if signature not in [h['signature'] for h in self.known_hits]:
                    self.known_hits.append({'signature': signature, 'what': k.get('what', what)})
                return
        if signature in [v['signature'] for v in self.violations]:
            return
        # one cause, many inputs: keep the report readable -- at most 5 violations with a failing
        # input and at most 3 without one (so that correspondence breaks found first never crowd
        # out the failing input a later part of the check finds)
        same = [v for v in self.violations if bool(v['no_input']) == bool(no_input)]
        if len(same) >= (3 if no_input else 5):
            self.suppressed = getattr(self, 'suppressed', 0) + 1
            return
        os.makedirs(os.path.join(VERIF, 'evidence', 'replays'), exist_ok=True)
        h = hashlib.sha1(signature.encode()).hexdigest()[:10]
        path = os.path.join(VERIF, 'evidence', 'replays', f'{self.prop}-{h}.json')
        replay = dict(replay)
        replay.update({'property': self.prop, 'signature': signature, 'what': what,
                       'no_failing_input_found': bool(no_input)})
        with open(path, 'w') as f:
            json.dump(replay, f, indent=1, default=str)
        self.violations.append({'signature': signature, 'what': what, 'replay': path,
                                'no_input': no_input})

    def finish(self, level='proof'):
        for h in self.known_hits:
            print(f'KNOWN-FINDING: property={self.prop} {h["what"]}')
        for v in sorted(self.violations, key=lambda v: bool(v['no_input'])):
            tail = ' no-failing-input-found' if v['no_input'] else ''
            print(f'VIOLATION property={self.prop} replay={v["replay"]}{tail}')
            print(f'  ({v["what"]})')
        cov = self.cov
        cov['distinct_nontrivial'] = len(self.distinct)
        cov.setdefault('rule', '')
        cov['obligations'] = self.obligations
        cov['discharged'] = self.discharged
        cov['checker_cmd'] = self.checker_cmd
        cov['trusted_base'] = self.trusted
        cov['known_findings_hit'] = [h['signature'] for h in self.known_hits]
        cov['notes'] = self.notes
        if not cov['samples']:
            cov['samples'] = ['(no case executed: build or proof broke before the correspondence ran)']
        ev = {'property_id': self.prop, 'tier': self.tier, 'seed': self.seed, 'level': level,
              'coverage': cov, 'assumptions': self.assumptions,
              'wall_s': round(time.time() - self.t0, 2), 'violations': len(self.violations)}
        os.makedirs(os.path.join(VERIF, 'evidence'), exist_ok=True)
        with open(os.path.join(VERIF, 'evidence', f'{self.prop}.json'), 'w') as f:
            json.dump(ev, f, indent=1, default=str)
        ok = not self.violations
        print(f'{self.prop} {self.tier}: {"OK" if ok else "FAIL"} '
              f'obligations={self.obligations} discharged={self.discharged} '
              f'cases={cov["evaluations"]} distinct_nontrivial={cov["distinct_nontrivial"]} '
              f'wall={ev["wall_s"]}s')
        return 0 if ok else 1


def proofs(ctx, prop_file, extract_files=(), components=()):
    """Build + capture the proof obligations of a property.  `prop_file` is the
    name of one theorem file in coq/props (or a list of them).  Returns True if
    all theorems check; on a break records it in ctx.broken (the caller then
    runs its search oracle)."""
    files = [prop_file] if isinstance(prop_file, str) else list(prop_file)
    ctx.checker_cmd = ('coqc 8.16.1 (full .vo build via coq_makefile/make of '
                       + ', '.join(f'props/{f}.vo' for f in files) +
                       ' and their dependencies from regenerated coq/gen/*.v; then coqc of each theorem file for Print Assumptions)')
    ctx.broken = None
    pas = []
    try:
        with Lock():     # one critical section: nobody regenerates / rebuilds in between
            log = ''
            for i, f in enumerate(files):
                log = build_locked(f, extract_files if i == 0 else (), components if i == 0 else ())
            for f in files:
                pas.append(print_assumptions(f, lock=False))
        ctx.notes.append(log.strip().replace('\n', '; '))
    except BuildBroken as b:
        ctx.broken = b
        ctx.notes.append(f'BROKEN: {b.what}')
        return False
    theorems = [t for pa in pas for t in pa['theorems']]
    ctx.obligations = len(theorems)
    missing = [t for pa in pas for t in pa['missing_print']]
    if missing:
        ctx.broken = BuildBroken(f'theorems without Print Assumptions: {missing}', '')
        return False
    ctx.discharged = len(theorems)
    axioms = sorted({a for pa in pas for a in pa['axioms']})
    closed = sum(pa['closed'] for pa in pas)
    base = ['Coq 8.16.1 kernel (coqc, vm_compute; no native_compute)']
    if axioms:
        base.append('axioms reported by Print Assumptions (standard-library axioms only): ' + ', '.join(axioms)
                    + f'; {closed} statements closed under the global context')
    else:
        base.append(f'Print Assumptions: all {closed} theorems closed under the global context (no axioms)')
    base.append('translator harness/gen_tables.py (python ast, fail-closed) for coq/gen/Tables.v')
    if extract_files:
        base.append('extraction: ExtrOcamlBasic only (Extract Inductive bool/option/unit/list/prod/sumbool/comparison), no Extract Constant; '
                    'ocaml/conv.ml + ocaml/*_main.ml line drivers; ocamlfind ocamlopt 4.13.1 -- trusted for the correspondence only')
    ctx.trusted = base
    ctx.cov['theorems'] = theorems
    ctx.cov['nonvacuity_examples'] = [e for pa in pas for e in pa['examples']]
    return True


def differential(ctx, component, cases, to_model, run_impl, key=None, hist=None, canon=None):
    """Run impl and extracted model on the same cases; return the mismatches
    [(case, impl_out, model_out)].  Counting/sampling goes to the evidence."""
    lines = [to_model(c) for c in cases]

    def guarded_impl(c):
        # an exception escaping the code under test is an outcome (compared with the model and
        # judged by the caller's oracle), never a crash of the check
        try:
            return run_impl(c)
        except BuildBroken:
            raise
        except Exception as e:      # noqa
            return f'EXC:{type(e).__name__}'
    impl = [guarded_impl(c) for c in cases]
    try:
        model = run_model(component, lines)
    except BuildBroken as b:
        ctx.broken = b
        return [(c, i, '<model driver failed>') for c, i in zip(cases[:3], impl[:3])]
    mism = []
    for c, l, i, m in zip(cases, lines, impl, model):
        h = hist(c, i) if hist else {}
        ctx.count(component, 1, nontrivial_key=(key(c, i) if key else l), **h)
        if canon is not None:
            i, m = canon(i, m)
        if i != m:
            mism.append((c, i, m))
    for c, l, i in list(zip(cases, lines, impl))[:2]:
        ctx.sample({'component': component, 'model_cmd': l, 'impl_and_model_output': i})
    ctx.cov['components'][component]['mismatches'] = \
        ctx.cov['components'][component].get('mismatches', 0) + len(mism)
    return mism


def setup_repo_path():
    """Make `import s3transfer` resolve to /repo's working tree."""
    if REPO not in sys.path:
        sys.path.insert(0, REPO)
    for k in [k for k in sys.modules if k == 's3transfer' or k.startswith('s3transfer.')]:
        del sys.modules[k]
    import s3transfer
    assert os.path.realpath(os.path.dirname(s3transfer.__file__)) == \
        os.path.realpath(os.path.join(REPO, 's3transfer')), s3transfer.__file__
