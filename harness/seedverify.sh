#!/bin/bash
# seedverify.sh <worktree> <mutant-dir-name> : confirm a seeded change ourselves.
WT=$1; M=$2; D=$WT/seeded/$M
cd $WT && git checkout -q -- . || exit 9
PYTHONPATH=$WT timeout 300 /venv/bin/python $D/demo.py >/dev/null 2>&1; base=$?
git apply $D/patch.diff || { echo "$WT $M: PATCH-FAILS"; exit 3; }
PYTHONPATH=$WT timeout 300 /venv/bin/python $D/demo.py >/dev/null 2>&1; mut=$?
suite=$(PYTHONPATH=$WT timeout 900 /venv/bin/python -m pytest -q -p no:cacheprovider -x tests/unit tests/functional 2>&1 | tail -1)
git checkout -q -- .
echo "$WT $M: demo_clean=$base demo_mutant=$mut suite='$suite' lines=$(grep -c '^[+-][^+-]' $D/patch.diff)"
