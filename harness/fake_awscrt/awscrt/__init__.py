"""Stub of the `awscrt` package for the C20 check only.

It is put on sys.path by harness/props/c20.py alone (the directory
harness/fake_awscrt is inserted in front of sys.path right before
`s3transfer.crt` is imported).  Nothing here talks to a network or starts a
thread: `awscrt.s3.S3Client.make_request` records its keyword arguments and
the harness itself later completes each request, in any order.
"""
__version__ = '0.0.0+verif-stub'
