class HttpHeaders:
    def __init__(self, name_value_pairs=None):
        self._items = list(name_value_pairs or [])

    def add(self, name, value):
        self._items.append((name, value))

    def set(self, name, value):
        self.remove(name)
        self._items.append((name, value))

    def get(self, name, default=None):
        for n, v in self._items:
            if n.lower() == name.lower():
                return v
        return default

    def remove(self, name):
        self._items = [(n, v) for n, v in self._items if n.lower() != name.lower()]

    def __iter__(self):
        return iter(self._items)


class HttpRequest:
    def __init__(self, method='GET', path='/', headers=None, body_stream=None):
        self.method = method
        self.path = path
        self.headers = headers if headers is not None else HttpHeaders()
        self.body_stream = body_stream
