import enum


class AwsCredentials:
    def __init__(self, access_key_id, secret_access_key, session_token=None, expiration=None):
        self.access_key_id = access_key_id
        self.secret_access_key = secret_access_key
        self.session_token = session_token
        self.expiration = expiration


class AwsCredentialsProvider:
    def __init__(self, delegate=None):
        self.delegate = delegate

    @classmethod
    def new_delegate(cls, get_credentials):
        return cls(get_credentials)


class AwsSigningAlgorithm(enum.IntEnum):
    V4 = 0
    V4_ASYMMETRIC = 1
    V4_S3EXPRESS = 2


class AwsSigningConfig:
    def __init__(self, **kwargs):
        self.kwargs = kwargs
        for k, v in kwargs.items():
            setattr(self, k, v)
