"""Stub of awscrt.s3.  Deterministic, single-threaded.

S3Client.make_request(**kwargs)
    * appends a record to client.calls,
    * raises client.fail_next (once) if it is set -- "request construction
      failure" -- before creating anything,
    * otherwise creates the recv_filepath file (as the CRT does when it opens
      the destination of a download) and returns an S3Request.

S3Request
    * finished_future : concurrent.futures.Future
    * cancel()        : records the wish; when client.sync_cancel is true the
      request is finished at once with the CRT's cancel error (this stands for
      the CRT thread delivering the cancellation while shutdown() waits)
    * finish(error)   : what the CRT's _on_finish does, in the same order:
      first the finished_future is resolved (resolve), then
      on_done(error=..., ...) runs (deliver).
      An exception escaping on_done is returned to the caller (the real CRT
      prints and swallows it on its own thread).
"""
import enum
import os
from concurrent.futures import Future

from awscrt.exceptions import AwsCrtError


class S3RequestType(enum.IntEnum):
    DEFAULT = 0
    GET_OBJECT = 1
    PUT_OBJECT = 2


class S3RequestTlsMode(enum.IntEnum):
    ENABLED = 0
    DISABLED = 1


class S3ChecksumAlgorithm(enum.IntEnum):
    CRC32C = 1
    CRC32 = 2
    SHA1 = 3
    SHA256 = 4
    CRC64NVME = 5


class S3ChecksumLocation(enum.IntEnum):
    HEADER = 1
    TRAILER = 2


class S3ChecksumConfig:
    def __init__(self, algorithm=None, location=None, validate_response=False):
        self.algorithm = algorithm
        self.location = location
        self.validate_response = validate_response


class S3ResponseError(AwsCrtError):
    def __init__(self, *, code=0, name='AWS_ERROR_S3_INVALID_RESPONSE_STATUS', message='',
                 status_code=500, headers=None, body=None, operation_name=None):
        super().__init__(code, name, message)
        self.status_code = status_code
        self.headers = headers or []
        self.body = body
        self.operation_name = operation_name


class CrossProcessLock:
    def __init__(self, lock_scope_name):
        self.name = lock_scope_name
        self.held = False

    def acquire(self):
        self.held = True

    def release(self):
        self.held = False


def get_recommended_throughput_target_gbps():
    return None


def cancel_error():
    return AwsCrtError(code=14343, name='AWS_ERROR_S3_CANCELED', message='Request successfully cancelled')


class StubFuture(Future):
    """result() on a pending future would block the only thread there is:
    the client's would_block hook (if any) is called instead of waiting."""
    _client = None

    def result(self, timeout=None):
        hook = self._client.would_block if self._client is not None else None
        if hook is not None and timeout is None and not self.done():
            hook('finished_future.result()')
        return super().result(timeout)


class S3Request:
    def __init__(self, client, index, kwargs):
        self._client = client
        self.index = index
        self.kwargs = kwargs
        self.finished_future = StubFuture()
        self.finished_future._client = client
        self.delivered = False
        self.cancel_requested = False
        self.finished = False
        self.on_done_exception = None

    def cancel(self):
        self.cancel_requested = True
        self._client.cancels.append(self.index)
        if self._client.sync_cancel and not self.finished:
            self.on_done_exception = self.finish(cancel_error())

    def finish(self, error=None):
        """Resolve the request.  Returns the exception that escaped on_done, or None."""
        self.resolve(error)
        return self.deliver()

    def resolve(self, error=None):
        """First half of _on_finish: the finished_future gets its result."""
        if self.finished:
            raise RuntimeError('stub CRT: a request finishes once')
        self.finished = True
        self._error = error
        hook = self._client.on_finish
        if hook is not None:
            hook(self, error)
        if error is not None:
            self.finished_future.set_exception(error)
        else:
            self.finished_future.set_result(None)

    def deliver(self):
        """Second half of _on_finish: on_done(error=..., ...)."""
        if not self.finished or self.delivered:
            raise RuntimeError('stub CRT: on_done runs once, after the future is resolved')
        self.delivered = True
        error = self._error
        on_done = self.kwargs.get('on_done')
        if on_done is None:
            return None
        try:
            on_done(error=error, error_headers=None, error_body=None,
                    error_operation_name=None, status_code=200 if error is None else 0,
                    did_validate_checksum=False, checksum_validation_algorithm=None)
        except Exception as e:      # the CRT would log and drop it
            return e
        return None


class S3Client:
    def __init__(self, **kwargs):
        self.init_kwargs = kwargs
        self.calls = []          # kwargs of every make_request call, in order
        self.requests = []       # S3Request or None (construction failed), same indexing
        self.cancels = []
        self.fail_next = None    # exception instance: next make_request raises it
        self.sync_cancel = False
        self.on_finish = None    # hook(request, error) run at the start of resolve()
        self.would_block = None  # hook(what): a wait on a pending finished_future

    def make_request(self, **kwargs):
        self.calls.append(kwargs)
        if self.fail_next is not None:
            e, self.fail_next = self.fail_next, None
            self.requests.append(None)
            raise e
        recv = kwargs.get('recv_filepath')
        if recv:
            with open(recv, 'wb'):
                pass
        req = S3Request(self, len(self.requests), kwargs)
        self.requests.append(req)
        return req
