class AwsCrtError(Exception):
    def __init__(self, code=0, name='AWS_ERROR_UNKNOWN', message=''):
        super().__init__(code, name, message)
        self.code = code
        self.name = name
        self.message = message

    def __repr__(self):
        return f'AwsCrtError(name={self.name!r}, message={self.message!r}, code={self.code})'


def from_code(code):
    return AwsCrtError(code=code, name='AWS_ERROR_%d' % code)
