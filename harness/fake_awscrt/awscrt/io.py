class EventLoopGroup:
    def __init__(self, num_threads=None, cpu_group=None):
        self.num_threads = num_threads


class DefaultHostResolver:
    def __init__(self, event_loop_group, max_hosts=16):
        self.event_loop_group = event_loop_group


class ClientBootstrap:
    def __init__(self, event_loop_group, host_resolver):
        self.event_loop_group = event_loop_group
        self.host_resolver = host_resolver


class TlsContextOptions:
    def __init__(self):
        self.verify_peer = True
        self.ca_filepath = None

    def override_default_trust_store_from_path(self, ca_dirpath=None, ca_filepath=None):
        self.ca_filepath = ca_filepath


class TlsConnectionOptions:
    def __init__(self, tls_ctx):
        self.tls_ctx = tls_ctx


class ClientTlsContext:
    def __init__(self, options):
        self.options = options

    def new_connection_options(self):
        return TlsConnectionOptions(self)
