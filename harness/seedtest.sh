#!/bin/bash
# seedtest.sh <PROP> <patch.diff> [tier]
# Applies a seeded change to a scratch copy of /repo and runs the check from a
# scratch copy of /verif (so that concurrent work in /verif and /repo is not
# disturbed).  Prints the check's last lines and its exit status.
set -u
P=$1; PATCH=$(readlink -f "$2"); TIER=${3:-quick}
W=/tmp/seedtest-$$
mkdir -p $W
rsync -a --exclude .git /verif/ $W/verif/
rsync -a /repo/ $W/repo/
( cd $W/repo && git checkout -q -- . && git apply "$PATCH" ) || { echo "PATCH DOES NOT APPLY"; rm -rf $W; exit 3; }
( cd $W/verif && VERIF_REPO=$W/repo timeout 1500 ./check $P --tier $TIER 2>&1 | grep -v "^KNOWN-FINDING" | tail -${LINES_OUT:-8} ; echo "exit=${PIPESTATUS[0]}" )
rm -rf $W
