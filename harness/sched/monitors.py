"""Implementation-side oracles: each monitor states (part of) one property over
what a scheduled run of the REAL manager did (its log, the fake S3's tables, the
directory samples) and returns a list of failure descriptions (empty = holds)."""
import os

CANCEL_TYPES = ('CancelledError', 'FatalError')


def _by_t(trace, ev):
    out = {}
    for i, r in enumerate(trace):
        if r['ev'] == ev and r.get('t') is not None:
            out.setdefault(r['t'], []).append((i, r))
    return out


def transfer_of_label(run):
    return {r['label']: r['t'] for r in run.trace if r['ev'] == 'user_submitted'}


def task_transfer(run):
    m = {}
    for r in run.trace:
        if 'task' in r and r.get('t') is not None:
            m.setdefault(r['task'], r['t'])
    return m


def s3_events_by_transfer(run):
    """(index, record, t) for every s3_* record, t resolved like the translator does."""
    tt = task_transfer(run)
    stack, ctx, out = {}, {}, []
    for i, r in enumerate(run.trace):
        th, ev = r['thread'], r['ev']
        if ev == 'task_start':
            stack.setdefault(th, []).append(r['task'])
        elif ev == 'task_end':
            st = stack.get(th, [])
            if st and st[-1] == r['task']:
                st.pop()
        elif ev == 'run_begin':
            ctx.setdefault(th, []).append(r['t'])
        elif ev == 'run_end':
            ctx[th].pop()
        elif ev.startswith('s3_') or ev in ('fs', 'fs_done', 'fs_fault'):
            if ctx.get(th):
                t = ctx[th][-1]
            elif stack.get(th):
                t = tt.get(stack[th][-1])
            else:
                t = None
            out.append((i, r, t))
    return out


# ---------------------------------------------------------------- C04
def m_terminates(run):
    f = []
    if run.deadlock:
        f.append(f'deadlock: {run.deadlock}')
    if run.livelock:
        f.append(f'livelock (step budget exhausted): {run.livelock}')
    for name, typ, msg, tb in run.thread_errors:
        if typ not in ('KeyboardInterrupt',):
            f.append(f'thread {name} died with {typ}: {msg}')
    labels = transfer_of_label(run)
    for lb in labels:
        if lb not in run.results and not run.deadlock and not run.livelock:
            f.append(f'result() of {lb} never returned')
    if not any(r['ev'] == 'user_done' for r in run.trace) and not run.deadlock and not run.livelock:
        f.append('the user thread did not finish')
    return f


# ---------------------------------------------------------------- C01/C02/C03
def effect_ok(run, label):
    exp = run.expect[label]
    if exp[0] == 'object':
        return run.client.objects.get(exp[1]) == exp[2]
    if exp[0] == 'deleted':
        return exp[1] not in run.client.objects
    if exp[0] == 'dest':
        return run.dest_bytes.get(label) == exp[2]
    return False


def m_success_means_all_ok(run):
    """C03 (+ C01/C02 on the result): a normal return implies the effect is complete
    and no step of that transfer failed; a raise reports a failure that occurred."""
    f = []
    labels = transfer_of_label(run)
    tt = task_transfer(run)
    failed_mains = {}
    recorded = {}
    for r in run.trace:
        if r['ev'] == 'main_end' and not r['ok']:
            failed_mains.setdefault(r['t'], []).append(r['exc']['type'])
        if r['ev'] == 'set_exception':
            recorded.setdefault(r['t'], []).append(r['exc']['type'])
    faulted = {}
    for i, r, t in s3_events_by_transfer(run):
        if r['ev'] == 's3_end' and str(r.get('outcome', '')).startswith(('fault', 'rejected')) and r['op'] != 'AbortMultipartUpload':
            faulted.setdefault(t, []).append(r['op'])
        if r['ev'] == 'fs_fault':
            faulted.setdefault(t, []).append('fs:' + r['op'])
    cb_raises = {}
    for r in run.trace:
        if r['ev'] in ('on_queued', 'on_progress'):
            pass
    for lb, t in labels.items():
        res = run.results.get(lb)
        if res is None:
            continue
        if res[0] == 'ok':
            if not effect_ok(run, lb):
                f.append(f'{lb}: result() returned normally but the effect is incomplete/wrong')
            if failed_mains.get(t):
                f.append(f'{lb}: result() returned normally although a task failed with {failed_mains[t]}')
            if faulted.get(t):
                f.append(f'{lb}: result() returned normally although {faulted[t]} failed')
        else:
            typ = res[1]
            occurred = set(failed_mains.get(t, [])) | set(recorded.get(t, []))
            ok_types = occurred | set(CANCEL_TYPES) | {'RuntimeError', 'KeyboardInterrupt'}   # RuntimeError: user set_exception / callbacks
            if typ not in ok_types:
                f.append(f'{lb}: result() raised {typ}, which is none of the failures that occurred {sorted(occurred)}')
    return f


def m_attempt_bound(run, max_attempts):
    f = []
    per = {}
    for r in run.client.calls('GetObject'):
        k = (r['kwargs'].get('Key'), r['kwargs'].get('Range'))
        per[k] = per.get(k, 0) + 1
    for k, n in per.items():
        if n > max_attempts:
            f.append(f'{n} GetObject requests for {k} (num_download_attempts={max_attempts})')
    return f


def m_no_retry_after_fatal(run):
    """C03: a non-retryable error (anything but the listed stream errors) is never retried."""
    gf = (getattr(run, 'spec', None) or {}).get('get_fault')
    if not gf or gf.get('exc') not in ('fatal', 'oserror'):
        return []
    order, per = [], {}
    for r in run.client.calls('GetObject'):
        k = (r['kwargs'].get('Key'), r['kwargs'].get('Range'))
        if k not in per:
            order.append(k)
        per[k] = per.get(k, 0) + 1
    i = gf.get('range_idx', 0)
    if i < len(order) and per[order[i]] > 1:
        return [f'{per[order[i]]} GetObject requests for {order[i]} although its first attempt failed with a non-retryable '
                f'{"OSError (PermissionError)" if gf["exc"] == "oserror" else "error"} mid-stream']
    return []


# ---------------------------------------------------------------- C05
def m_multipart_discipline(run):
    f = []
    log = run.client.log
    received = {}
    for r in log:
        if r['op'] == 'CreateMultipartUpload' and r.get('outcome') == 'ok':
            received[r['upload_id']] = r
    labels = transfer_of_label(run)
    key_label = {}
    for lb, exp in run.expect.items():
        if exp[0] == 'object':
            key_label[exp[1]] = lb
    for uid, up in run.client.uploads.items():
        reqs = [r for r in log if r['kwargs'].get('UploadId') == uid]
        aborts = [r for r in reqs if r['op'] == 'AbortMultipartUpload']
        for a in aborts:
            if a.get('others_inflight'):
                f.append(f'{uid}: abort issued while requests {a["others_inflight"]} for it were still in flight')
            later = [r for r in reqs if r['idx'] > a['idx'] and r['op'] != 'AbortMultipartUpload']
            if later:
                f.append(f'{uid}: {[r["op"] for r in later]} issued after the abort')
        completes_ok = [r for r in reqs if r['op'] == 'CompleteMultipartUpload' and r.get('outcome') == 'ok']
        if len(completes_ok) > 1:
            f.append(f'{uid}: completed {len(completes_ok)} times')
        lb = key_label.get((up['bucket'], up['key']))
        res = run.results.get(lb) if lb else None
        if uid in received and res is not None:
            if res[0] == 'ok':
                if up['state'] != 'completed' or aborts:
                    f.append(f'{uid}: future succeeded but upload state={up["state"]} aborts={len(aborts)}')
            else:
                if not aborts:
                    f.append(f'{uid}: future failed/cancelled ({res[1]}) but no abort was issued (state={up["state"]})')
                else:
                    # "by the time the future is done": when result() returned, the abort had been issued
                    when_result = next((i for i, r in enumerate(run.trace)
                                        if r['ev'] == 'user_result' and r.get('label') == lb), None)
                    when_abort = next((i for i, r in enumerate(run.trace)
                                       if r['ev'] == 's3_begin' and r.get('op') == 'AbortMultipartUpload' and r.get('upload') == uid), None)
                    if when_result is not None and (when_abort is None or when_abort > when_result):
                        f.append(f'{uid}: result() of {lb} returned ({res[1]}) BEFORE the abort of its multipart upload was issued '
                                 f'(the future was done while the upload was still open)')
    return f


# ---------------------------------------------------------------- C06
def m_files(run):
    f = list(getattr(run, 'fs_violations', []))
    for lb, (kind, dst) in getattr(run, 'dests', {}).items():
        if kind != 'path':
            continue
        res = run.results.get(lb)
        temp = os.path.basename(dst) + os.extsep + 'TEMP'
        if temp in getattr(run, 'final_listing', []):
            f.append(f'{lb}: temporary file {temp} left behind after the future was done ({res})')
        at = getattr(run, 'listing_at_result', {}).get(lb)
        if at is not None and temp in at:
            f.append(f'{lb}: temporary file {temp} still present when result() returned')
        content = run.dest_bytes.get(lb)
        exp = run.expect[lb][2]
        old = b'OLD-CONTENT' if run.spec_preexisting.get(lb) else None
        if res and res[0] == 'ok' and content != exp:
            f.append(f'{lb}: success but the destination holds {content!r}')
        if res and res[0] != 'ok':
            if res[1] in CANCEL_TYPES:
                if content not in (old, exp):
                    f.append(f'{lb}: after cancellation the destination holds {content!r} (neither previous nor complete)')
            elif content != old:
                f.append(f'{lb}: after failure the destination changed to {content!r}')
    return f


def make_fs_sampler(expect_paths):
    """sample(run, sched): at every scheduling point the destination is absent /
    previous content / the complete object."""
    def sample(run, sched):
        for lb, (path, old, full) in expect_paths(run).items():
            try:
                with open(path, 'rb') as fh:
                    cur = fh.read()
            except OSError:
                cur = None
            if cur not in (None, old, full) and not (old is None and cur is None):
                v = getattr(run, 'fs_violations', None)
                if v is None:
                    v = run.fs_violations = []
                if len(v) < 3:
                    v.append(f'{lb}: at step {sched.step} the destination holds partial content {cur!r}')
    return sample


def m_stream_order(run):
    """Writes to a non-seekable destination arrive in stream order, each byte once."""
    f = []
    for lb, (kind, dst) in getattr(run, 'dests', {}).items():
        if kind != 'nonseekable':
            continue
        got = run.dest_bytes.get(lb) or b''
        exp = run.expect[lb][2]
        if got != exp[:len(got)]:
            f.append(f'{lb}: the non-seekable destination received {got!r}, which is not a prefix of the object {exp!r} '
                     f'(bytes out of order or duplicated)')
    return f


# ---------------------------------------------------------------- C07
def m_cancel(run):
    f = []
    labels = transfer_of_label(run)
    spec = run.spec
    c = spec.get('cancel')
    if not c:
        return f
    how = c['how']
    if how == 'exit_nowait':
        return f
    applied = {}      # t -> index of the cancel that was applied while not done
    first_queued = {}
    for i, r in enumerate(run.trace):
        if r['ev'] == 'cancel_applied' and r['status'] == 'cancelled' and r['t'] not in applied:
            applied[r['t']] = (i, r)
        if r['ev'] == 'status_transition' and r['to'] == 'queued' and r['ok']:
            first_queued.setdefault(r['t'], i)
    want_type = 'FatalError' if how == 'exit_exc' else 'CancelledError'
    want_msg = {'shutdown': c.get('msg', 'stop now'), 'exit_exc': 'boom', 'exit_kbi': 'KeyboardInterrupt()',
                'future': '', 'controller': 'injected', 'result_kbi': '', 'exit_wait_kbi': 'KeyboardInterrupt()'}[how]
    s3 = s3_events_by_transfer(run)
    setres = {r['t'] for r in run.trace if r['ev'] == 'set_result'}
    for lb, t in labels.items():
        res = run.results.get(lb)
        if res is None:
            continue
        if t in applied:
            i, rec = applied[t]
            stored = rec['stored'] or {}
            if stored.get('type') != want_type and how != 'result_kbi':
                f.append(f'{lb}: cancelled through {how} but the stored exception is {stored.get("type")}, expected {want_type}')
            if how in ('shutdown', 'exit_exc', 'exit_kbi', 'controller', 'exit_wait_kbi') and stored.get('msg') != want_msg:
                f.append(f'{lb}: cancellation message is {stored.get("msg")!r}, expected {want_msg!r}')
            if res[0] == 'ok':
                if t not in setres:
                    f.append(f'{lb}: cancel was applied but result() returned normally without a final set_result')
                elif not effect_ok(run, lb):
                    f.append(f'{lb}: racing cancel: reported success with an incomplete effect')
            elif res[1] not in CANCEL_TYPES and res[1] not in ('RuntimeError',):
                # an earlier failure may legitimately win only if it was recorded first -- then cancel is not "applied"
                f.append(f'{lb}: cancel applied first but result() raised {res[1]}')
            if t not in first_queued or first_queued[t] > i:
                reqs = [r['op'] for (j, r, tt) in s3 if tt == t and r['ev'] == 's3_begin']
                if reqs:
                    f.append(f'{lb}: cancelled before it started, yet S3 requests were made: {reqs}')
        else:
            # cancel found it done (or never reached it): it keeps its result
            pass
    return f


# ---------------------------------------------------------------- C08
def m_callbacks(run):
    f = []
    labels = transfer_of_label(run)
    s3 = s3_events_by_transfer(run)
    subs_of = {}
    for lb in labels:
        pass
    per_t = {}
    for i, r in enumerate(run.trace):
        if r['ev'] in ('on_queued', 'on_done', 'on_progress'):
            per_t.setdefault(r['t'], []).append((i, r))
    ev_set = {}
    for i, r in enumerate(run.trace):
        if r['ev'] == 'event_set':
            ev_set.setdefault(r['t'], i)
    cancelled_before_start = set()
    fq = {}
    for i, r in enumerate(run.trace):
        if r['ev'] == 'status_transition' and r['to'] == 'queued' and r['ok']:
            fq.setdefault(r['t'], i)
    for lb, t in labels.items():
        evs = per_t.get(t, [])
        names = sorted({r['sub'] for _, r in evs} | set(run.sub_names.get(lb, [])))
        started = t in fq
        s3_idx = [i for (i, r, tt) in s3 if tt == t and r['ev'].startswith('s3_')]
        fs_idx = [i for (i, r, tt) in s3 if tt == t and r['ev'] in ('fs', 'fs_done')]
        for nm in names:
            q = [i for i, r in evs if r['ev'] == 'on_queued' and r['sub'] == nm]
            d = [i for i, r in evs if r['ev'] == 'on_done' and r['sub'] == nm]
            p = [i for i, r in evs if r['ev'] == 'on_progress' and r['sub'] == nm]
            raised_before = any(r['ev'] == 'on_queued' and r['sub'] != nm and (r['sub'] in run.raising_queued.get(lb, ()))
                                and i < (q[0] if q else 10 ** 9) for i, r in evs) or \
                (not q and any(r['sub'] in run.raising_queued.get(lb, ()) for _, r in evs if r['ev'] == 'on_queued'))
            has = getattr(run, 'sub_has', {}).get(lb, {}).get(nm)      # a duck-typed subscriber: only these methods
            if has is not None and 'queued' not in has:
                q = [q[0]] if False else q
                if q:
                    f.append(f'{lb}/{nm}: on_queued ran although the subscriber has no such method')
            elif started and len(q) != 1 and not raised_before:
                f.append(f'{lb}/{nm}: on_queued ran {len(q)} times')
            if not started and q:
                f.append(f'{lb}/{nm}: on_queued ran although the transfer never started')
            if q and s3_idx and min(s3_idx) < q[0]:
                f.append(f'{lb}/{nm}: an S3 request of the transfer preceded on_queued')
            if lb in run.results and len(d) != 1 and not (has is not None and 'done' not in has and not d):
                f.append(f'{lb}/{nm}: on_done ran {len(d)} times')
            if d:
                if t not in ev_set or ev_set[t] > d[0]:
                    f.append(f'{lb}/{nm}: on_done ran before result() was unblocked')
                if any(i > d[0] for i in s3_idx):
                    f.append(f'{lb}/{nm}: an S3 request/response of the transfer after on_done began')
                if any(i > d[0] for i in fs_idx):
                    f.append(f'{lb}/{nm}: a file operation of the transfer after on_done began')
                if any(i > d[0] for i in p):
                    f.append(f'{lb}/{nm}: on_progress delivered after on_done began')
                if not run.trace[d[0]].get('done'):
                    f.append(f'{lb}/{nm}: future.done() was False inside on_done')
        if run.provided_size.get(lb):
            heads = [r for (i, r, tt) in s3 if tt == t and r['ev'] == 's3_begin' and r['op'] == 'HeadObject']
            if heads:
                f.append(f'{lb}: size supplied in on_queued but a size-discovery request was made')
    return f


# ---------------------------------------------------------------- C10 / C11 / C12
def make_limit_sampler(cfg_of):
    def sample(run, sched):
        client = run.client
        cfg = cfg_of(run)
        v = getattr(run, 'limit_violations', None)
        if v is None:
            v = run.limit_violations = []
        data = head = 0
        for r in client.log:
            if not r['done']:
                if r['op'] == 'HeadObject':
                    head += 1
                elif r['op'] != 'AbortMultipartUpload':
                    data += 1
        run.max_data = max(getattr(run, 'max_data', 0), data)
        run.max_head = max(getattr(run, 'max_head', 0), head)
        if data > cfg['max_request_concurrency'] and len(v) < 3:
            v.append(f'step {sched.step}: {data} transfer requests in flight (max_request_concurrency={cfg["max_request_concurrency"]})')
        if head > cfg['max_submission_concurrency'] and len(v) < 3:
            v.append(f'step {sched.step}: {head} size-discovery requests in flight (max_submission_concurrency={cfg["max_submission_concurrency"]})')
        ex = getattr(run, 'executors', None)
        if ex:
            for name, e, cap in ex:
                occ = len(e.queue) + getattr(e, 'current', 0)
                key = 'occ_' + name
                setattr(run, key, max(getattr(run, key, 0), occ))
                if occ > cap and len(v) < 3:
                    v.append(f'step {sched.step}: stage {name} has {occ} queued-or-running tasks (limit {cap})')
        bufs = getattr(run, 'live_buffers', None)
        if bufs is not None:
            live = [b for b in bufs if not b.closed and (not getattr(b, 'dead', False) or getattr(b, 'pinned', False))]
            run.max_buffers = max(getattr(run, 'max_buffers', 0), len(live))
            lim = cfg['max_in_memory_upload_chunks'] + cfg['max_submission_concurrency']
            if len(live) > lim and len(v) < 3:
                v.append(f'step {sched.step}: {len(live)} live upload buffers (limit {lim})')
            big = max(cfg['multipart_chunksize'], cfg['multipart_threshold'])
            # bytes read from user streams and not yet released by a finished part body
            read = getattr(run, 'stream_bytes_read', [0])[0]
            released = sum(b.size0 for b in bufs if b.closed or (getattr(b, 'dead', False) and not getattr(b, 'pinned', False)))
            held = read - released
            run.max_held = max(getattr(run, 'max_held', 0), held)
            if held > lim * big and len(v) < 3:
                v.append(f'step {sched.step}: {held} bytes read from upload streams are held in memory '
                         f'(limit ({cfg["max_in_memory_upload_chunks"]} + {cfg["max_submission_concurrency"]}) x {big} = {lim * big})')
            for b in live:
                if len(b.getbuffer()) > big and len(v) < 3:
                    v.append(f'step {sched.step}: an upload buffer of {len(b.getbuffer())} bytes (limit {big})')
        lg = getattr(client, 'track_get', None)
        if lg is not None:
            # data received from the service and still referenced: what the deferred queue of a
            # non-seekable download holds plus the chunk each running request has in hand
            c = getattr(run, 'requested', None) or run.config
            n_dl = sum(1 for t in run.spec_transfers if t.get('kind') == 'download') if hasattr(run, 'spec_transfers') else 1
            lim = n_dl * c.max_in_memory_download_chunks * c.multipart_chunksize + 2 * c.max_request_concurrency * c.io_chunksize
            run.max_get_held = max(getattr(run, 'max_get_held', 0), lg[0])
            if lg[0] > lim and len(v) < 3:
                v.append(f'step {sched.step}: {lg[0]} bytes received from the service are held in memory awaiting their turn '
                         f'(limit {n_dl} x {c.max_in_memory_download_chunks} parts of {c.multipart_chunksize} + '
                         f'{2 * c.max_request_concurrency} chunks in hand of {c.io_chunksize} = {lim})')
    return sample


def m_limits(run):
    return list(getattr(run, 'limit_violations', []))


def m_download_window(run, cap):
    """C11: tokens of the sliding-window semaphore: newest issued - lowest unreleased < cap."""
    f = []
    issued, released = {}, {}
    for r in run.trace:
        if r['ev'] == 'sem_acquire' and r['sem'] == 'in_memory_download':
            issued.setdefault(r['tag'], []).append(r['token'])
            toks = issued[r['tag']]
            rel = released.get(r['tag'], set())
            lowest = min([x for x in toks if x not in rel], default=None)
            if lowest is not None and max(toks) - lowest >= cap:
                f.append(f'transfer {r["tag"]}: part {max(toks)} requested while part {lowest} is unfinished (window {cap})')
        elif r['ev'] == 'sem_release' and r['sem'] == 'in_memory_download':
            released.setdefault(r['tag'], set()).add(r['token'])
    return f[:3]


def m_window_capacity(run, cap):
    """Across all transfers the sliding-window semaphore never has more tokens outstanding
    (newest issued down to the lowest unreleased, per tag) than its capacity, and is never
    granted at zero capacity."""
    f = []
    nxt, low, rel = {}, {}, {}
    for r in run.trace:
        if r['sem'] != 'in_memory_download' if 'sem' in r else True:
            continue
        tag = r['tag']
        if r['ev'] == 'sem_acquire':
            nxt[tag] = max(nxt.get(tag, 0), r['token'] + 1)
            low.setdefault(tag, 0)
        elif r['ev'] == 'sem_release':
            rel.setdefault(tag, set()).add(r['token'])
            while low.get(tag, 0) in rel[tag]:
                low[tag] += 1
        out = sum(nxt[t] - low.get(t, 0) for t in nxt)
        if out > cap:
            f.append(f'{out} in-memory download chunks outstanding across transfers {sorted(nxt)} '
                     f'(max_in_memory_download_chunks={cap})')
            break
    return f


def m_permits_restored(run):
    f = []
    from harness import names
    m = run.manager
    cfg = getattr(run, 'requested', None) or getattr(run, 'config', None) or m._config
    stages = names.manager_stages(m)
    for nm, role, cap in (('submission', 'sub', cfg.max_submission_queue_size),
                          ('request', 'req', cfg.max_request_queue_size),
                          ('io', 'io', cfg.max_io_queue_size)):
        sem = names.executor_semaphore(stages[role]) if role in stages else None
        val = names.semaphore_free(sem) if sem is not None else None
        if val is None:
            continue                      # not observable (reported as broken instrumentation by the run)
        if val != cap:
            f.append(f'{nm} stage semaphore at {val}, configured {cap}, after all transfers finished')
    for tag, sem in (names.executor_tag_semaphores(stages['req']).items() if 'req' in stages else ()):
        cap = cfg.max_in_memory_upload_chunks if tag.name == 'in_memory_upload' else cfg.max_in_memory_download_chunks
        val = names.semaphore_free(sem)
        if val is not None and val != cap:
            f.append(f'{tag.name} semaphore at {val}, configured {cap}, after all transfers finished')
    return f


# ---------------------------------------------------------------- C09 (system level)
def m_progress_sum(run):
    """For a successful transfer the on_progress values of every subscriber sum to the
    transfer size and the running sum stays within [0, size]."""
    f = []
    labels = transfer_of_label(run)
    sizes = {lb: ts['size'] for lb, ts in zip(sorted(labels, key=lambda x: int(x[1:])), run.spec['transfers'])} \
        if getattr(run, 'spec', None) else {}
    per = {}
    for r in run.trace:
        if r['ev'] == 'on_progress':
            per.setdefault((r['t'], r['sub']), []).append(r['n'])
    for lb, t in labels.items():
        if run.results.get(lb, ('?',))[0] != 'ok' or lb not in sizes:
            continue
        if run.spec['transfers'][int(lb[1:])]['kind'] == 'delete':
            continue
        size = sizes[lb]
        for (tt, sub), vals in per.items():
            if tt != t:
                continue
            tot, lo, hi = 0, 0, 0
            for v in vals:
                tot += v
                lo, hi = min(lo, tot), max(hi, tot)
            if tot != size or lo < 0 or hi > size:
                f.append(f'{lb}/{sub}: progress reports {vals[:12]}{"..." if len(vals) > 12 else ""} sum to {tot} '
                         f'(running sum in [{lo}, {hi}]) for a successful transfer of {size} bytes')
    return f


# ---------------------------------------------------------------- C17 (system level)
def m_first_failure_kept(run):
    """The first failure or cancellation recorded for a transfer is the one kept: after
    it, the stored exception changes only through set_result (success of the final
    step) or through the USER's set_exception on the finished future."""
    f = []
    first = {}          # t -> id of the first stored exception
    for r in run.trace:
        t = r.get('t')
        if r['ev'] == 'set_result':
            first.pop(t, None)
        elif r['ev'] in ('set_exception', 'cancel_applied'):
            stored = r.get('stored')
            sid = stored if isinstance(stored, int) else (stored or {}).get('id') if stored is not None else None
            if sid is None:
                continue
            if t not in first:
                first[t] = sid
            elif sid != first[t]:
                by_user = r['ev'] == 'set_exception' and r.get('override') and r.get('via_future')
                if not by_user:
                    what = r.get('exc') or stored
                    f.append(f't{t}: the stored exception was replaced by {what} (recorded by thread {r["thread"]}, '
                             f'{r["ev"]}, override={r.get("override")}) although an earlier failure was already recorded')
                first[t] = sid
    return f


# ---------------------------------------------------------------- C18
def m_barrier(run):
    f = []
    idx = None
    for i, r in enumerate(run.trace):
        if r['ev'] == 'shutdown_return':
            idx = i
    if idx is None:
        return f
    submitted_before = [r['t'] for i, r in enumerate(run.trace) if r['ev'] == 'user_submitted' and i < idx]
    ev_set = {r['t'] for i, r in enumerate(run.trace) if r['ev'] == 'event_set' and i < idx}
    for t in submitted_before:
        if t not in ev_set:
            f.append(f'transfer {t} was not done when shutdown returned')
    # A DIFFERENT user thread that is inside its own future.cancel() when shutdown returns still owes the
    # announce of the transfer it cancelled while not-started (cancel() announces synchronously in the
    # caller's thread): what that thread does until its cancel() returns is outside C18's quantifier (the
    # model's hypothesis user_quiet; unconditional form refuted in props/C18.v) and is not held against
    # the barrier.
    in_cancel = {}
    for i, r in enumerate(run.trace):
        if r['ev'] == 'cancel_call':
            in_cancel[r['thread']] = in_cancel.get(r['thread'], 0) + 1
        elif r['ev'] == 'cancel_return':
            in_cancel[r['thread']] = in_cancel.get(r['thread'], 0) - 1
        if i <= idx:
            continue
        if in_cancel.get(r['thread'], 0) > 0 and r['thread'] != 'user':
            continue
        if r['ev'].startswith('s3_') or r['ev'] in ('fs', 'on_done', 'on_progress', 'on_queued', 'callback_begin'):
            f.append(f'{r["ev"]} {r.get("op", r.get("fn", ""))} happened after shutdown returned')
            break
    return f


def m_shared_args_untouched(run):
    """A dict of extra arguments the caller handed to several transfers is the caller's: unchanged."""
    now, was = getattr(run, 'shared_extra', (None, None))
    if was is not None and now != was:
        return [f'the extra_args dict the caller passed to every transfer was changed from {was} to {now}']
    return []


def m_isolation(run):
    """C18: transfers not targeted by a fault/cancel succeed with correct bytes."""
    f = []
    victims = set(run.spec.get('victims', []))
    for lb in transfer_of_label(run):
        if lb in victims:
            continue
        res = run.results.get(lb)
        if res is None:
            continue
        if res[0] != 'ok':
            f.append(f'{lb}: not targeted by any fault or cancel but finished with {res[1]}: {res[2]}')
        elif not effect_ok(run, lb):
            f.append(f'{lb}: not targeted by any fault or cancel but its bytes are wrong')
    return f
