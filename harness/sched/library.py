"""Scenario specs (JSON-able dicts) -> one scheduled run of the real manager.

spec = {
  'transfers': [ {kind, src|dst, size, thr?, subs: [...], extra...}, ... ],
  'cfg': {TransferConfig kwargs},
  'chooser': {'kind': 'random'|'pct'|'first'|'replay', 'seed': n, 'choices': [...]},
  's3_fault': {'idx': request index, 'when': 'before'|'after'} | None,
  'shared_extra_args': {..} one caller-owned dict handed to EVERY transfer | transfers[i]['extra_args']: {..},
  'get_fault': {'range_idx': i, 'attempts': n, 'after': k bytes, 'exc': 'timeout'|'fatal'|'oserror',
                'stall_range_idx': j (that range's body delivers nothing until every other thread is stuck)} | None,
  'submit_fault': {'executor': 0 (request) | 2 (io), 'nth': n} (that executor's n-th submit raises RuntimeError),
  'track_get': bool (count the bytes handed out by GetObject bodies that are still referenced; C11),
  'fs_fault': {'op': 'open'|'write'|'close'|'rename', 'nth': i} | None,
  'read_fault': {'nth': i} | None,                 (source stream read raises)
  'cancel': {'how': 'future'|'shutdown'|'exit_exc'|'exit_kbi'|'result_kbi'|'controller', 'at': step, 'msg': str} | None,
  'fresh_after': bool    (submit one more small upload after the others finished, same manager)
}
"""
import io
import os
import socket

from harness.sched import core, scen
from harness import fakes3


def make_chooser(c):
    c = c or {'kind': 'first'}
    k = c.get('kind', 'first')
    if k == 'random':
        return core.RandomChooser(c.get('seed', 0), c.get('stick', 0.0))
    if k == 'pct':
        return core.PCTChooser(c.get('seed', 0), c.get('depth', 3), c.get('horizon', 300))
    if k == 'replay':
        return core.ReplayChooser(c.get('choices', []))
    if k == 'phased':
        return core.PhasedChooser(c['phases'], make_chooser(c.get('then')))
    return core.FirstChooser()


def payload(n, salt=0):
    return bytes((i * 7 + salt * 13 + 1) % 251 for i in range(n))


class FaultyReader:
    """A stream source whose nth read raises."""

    def __init__(self, inner, nth, seekable):
        self.inner, self.nth, self.n = inner, nth, 0
        self._seekable = seekable
        if seekable:
            self.seek = inner.seek
            self.tell = inner.tell

    def read(self, *a):
        self.n += 1
        if self.nth is not None and self.n == self.nth:
            raise IOError('injected source read fault')
        return self.inner.read(*a)


class CountingReader:
    """Counts the bytes handed out by a user stream (what the library holds in memory
    is what it read minus what it has finished sending)."""

    def __init__(self, inner, counter):
        self.inner, self.counter = inner, counter
        if hasattr(inner, 'seek') and hasattr(inner, 'tell'):
            self.seek = inner.seek
            self.tell = inner.tell

    def read(self, *a):
        d = self.inner.read(*a)
        self.counter[0] += len(d)
        return d


class UserBoom(Exception):
    pass


def run(spec, keep_tmp=False, sample=None):
    from s3transfer import utils
    cfgkw = dict(multipart_threshold=4, multipart_chunksize=4, io_chunksize=3)
    cfgkw.update(spec.get('cfg') or {})
    transfers = spec['transfers']
    cancel = spec.get('cancel')
    s3f, getf, fsf, readf = spec.get('s3_fault'), spec.get('get_fault'), spec.get('fs_fault'), spec.get('read_fault')
    fs_count = {}

    fs_list = fsf if isinstance(fsf, list) else ([fsf] if fsf else [])

    def fs_fault(name, kw):
        if kw.get('mode') == 'rb' or not any(f['op'] == name for f in fs_list):
            return None
        fs_count[name] = fs_count.get(name, 0) + 1
        for f in fs_list:
            if f['op'] == name and (f['nth'] == 'all' or fs_count[name] == f['nth']):
                return OSError(f'injected fs fault {name}')
        return None

    def scenario(env):
        client = env.client
        if s3f:
            seen = {}

            s3_list = s3f if isinstance(s3f, list) else [s3f]

            def mkexc(f, tag):
                if f.get('exc') == 'kbi':
                    return KeyboardInterrupt()
                return fakes3.FakeFault(tag)

            def fault(rec, when):
                for f in s3_list:
                    if 'key' in f:
                        # the nth request (0-based) for that destination key
                        if rec['kwargs'].get('Key') != f['key']:
                            continue
                        if when == 'before':
                            seen.setdefault(rec['idx'], len(seen))
                        n = seen.get(rec['idx'])
                        if n == f['nth'] and when == f['when']:
                            return mkexc(f, f's3:{f["key"]}:{n}:{when}')
                        continue
                    if rec['idx'] == f['idx'] and when == f['when']:
                        return mkexc(f, f's3:{rec["idx"]}:{when}')
                return None
            client.fault = fault
        if spec.get('track_get'):
            client.track_get = [0]
        if getf:
            stall = getf.get('stall_range_idx')

            def get_script(kw, att):
                seen = get_script.ranges.setdefault(kw.get('Range'), len(get_script.ranges))
                if stall is not None and seen == stall:
                    # the slowest part: its body delivers nothing until no other thread can run
                    def on_read(state=[False]):
                        if not state[0]:
                            state[0] = True
                            me = env.sched.me()
                            env.sched.block_until(lambda: env.sched.others_idle(me), 'slow part body')
                    return {'read_sizes': getf.get('read_sizes'), 'on_read': on_read}
                if seen == getf['range_idx'] and att < getf['attempts']:
                    exc = socket.timeout('injected') if getf['exc'] == 'timeout' else \
                        PermissionError('injected (not a retryable stream error)') if getf['exc'] == 'oserror' else \
                        fakes3.FakeFault('stream')
                    return {'fail_after': getf['after'], 'exc': exc, 'read_sizes': getf.get('read_sizes')}
                return {'read_sizes': getf.get('read_sizes')}
            get_script.ranges = {}
            client.get_script = get_script
        m = env.manager
        run_ = env.run
        run_.expect = {}
        run_.dests = {}
        run_.sub_names, run_.raising_queued, run_.provided_size = {}, {}, {}
        run_.spec_preexisting, run_.listing_at_result = {}, {}
        run_.stream_bytes_read = [0]
        run_.spec_transfers = transfers
        ex = env.execs
        cfg = getattr(run_, 'requested', None) or env.config     # the limits the user asked for
        if len(ex) == 3:
            run_.executors = [
                ('request', ex[0], cfg.max_request_queue_size + cfg.max_in_memory_upload_chunks
                 + cfg.max_in_memory_download_chunks),
                ('submission', ex[1], cfg.max_submission_queue_size),
                ('io', ex[2], cfg.max_io_queue_size)]

        shared_extra = dict(spec['shared_extra_args']) if spec.get('shared_extra_args') is not None else None
        run_.shared_extra = (shared_extra, dict(shared_extra) if shared_extra is not None else None)

        def xa(ts):
            """extra_args of one transfer: its own dict, or THE SAME caller-owned dict for every
            transfer of the run (spec['shared_extra_args']) -- the caller may reuse its dict."""
            if ts.get('extra_args') is not None:
                return {'extra_args': dict(ts['extra_args'])}
            if shared_extra is not None:
                return {'extra_args': shared_extra}
            return {}

        def submit(i, ts):
            label = f't{i}'
            data = payload(ts['size'], i)
            subs = [env.sub(name=f's{i}.{j}', **sd) for j, sd in enumerate(ts.get('subs', [{}]))]
            run_.sub_names[label] = [x.name for x in subs]
            run_.sub_has = getattr(run_, 'sub_has', {})
            run_.sub_has[label] = {x.name: set(sd['only']) for x, sd in zip(subs, ts.get('subs', [{}])) if sd.get('only') is not None}
            run_.raising_queued[label] = {x.name for x in subs if 'queued' in x.raise_in}
            run_.provided_size[label] = any(sd.get('provide_size') is not None for sd in ts.get('subs', [{}]))
            run_.spec_preexisting[label] = bool(ts.get('preexisting'))
            kind = ts['kind']
            if kind == 'upload':
                src_kind = ts.get('src', 'path')
                nth = readf['nth'] if (readf and readf.get('t', 0) == i) else None
                if src_kind == 'path':
                    p = os.path.join(env.tmpdir, f'src{i}')
                    open(p, 'wb').write(data)
                    src = p
                elif src_kind == 'seekable':
                    src = io.BytesIO(b'xy' + data)
                    src.seek(2)
                    if nth:
                        src = FaultyReader(src, nth, True)
                elif src_kind == 'seekable_close_true':
                    # a user file object whose close() returns a (truthy) value: still just a file object
                    class ClosesTrue(io.BytesIO):
                        def close(self_):
                            super().close()
                            return True
                    src = ClosesTrue(b'xy' + data)
                    src.seek(2)
                else:
                    src = fakes3.NonSeekableReader(data, ts.get('read_sizes'))
                    if nth:
                        src = FaultyReader(src, nth, False)
                if src_kind != 'path' and (src_kind == 'nonseekable' or ts['size'] >= env.config.multipart_threshold):
                    src = CountingReader(src, run_.stream_bytes_read)
                f = m.upload(src, 'b', f'k{i}', subscribers=subs, **xa(ts))
                run_.expect[label] = ('object', ('b', f'k{i}'), data)
            elif kind == 'download':
                client.objects[('b', f'k{i}')] = data
                dst_kind = ts.get('dst', 'path')
                if dst_kind == 'path':
                    p = os.path.join(env.tmpdir, f'dst{i}')
                    if ts.get('preexisting'):
                        open(p, 'wb').write(b'OLD-CONTENT')
                    dst = p
                elif dst_kind == 'seekable':
                    dst = io.BytesIO()
                else:
                    dst = fakes3.NonSeekableWriter()
                run_.dests[label] = (dst_kind, dst)
                f = m.download('b', f'k{i}', dst, subscribers=subs, **xa(ts))
                run_.expect[label] = ('dest', dst_kind, data)
            elif kind == 'copy':
                client.objects[('sb', f'sk{i}')] = data
                f = m.copy({'Bucket': 'sb', 'Key': f'sk{i}'}, 'b', f'k{i}', subscribers=subs, **xa(ts))
                run_.expect[label] = ('object', ('b', f'k{i}'), data)
            else:
                client.objects[('b', f'k{i}')] = data
                f = m.delete('b', f'k{i}', subscribers=subs, **xa(ts))
                run_.expect[label] = ('deleted', ('b', f'k{i}'), None)
            env.futures[label] = f
            env.I.log('user_submitted', label=label, t=f.meta.transfer_id, tkind=kind)
            return label, f

        me_t = env.sched.me()
        how = cancel['how'] if cancel else None
        at = cancel.get('at', 0) if cancel else 0
        if how in ('result_kbi', 'exit_wait_kbi'):
            env.sched.interrupt_at = (at, 'user')
        try:
            if how in ('exit_exc', 'exit_kbi'):
                with m:
                    fs = [submit(i, ts) for i, ts in enumerate(transfers)]
                    env.sched.block_until(lambda: env.sched.step >= at or env.sched.others_idle(me_t), 'user think time')
                    env.I.log('user_raises', how=how)
                    raise (UserBoom('boom') if how == 'exit_exc' else KeyboardInterrupt())
            elif how == 'exit_nowait':
                with m:
                    fs = [submit(i, ts) for i, ts in enumerate(transfers)]
                    env.I.log('user_leaves_with_block')
            elif how == 'exit_wait_kbi':
                with m:
                    fs = [submit(i, ts) for i, ts in enumerate(transfers)]
                    env.I.log('user_leaves_with_block')
            elif how == 'shutdown':
                fs = [submit(i, ts) for i, ts in enumerate(transfers)]
                env.sched.block_until(lambda: env.sched.step >= at or env.sched.others_idle(me_t), 'user think time')
                env.I.log('user_shutdown_cancel')
                m.shutdown(cancel=True, cancel_msg=cancel.get('msg', 'stop now'))
            else:
                with m:
                    fs = [submit(i, ts) for i, ts in enumerate(transfers)]
                    for label, f in fs:
                        env.future_result(label, f)
                        run_.listing_at_result[label] = sorted(os.listdir(env.tmpdir))
                    if spec.get('fresh_after'):
                        label, f = submit(len(transfers), {'kind': 'upload', 'size': 5, 'src': 'path'})
                        env.future_result(label, f)
        except UserBoom:
            env.I.log('user_caught', what='UserBoom')
        except KeyboardInterrupt:
            env.I.log('user_caught', what='KeyboardInterrupt')
        # outcomes of everything still unread
        for label, f in list(env.futures.items()):
            if label not in run_.results:
                env.future_result(label, f)
        env.I.log('user_done')

    cancel_at = cancel_how = None
    if cancel and cancel['how'] in ('future', 'controller'):
        cancel_at, cancel_how = cancel['at'], cancel['how']

    from harness.props.c14 import scaled_adjuster
    from s3transfer import upload as _upload
    live = []

    class TrackedBytesIO(io.BytesIO):
        def __init__(self, *a, **k):
            super().__init__(*a, **k)
            self.size0 = len(a[0]) if a else 0
            live.append(self)
    old_bytesio = _upload.BytesIO
    _upload.BytesIO = TrackedBytesIO
    try:
        return _run(spec, scenario, cfgkw, fs_fault if fsf else None, cancel_at, cancel_how, keep_tmp,
                    sample, live)
    finally:
        _upload.BytesIO = old_bytesio


def _run(spec, scenario, cfgkw, fs_fault, cancel_at, cancel_how, keep_tmp, sample, live):
    from s3transfer import utils
    from harness.props.c14 import scaled_adjuster

    def sample_fs(r, s):
        r.live_buffers = live
        if sample:
            sample(r, s)
    import contextlib

    @contextlib.contextmanager
    def scaled_aggregator(thr):
        """The upload progress aggregator batches reports below 256 KiB; scheduled runs move a
        few bytes, so the threshold is scaled down (its default argument) for the run."""
        if thr is None:
            yield
            return
        from s3transfer import upload
        f = upload.AggregatedProgressCallback.__init__
        saved = f.__defaults__
        if not saved or len(saved) != 1:
            yield                      # the signature changed: leave it alone
            return
        f.__defaults__ = (thr,)
        try:
            yield
        finally:
            f.__defaults__ = saved
    from harness.sched import instr as _instr
    core.SUBMIT_YIELD[0] = bool(spec.get('submit_yield'))
    core.SUBMIT_FAULT[0] = spec.get('submit_fault')
    _instr.PIN_TRACKING[0] = bool(sample)
    _instr.STATE_WRITE_YIELD[0] = bool(spec.get('state_write_yield'))
    scen.PROGRESS_YIELD[0] = bool(spec.get('progress_yield'))
    scen.QUEUED_YIELD[0] = bool(spec.get('queued_yield'))
    with scaled_adjuster(utils, 1, 1000, 1000), scaled_aggregator(spec.get('agg_threshold')):
        r = scen.run_scenario(scenario, chooser=make_chooser(spec.get('chooser')), config_kwargs=cfgkw,
                              fs_fault=fs_fault, cancel_at=cancel_at,
                              cancel_how=cancel_how or 'future', keep_tmp=keep_tmp,
                              sample_fs=sample_fs if sample else None,
                              max_steps=spec.get('max_steps', 60000), collect=collect_dests,
                              nonthreaded=bool(spec.get('nonthreaded')), checksum=spec.get('checksum', 'when_required'))
    r.spec = spec
    return r


def collect_dests(run_, env):
    """Read destination contents before the temp dir is removed."""
    out = {}
    for label, (kind, dst) in getattr(run_, 'dests', {}).items():
        if kind == 'path':
            out[label] = open(dst, 'rb').read() if os.path.exists(dst) else None
        else:
            out[label] = dst.getvalue()
    run_.dest_bytes = out
    run_.final_listing = sorted(os.listdir(env.tmpdir))
