"""Raw scheduler log  ->  event lines of the extracted Sys model (ocaml/bin/sys).

The translation is a projection: it renames (thread -> acting task, callback
function -> small id, request class -> kind) and drops records the model has no
event for.  It never repairs an order: the events reach the model in log order.
"""
from harness.common import hx

KIND = {
    'UploadSubmissionTask': 0, 'DownloadSubmissionTask': 0, 'CopySubmissionTask': 0,
    'DeleteSubmissionTask': 0,
    'CreateMultipartUploadTask': 1,
    'UploadPartTask': 2, 'CopyPartTask': 2,
    'CompleteMultipartUploadTask': 3,
    'PutObjectTask': 4, 'CopyObjectTask': 4, 'DeleteObjectTask': 4,
    'GetObjectTask': 5, 'ImmediatelyWriteIOGetObjectTask': 5,
    'IOWriteTask': 6, 'IOStreamingWriteTask': 6,
    'IORenameFileTask': 7, 'IOCloseTask': 7, 'CompleteDownloadNOOPTask': 7,
}
OP = {'CreateMultipartUpload': 'create', 'UploadPart': 'part', 'UploadPartCopy': 'part',
      'CompleteMultipartUpload': 'complete', 'AbortMultipartUpload': 'abort',
      'HeadObject': 'head', 'PutObject': 'data', 'CopyObject': 'data', 'DeleteObject': 'data',
      'GetObject': 'get'}
SEM = {'sub': 0, 'req': 1, 'io': 2, 'in_memory_upload': 3, 'in_memory_download': 4}


class Translator:
    def __init__(self, cfg):
        self.cfg = cfg
        self.lines = []       # event lines
        self.src = []         # raw record index of each line
        self.stack = {}       # thread -> [task ids running on it]
        self.user_ids = {}
        self.seen_t = set()
        self.known_tasks = set()
        self.fn_ids = {}
        self.pending_submit = {}   # thread -> task being submitted
        self.last_ended = {}       # thread -> task that just ended there
        self.cb_ctx = {}           # thread -> [t] while running callbacks of t
        self.uids = {}
        self.shutdown_begun = False
        self.exc_ids = {}

    def init_line(self):
        c = self.cfg
        return 'init ' + ' '.join(hx(x) for x in [
            c.max_submission_concurrency, c.max_request_concurrency, 1,
            c.max_submission_queue_size, c.max_request_queue_size, c.max_io_queue_size,
            c.max_in_memory_upload_chunks, c.max_in_memory_download_chunks])

    def actor(self, thread):
        st = self.stack.get(thread)
        if st:
            return st[-1]
        if thread not in self.user_ids:
            self.user_ids[thread] = -1 - len(self.user_ids)
        return self.user_ids[thread]

    def fn_id(self, name):
        if name not in self.fn_ids:
            self.fn_ids[name] = len(self.fn_ids) + 1
        return self.fn_ids[name]

    def uid(self, u):
        if u is None:
            return 0
        if u not in self.uids:
            self.uids[u] = len(self.uids) + 1
        return self.uids[u]

    def emit(self, i, name, *args):
        out = [name]
        for a in args:
            if isinstance(a, bool):
                out.append('1' if a else '0')
            elif isinstance(a, int):
                out.append(hx(a))
            else:
                out.append(str(a))
        self.lines.append(' '.join(out))
        self.src.append(i)

    def ensure_transfer(self, i, a, t):
        if t not in self.seen_t:
            self.seen_t.add(t)
            self.emit(i, 'ENewTransfer', a if a < 0 else -1, t)

    def translate(self, trace):
        for i, r in enumerate(trace):
            self.one(i, r)
        return self.lines

    def one(self, i, r):
        ev, th = r['ev'], r['thread']
        a = self.actor(th)
        t = r.get('t')
        if ev == 'add_done_callback':
            self.ensure_transfer(i, a, t)
            self.emit(i, 'EAddCallback', a, t, self.fn_id(r['fn']))
        elif ev == 'add_failure_cleanup':
            self.emit(i, 'EAddCleanup', a, t, self.fn_id(r['fn']))
        elif ev == 'stage_submit_call':
            k = r['task']
            self.pending_submit[th] = k
            if r['stage'] == 'sub':
                self.ensure_transfer(i, a, t)
                self.known_tasks.add(k)
                self.emit(i, 'ESubmit', a, k, t, 'sub', False, '-', 0)
        elif ev == 'submit_call':
            k = r['task']
            self.known_tasks.add(k)
            deps = ','.join(hx(d) for d in r['deps']) or '-'
            self.emit(i, 'ESubmit', a, k, t, r['stage'], r['final'], deps, KIND[r['cls']])
        elif ev == 'sem_acquire':
            k = self.pending_submit.get(th)
            self.emit(i, 'EAcquire', a, k, SEM[r['sem']])
        elif ev == 'enqueued':
            self.emit(i, 'EEnqueue', a, r['task'])
        elif ev == 'assoc':
            self.emit(i, 'EAssoc', a, r['task'])
        elif ev == 'task_start':
            k = r['task']
            if k not in self.known_tasks:
                # called inline by the acting task (immediate IO write, final task as done callback)
                self.known_tasks.add(k)
                self.emit(i, 'ESubmit', a, k, t, 'inline', r['final'], '-', KIND[r['cls']])
            self.emit(i, 'ETaskStart', k)
            self.stack.setdefault(th, []).append(k)
        elif ev == 'deps_done':
            self.emit(i, 'EDepsDone', r['task'])
        elif ev == 'done_check':
            self.emit(i, 'EDoneCheck', r['task'], r['done'])
        elif ev == 'main_begin':
            self.emit(i, 'EMainBegin', r['task'])
        elif ev == 'main_end':
            self.emit(i, 'EMainEnd', r['task'], r['ok'])
        elif ev == 'set_result':
            self.emit(i, 'ESetResult', a)
        elif ev == 'set_exception':
            self.emit(i, 'ESetException', a, t, r['exc']['id'], r['override'])
        elif ev == 'cancel_applied':
            e = r['stored']['id'] if r['stored'] else 0
            self.emit(i, 'ECancel', a, t, e)
        elif ev == 'status_transition':
            self.emit(i, 'EStatus', a, r['to'] == 'running', r['ok'])
        elif ev == 'on_queued':
            self.emit(i, 'EOnQueued', a)
        elif ev == 'on_progress':
            self.emit(i, 'EOnProgress', a, t)
        elif ev == 'wait_all_done':
            self.emit(i, 'EWaitAll', r['task'])
        elif ev == 'announce_begin':
            self.emit(i, 'EAnnBegin', a, t)
        elif ev == 'run_begin':
            self.cb_ctx.setdefault(th, []).append((t, r['which']))
            self.emit(i, 'ECleanupsBegin' if r['which'] == 'failure_cleanups' else 'ECallbacksBegin', a, t)
        elif ev == 'callback_begin':
            which = r.get('which') or self.cb_ctx[th][-1][1]
            self.emit(i, 'ECleanup' if which == 'failure_cleanups' else 'ECallback', a, t, self.fn_id(r['fn']))
        elif ev == 'run_end':
            if self.cb_ctx.get(th):
                self.cb_ctx[th].pop()
            self.emit(i, 'ECleanupsEnd' if r['which'] == 'failure_cleanups' else 'ECallbacksEnd', a, t)
        elif ev == 'event_set':
            self.emit(i, 'EEventSet', a, t)
        elif ev == 'announce_end':
            self.emit(i, 'EAnnEnd', a, t)
        elif ev == 'task_end':
            k = r['task']
            self.emit(i, 'ETaskEnd', k)
            st = self.stack.get(th, [])
            if st and st[-1] == k:
                st.pop()
            self.last_ended[th] = k
        elif ev == 'sem_release':
            self.emit(i, 'ERelease', self.last_ended.get(th, -1))
        elif ev == 'dissoc':
            self.emit(i, 'EDissoc', r['task'])
        elif ev == 'countdown':
            op = {'increment': 0, 'decrement': 1, 'finalize': 2}[r['op']]
            st = self.stack.get(th, [])
            tt = self.task_t.get(st[-1]) if st else None
            self.emit(i, 'ECount', a, tt if tt is not None else 0, op)
        elif ev == 's3_begin':
            ctx = self.cb_ctx.get(th)
            if ctx:
                tt = ctx[-1][0]
            else:
                st = self.stack.get(th, [])
                tt = self.task_t.get(st[-1], 0) if st else 0
            self.emit(i, 'ES3Begin', a, r['idx'], OP[r['op']], tt, self.uid(r['upload']))
        elif ev == 's3_effect':
            self.emit(i, 'ES3Effect', r['idx'], self.uid(r['upload']))
        elif ev == 's3_end':
            self.emit(i, 'ES3End', r['idx'], r['outcome'] == 'ok')
        elif ev in ('result_return', 'result_raise'):
            if a < 0 and not (ev == 'result_raise' and r['exc']['type'] == 'KeyboardInterrupt'):
                self.emit(i, 'EResult', a, t, ev == 'result_raise')
        elif ev == 'fs':
            if r.get('mode') == 'rb' or not str(r.get('path', r.get('src', ''))).endswith('TEMP'):
                return      # reads of upload sources and special files are not the model's business
            ctx = self.cb_ctx.get(th)
            if ctx:
                tt = ctx[-1][0]
            else:
                st = self.stack.get(th, [])
                tt = self.task_t.get(st[-1], 0) if st else 0
            self.emit(i, 'EFs', a, tt, r['op'])
        elif ev == 'shutdown_begin':
            self.emit(i, 'EShutdownBegin')
        elif ev == 'executor_shutdown_call':
            self.emit(i, 'EStageShutdown', r['stage'])
        elif ev == 'executor_shutdown_return':
            self.emit(i, 'EStageJoined', r['stage'])
        elif ev == 'shutdown_return':
            self.emit(i, 'EShutdownReturn')

    # task -> transfer map is filled from the raw trace up front
    task_t = {}


def translate(trace, cfg):
    tr = Translator(cfg)
    tr.task_t = {}
    for r in trace:
        if 'task' in r and r.get('t') is not None:
            tr.task_t.setdefault(r['task'], r['t'])
    lines = tr.translate(trace)
    return tr, [tr.init_line()] + lines + ['dump']
