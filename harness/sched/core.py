"""Cooperative deterministic scheduler (DESIGN.md 3.3).

Real OS threads, but exactly one managed thread runs at a time: every managed
thread owns a baton (a real semaphore) and only runs between being handed the
baton and its next yield point / blocking wait / exit.  The controlling loop
(`Sched.run`) picks the next runnable thread with a *chooser* -- random walk,
PCT-style priorities, or an explicit replay list -- so a run is a deterministic
function of (scenario, chooser seed).  A state with unfinished threads and none
runnable is a deadlock; a step budget catches livelock.

The shim namespace (`Shim`) offers Lock/RLock/Event/Condition/Semaphore with
`threading`'s API; s3transfer modules get it in place of their `threading`
attribute.  `CoopExecutor` has the FIFO / <= n workers / callbacks-in-the-
completing-worker semantics of concurrent.futures.ThreadPoolExecutor.
"""
import threading as _t
import random
import traceback


SUBMIT_YIELD = [False]      # set per run (spec['submit_yield']): ThreadPoolExecutor.submit is a scheduling point
SUBMIT_FAULT = [None]       # set per run (spec['submit_fault'] = {'executor': index in creation order, 'nth': n}):
                            # that executor's n-th submit raises what ThreadPoolExecutor.submit raises when the
                            # interpreter cannot start another worker thread


class Deadlock(Exception):
    pass


class Livelock(Exception):
    pass


class Killed(BaseException):
    """Raised inside managed threads to unwind them when a run is torn down."""


class SThread:
    def __init__(self, sched, fn, name, role):
        self.sched = sched
        self.fn = fn
        self.name = name
        self.role = role
        self.baton = _t.Semaphore(0)
        self.finished = False
        self.wait_cond = None       # callable -> bool when blocked
        self.wait_label = None
        self.exc = None
        self.urgent = False
        self.priority = 0
        self.real = _t.Thread(target=self._body, name=name, daemon=True)

    def _body(self):
        self.baton.acquire()
        self.sched._tls.me = self
        try:
            if self.sched.killing:
                raise Killed()
            self.fn()
        except Killed:
            pass
        except BaseException as e:      # noqa: recorded, surfaced by the scenario
            self.exc = e
            self.tb = traceback.format_exc()
        finally:
            self.finished = True
            self.sched._ctrl.release()


class Sched:
    def __init__(self, chooser=None, max_steps=200000, trace=None):
        self.threads = []
        self._ctrl = _t.Semaphore(0)
        self._tls = _t.local()
        self.step = 0
        self.max_steps = max_steps
        self.chooser = chooser or FirstChooser()
        self.choices = []           # index chosen at every step (replay)
        self.killing = False
        self.trace = trace if trace is not None else []
        self.on_step = None         # callable(sched) after every step (sampling)
        self.names = {}

    # ---- managed thread API ------------------------------------------------
    def me(self):
        return getattr(self._tls, 'me', None)

    def spawn(self, fn, name, role='worker'):
        n = self.names.get(name, 0)
        self.names[name] = n + 1
        if n:
            name = f'{name}#{n}'
        t = SThread(self, fn, name, role)
        self.threads.append(t)
        t.real.start()
        return t

    def log(self, kind, **kw):
        me = self.me()
        rec = {'step': self.step, 'thread': me.name if me else 'main', 'ev': kind}
        rec.update(kw)
        self.trace.append(rec)
        return rec

    def yield_point(self, label=None):
        me = self.me()
        if me is None:
            return
        if self.killing:
            raise Killed()
        me.wait_cond = None
        me.wait_label = label
        self._ctrl.release()
        me.baton.acquire()
        if self.killing:
            raise Killed()

    def block_until(self, cond, label):
        """Not runnable until cond() holds (evaluated by the scheduler)."""
        me = self.me()
        if me is None:
            if not cond():
                raise RuntimeError(f'unmanaged thread would block on {label}')
            return
        if self.killing:
            raise Killed()
        me.wait_cond = cond
        me.wait_label = label
        self._ctrl.release()
        me.baton.acquire()
        me.wait_cond = None
        if self.killing:
            raise Killed()

    def others_idle(self, me):
        """No other managed thread can run (used for 'think time' waits that must
        not outlive the activity they are timed against)."""
        if getattr(self, '_in_idle', False):
            return False
        self._in_idle = True
        try:
            for t in self.threads:
                if t is me or t.finished:
                    continue
                if t.wait_cond is None or t.wait_cond():
                    return False
            return True
        finally:
            self._in_idle = False

    # ---- controller ----------------------------------------------------------
    def runnable(self):
        out = []
        for t in self.threads:
            if t.finished:
                continue
            if t.wait_cond is None or t.wait_cond():
                out.append(t)
        return out

    def run(self):
        """Run until every managed thread has finished."""
        try:
            while True:
                live = [t for t in self.threads if not t.finished]
                if not live:
                    return
                r = self.runnable()
                if not r:
                    desc = '; '.join(f'{t.name} blocked on {t.wait_label}' for t in live)
                    raise Deadlock(desc)
                if self.step >= self.max_steps:
                    raise Livelock(f'{self.max_steps} steps')
                urgent = [t for t in r if t.urgent]
                if urgent:
                    idx = r.index(urgent[0])
                else:
                    idx = self.chooser.choose(self, r)
                self.choices.append(idx)
                t = r[idx]
                self.step += 1
                t.baton.release()
                self._ctrl.acquire()
                if self.on_step:
                    self.on_step(self)
        finally:
            self.kill()

    def kill(self):
        """Unwind every unfinished managed thread."""
        self.killing = True
        for t in self.threads:
            if not t.finished:
                t.baton.release()
        for t in self.threads:
            t.real.join(timeout=5)


# ---- choosers ---------------------------------------------------------------

class FirstChooser:
    """Run-to-block: always the oldest runnable thread."""

    def choose(self, sched, runnable):
        return 0


class RandomChooser:
    def __init__(self, seed, stickiness=0.0):
        self.rng = random.Random(seed)
        self.stick = stickiness
        self.last = None

    def choose(self, sched, runnable):
        if self.last in runnable and self.rng.random() < self.stick:
            return runnable.index(self.last)
        i = self.rng.randrange(len(runnable))
        self.last = runnable[i]
        return i


class PCTChooser:
    """Priority-based: each thread gets a random priority at first sight; at d
    random change points the running thread's priority drops below all others."""

    def __init__(self, seed, depth=3, horizon=400):
        self.rng = random.Random(seed)
        self.prio = {}
        self.change = sorted(self.rng.randrange(1, horizon) for _ in range(depth))
        self.low = 0

    def choose(self, sched, runnable):
        for t in runnable:
            if t.name not in self.prio:
                self.prio[t.name] = self.rng.random() + 1.0
        best = max(runnable, key=lambda t: self.prio[t.name])
        if self.change and sched.step >= self.change[0]:
            self.change.pop(0)
            self.low -= 1
            self.prio[best.name] = self.low
            best = max(runnable, key=lambda t: self.prio[t.name])
        return runnable.index(best)


class ReplayChooser:
    def __init__(self, choices, then=None):
        self.choices = list(choices)
        self.then = then or FirstChooser()
        self.i = 0

    def choose(self, sched, runnable):
        if self.i < len(self.choices):
            c = self.choices[self.i]
            self.i += 1
            return min(c, len(runnable) - 1)
        return self.then.choose(sched, runnable)


class PhasedChooser:
    """A directed schedule: phases [{'run': thread-name prefix, 'until': {field: value, ...} | None,
    'times': n, 'by': prefix}].  In a phase only threads with the prefix run (when none of them can,
    somebody else is let go, chosen by the fallback chooser); the phase ends when a thread whose name
    starts with `by` (default: `run`) has logged `times` records matching `until`, or -- with no
    `until` -- when none of the phase's threads can run any more.  After the last phase the fallback
    chooser decides."""

    def __init__(self, phases, then=None):
        self.phases = list(phases)
        self.then = then or FirstChooser()
        self.i = 0
        self.seen = 0
        self.count = 0

    def _advance(self):
        self.i += 1
        self.count = 0

    def choose(self, sched, runnable):
        while self.i < len(self.phases):
            ph = self.phases[self.i]
            until = ph.get('until')
            if until:
                by = ph.get('by', ph['run'])
                moved = False
                while self.seen < len(sched.trace):
                    r = sched.trace[self.seen]
                    self.seen += 1
                    if r['thread'].startswith(by) and all(r.get(k) == v for k, v in until.items()):
                        self.count += 1
                        if self.count >= ph.get('times', 1):
                            self._advance()
                            moved = True
                            break
                if moved:
                    continue
            else:
                self.seen = len(sched.trace)
            cands = [i for i, t in enumerate(runnable) if t.name.startswith(ph['run'])]
            if cands:
                return cands[0]
            if not until:
                self._advance()
                continue
            return self.then.choose(sched, runnable)
        return self.then.choose(sched, runnable)


# ---- shims -------------------------------------------------------------------

class Shim:
    """A stand-in for the `threading` module bound to one scheduler."""

    def __init__(self, sched, post_yield=False):
        """post_yield: locks created by this shim yield right after release() (so that
        reads hoisted out of a critical section are exposed to other threads); off by
        default because harnesses that log a record after a wrapped call returns need
        'critical section + record' to be one scheduling step."""
        self.sched = sched
        s = sched
        default_post_yield = post_yield

        class Lock:
            def __init__(self_):
                self_.owner = None
                self_.name = None
                self_.post_yield = default_post_yield     # yield right after release (see release())

            def acquire(self_, blocking=True, timeout=-1):
                me = s.me()
                s.yield_point('lock.acquire')
                if self_.owner is not None:
                    if not blocking:
                        return False
                    if self_.owner is me and me is not None:
                        s.log('self-deadlock', what='lock re-acquired by its owner')
                        s.block_until(lambda: False, 'a non-reentrant lock it already holds')
                    s.block_until(lambda: self_.owner is None, 'lock')
                self_.owner = me if me is not None else 'unmanaged'
                return True

            def release(self_):
                if self_.owner is None:
                    raise RuntimeError('release unlocked lock')
                self_.owner = None
                # another thread may run between a release and whatever the releaser
                # does next (reads hoisted out of a critical section are exposed here)
                if self_.post_yield and not s.killing:
                    s.yield_point('lock.release')

            def locked(self_):
                return self_.owner is not None

            def __enter__(self_):
                self_.acquire()
                return self_

            def __exit__(self_, *a):
                self_.release()

        class RLock(Lock):
            def __init__(self_):
                super().__init__()
                self_.depth = 0

            def acquire(self_, blocking=True, timeout=-1):
                me = s.me()
                if self_.owner is me and me is not None:
                    self_.depth += 1
                    return True
                r = Lock.acquire(self_, blocking, timeout)
                if r:
                    self_.depth = 1
                return r

            def release(self_):
                self_.depth -= 1
                if self_.depth == 0:
                    Lock.release(self_)

        class Event:
            def __init__(self_):
                self_.flag = False

            def set(self_):
                s.yield_point('event.set')
                self_.flag = True

            def clear(self_):
                self_.flag = False

            def is_set(self_):
                return self_.flag

            isSet = is_set

            def wait(self_, timeout=None):
                s.yield_point('event.wait')
                me = s.me()

                def due():
                    ia = getattr(s, 'interrupt_at', None)
                    return (ia is not None and me is not None and me.name == ia[1]
                            and s.step >= ia[0])
                if not self_.flag:
                    s.block_until(lambda: self_.flag or due(), 'event')
                    if not self_.flag and due():
                        # Ctrl-C delivered to a thread blocked in Event.wait
                        s.interrupt_at = None
                        s.log('keyboard_interrupt')
                        raise KeyboardInterrupt()
                return True

        class Condition:
            def __init__(self_, lock=None):
                self_.lock = lock if lock is not None else RLock()
                self_.waiters = []      # [ticket dict]
                self_.acquire = self_.lock.acquire
                self_.release = self_.lock.release

            def __enter__(self_):
                self_.lock.acquire()
                return self_

            def __exit__(self_, *a):
                self_.lock.release()

            def wait(self_, timeout=None):
                ticket = {'notified': False}
                self_.waiters.append(ticket)
                self_.lock.release()
                s.block_until(lambda: ticket['notified'], 'condition')
                self_.lock.acquire()
                return True

            def notify(self_, n=1):
                for tk in self_.waiters[:n]:
                    tk['notified'] = True
                del self_.waiters[:n]

            def notify_all(self_):
                self_.notify(len(self_.waiters))

            notifyAll = notify_all

        class Semaphore:
            def __init__(self_, value=1):
                self_._value = value

            def acquire(self_, blocking=True, timeout=None):
                s.yield_point('sem.acquire')
                if self_._value == 0:
                    if not blocking:
                        return False
                    s.block_until(lambda: self_._value > 0, 'semaphore')
                self_._value -= 1
                return True

            def release(self_, n=1):
                self_._value += n

            __enter__ = acquire

            def __exit__(self_, *a):
                self_.release()

        self.Lock, self.RLock, self.Event = Lock, RLock, Event
        self.Condition, self.Semaphore = Condition, Semaphore
        self.BoundedSemaphore = Semaphore
        self.current_thread = _t.current_thread
        self.Thread = _t.Thread
        self.local = _t.local


# ---- executor ------------------------------------------------------------------

class CoopFuture:
    def __init__(self, sched):
        self.sched = sched
        self._done = False
        self._result = None
        self._exc = None
        self._callbacks = []

    def done(self):
        return self._done

    def result(self, timeout=None):
        self.sched.yield_point('future.result')
        if not self._done:
            self.sched.block_until(lambda: self._done, 'future')
        if self._exc is not None:
            raise self._exc
        return self._result

    def exception(self, timeout=None):
        if not self._done:
            self.sched.block_until(lambda: self._done, 'future')
        return self._exc

    def add_done_callback(self, fn):
        if self._done:
            fn(self)
        else:
            self._callbacks.append(fn)

    def _finish(self, result, exc):
        self._result, self._exc = result, exc
        self._done = True
        # like concurrent.futures: waiters may run before the callbacks do
        self.sched.yield_point('future.finished')
        cbs, self._callbacks = self._callbacks, []
        for cb in cbs:
            try:
                cb(self)
            except Exception:
                pass


def make_executor_cls(sched, registry=None, name_hint=None):
    """An executor class bound to `sched` (BoundedExecutor calls it with max_workers=)."""
    counter = {'n': 0}

    class CoopExecutor:
        def __init__(self, max_workers=None):
            self.max_workers = max_workers or 1
            self.queue = []
            self.workers = []
            self.idle = 0
            self.shut = False
            counter['n'] += 1
            self.name = f'exec{counter["n"]}'
            if registry is not None:
                registry.append(self)

        def submit(self, fn, *args, **kwargs):
            if self.shut:
                raise RuntimeError('cannot schedule new futures after shutdown')
            sf = SUBMIT_FAULT[0]
            if sf and self.name == f'exec{sf["executor"] + 1}':
                self.n_submits = getattr(self, 'n_submits', 0) + 1
                if self.n_submits == sf['nth']:
                    sched.log('submit_fault', executor=self.name, nth=sf['nth'])
                    raise RuntimeError("can't start new thread")
            f = CoopFuture(sched)
            self.queue.append((f, fn, args, kwargs))
            if self.idle == 0 and len(self.workers) < self.max_workers:
                w = sched.spawn(self._worker, f'{self.name}-w{len(self.workers)}')
                self.workers.append(w)
            if SUBMIT_YIELD[0]:
                # a real pool may run (and finish) the task before submit() returns to its caller
                sched.yield_point('executor.submit')
            return f

        def _worker(self):
            while True:
                self.idle += 1
                sched.block_until(lambda: self.queue or self.shut, f'{self.name} queue')
                self.idle -= 1
                if not self.queue:
                    return
                f, fn, args, kwargs = self.queue.pop(0)
                self.current = getattr(self, 'current', 0) + 1
                try:
                    r = fn(*args, **kwargs)
                    e = None
                except Killed:
                    raise
                except BaseException as ex:
                    r, e = None, ex
                self.current -= 1
                f._finish(r, e)

        def shutdown(self, wait=True):
            sched.yield_point('executor.shutdown')
            self.shut = True
            if wait:
                sched.block_until(lambda: all(w.finished for w in self.workers),
                                  f'{self.name} join')

    return CoopExecutor
