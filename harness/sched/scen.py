"""Scenario runner: one real TransferManager run under the cooperative scheduler."""
import io
import os
import shutil
import tempfile

from harness.sched import core, instr
from harness import fakes3


def partial_subscriber(I, name, only):
    """A duck-typed subscriber that HAS only the listed on_<type> methods (the library asks with
    hasattr); not derived from anything.  Records like RecordingSubscriber."""
    ns = {'name': name, 'raise_in': set(), 'events': None}

    def mk(kind):
        def cb(self_, future, **kw):
            rec = dict(sub=name, t=future.meta.transfer_id)
            if kind == 'progress':
                rec['n'] = kw.get('bytes_transferred')
            if kind == 'done':
                rec['done'] = bool(future.done())
            I.log('on_' + kind, **rec)
        return cb
    for kind in only:
        ns['on_' + kind] = mk(kind)
    return type('PartialSubscriber', (), ns)()


PROGRESS_YIELD = [False]     # set per run by library._run: on_progress is a scheduling point
QUEUED_YIELD = [False]       # idem for on_queued


class RecordingSubscriber:
    """BaseSubscriber-compatible recorder; optional scripts run inside callbacks."""

    def __init__(self, I, name='sub', on_done_script=None, on_queued_script=None,
                 raise_in=None, provide_size=None, raise_exc=None):
        self.I = I
        self.name = name
        self.on_done_script = on_done_script or []
        self.on_queued_script = on_queued_script or []
        self.raise_in = raise_in or set()
        self.provide_size = provide_size
        # the exception class a raising callback uses: RuntimeError, or an OSError subclass
        # ('oserror': user callbacks do raise those, and they are not retryable stream errors)
        self.raise_cls = PermissionError if raise_exc == 'oserror' else RuntimeError
        self.events = []

    def _script(self, future, script):
        for op in script:
            r = None
            try:
                if op == 'done':
                    r = future.done()
                elif op == 'meta':
                    r = future.meta.transfer_id
                elif op == 'set_exception':
                    future.set_exception(RuntimeError('from callback'))
                elif op == 'cancel':
                    future.cancel()
                elif op == 'result':
                    try:
                        future.result()
                        r = 'returned'
                    except Exception as e:   # noqa
                        r = 'raised ' + type(e).__name__
            except Exception as e:           # noqa
                r = 'exc ' + type(e).__name__
            self.I.log('cb_script', sub=self.name, op=op, r=str(r), t=future.meta.transfer_id)

    def on_queued(self, future, **kw):
        self.I.log('on_queued', sub=self.name, t=future.meta.transfer_id)
        self.events.append(('queued',))
        if QUEUED_YIELD[0]:
            self.I.sched.yield_point('on_queued')       # a user callback takes time: other threads run meanwhile
        if self.provide_size is not None:
            future.meta.provide_transfer_size(self.provide_size)
        self._script(future, self.on_queued_script)
        if 'queued' in self.raise_in:
            raise self.raise_cls(f'{self.name}: on_queued raises')

    def on_progress(self, future, bytes_transferred, **kw):
        self.I.log('on_progress', sub=self.name, t=future.meta.transfer_id, n=bytes_transferred)
        self.events.append(('progress', bytes_transferred))
        if PROGRESS_YIELD[0]:
            self.I.sched.yield_point('on_progress')     # a user callback takes time: other threads run meanwhile
        if 'progress' in self.raise_in:
            raise self.raise_cls(f'{self.name}: on_progress raises')

    def on_done(self, future, **kw):
        self.I.log('on_done', sub=self.name, t=future.meta.transfer_id,
                   done=future.done())
        self.events.append(('done',))
        self._script(future, self.on_done_script)
        if 'done' in self.raise_in:
            raise RuntimeError(f'{self.name}: on_done raises')


class LoggingOSUtils:
    """Wraps the real OSUtils: every filesystem effect is a logged yield point and
    may be made to fail by `fault(name, args) -> exception|None`."""

    def __init__(self, I, real, fault=None):
        self.I, self.real, self.fault = I, real, fault

    def __getattr__(self, name):
        return getattr(self.real, name)

    def _pt(self, name, **kw):
        self.I.sched.yield_point('fs.' + name)
        if self.fault:
            e = self.fault(name, kw)
            if e is not None:
                # the fault strikes before the effect: the model sees no file event
                self.I.log('fs_fault', op=name, **kw)
                raise e
        self.I.log('fs', op=name, **kw)

    def open(self, filename, mode):
        self._pt('open', path=os.path.basename(filename), mode=mode)
        f = self.real.open(filename, mode)
        return LoggingFile(self, f, os.path.basename(filename)) if 'w' in mode else f

    def rename_file(self, cur, new):
        self._pt('rename', src=os.path.basename(cur), dst=os.path.basename(new))
        self.real.rename_file(cur, new)
        self.I.log('fs_done', op='rename', src=os.path.basename(cur), dst=os.path.basename(new))

    def remove_file(self, filename):
        self._pt('remove', path=os.path.basename(filename))
        self.real.remove_file(filename)
        self.I.log('fs_done', op='remove', path=os.path.basename(filename))

    def get_temp_filename(self, filename):
        return filename + os.extsep + 'TEMP'


class LoggingFile:
    def __init__(self, osu, f, name):
        self.osu, self.f, self.name_ = osu, f, name

    def __getattr__(self, name):
        return getattr(self.f, name)

    def write(self, data):
        self.osu._pt('write', path=self.name_, off=self.f.tell(), n=len(data))
        r = self.f.write(data)
        self.f.flush()
        return r

    def close(self):
        self.osu._pt('close', path=self.name_)
        self.f.close()

    def __enter__(self):
        return self

    def __exit__(self, *a):
        self.close()


class Run:
    """Everything one scheduled run produced."""

    def __init__(self):
        self.trace = []
        self.deadlock = None
        self.livelock = None
        self.user_exc = None
        self.thread_errors = []
        self.results = {}       # label -> ('ok', value) | ('raise', type, msg)
        self.steps = 0
        self.choices = []
        self.client = None
        self.tmpdir = None
        self.samples = []


def run_scenario(scenario, chooser=None, config_kwargs=None, max_steps=100000,
                 checksum='when_required', fs_fault=None, sample_fs=None, cancel_at=None,
                 cancel_how='future', keep_tmp=False, collect=None, nonthreaded=False):
    """scenario(env) runs in the managed 'user' thread; env has .manager, .client,
    .tmpdir, .I, .sub(...), .future_result(label, future)."""
    from s3transfer.manager import TransferManager, TransferConfig
    from s3transfer.utils import OSUtils
    run = Run()
    run.cfg_kwargs = dict(config_kwargs or {})
    sched = core.Sched(chooser=chooser, max_steps=max_steps, trace=run.trace)
    I = instr.Instr(sched).install()
    tmpdir = tempfile.mkdtemp(prefix='verif-sched-')
    run.tmpdir = tmpdir
    try:
        client = fakes3.FakeS3(checksum)
        run.client = client

        def on_event(kind, rec):
            I.log('s3_' + kind, op=rec['op'], idx=rec['idx'], upload=rec['kwargs'].get('UploadId') or rec.get('upload_id'),
                  part=rec['kwargs'].get('PartNumber'), rng=rec['kwargs'].get('Range') or rec['kwargs'].get('CopySourceRange'),
                  outcome=rec.get('outcome'))
            if kind != 'end':
                sched.yield_point('s3.' + kind)
        client.on_event = on_event
        cfg = TransferConfig(**(config_kwargs or {}))
        run.config = cfg
        # what the USER asked for: the constructor's documented defaults overlaid with the keyword
        # arguments given (the limits the monitors hold the manager to -- not what the config
        # object ended up holding, which is the code under test)
        import inspect
        want = {k: p.default for k, p in inspect.signature(TransferConfig.__init__).parameters.items()
                if k != 'self' and p.default is not inspect.Parameter.empty}
        want.update(config_kwargs or {})
        run.requested = type('Requested', (), want)()
        osu = LoggingOSUtils(I, OSUtils(), fs_fault)
        execs = []
        if nonthreaded:
            from s3transfer.futures import NonThreadedExecutor
            manager = TransferManager(client, cfg, osutil=osu, executor_cls=NonThreadedExecutor)
        else:
            manager = TransferManager(client, cfg, osutil=osu,
                                      executor_cls=core.make_executor_cls(sched, execs))
        I.bind_manager(manager)

        class Env:
            pass
        env = Env()
        env.manager, env.client, env.tmpdir, env.I, env.sched, env.run = manager, client, tmpdir, I, sched, run
        env.config = cfg
        env.futures = {}
        env.execs = execs

        def sub(**kw):
            if kw.get('only') is not None:
                return partial_subscriber(I, kw.get('name', 'sub'), kw['only'])
            return RecordingSubscriber(I, **kw)
        env.sub = sub

        def future_result(label, fut):
            try:
                v = fut.result()
                run.results[label] = ('ok', v)
            except core.Killed:
                raise
            except KeyboardInterrupt as e:
                # Ctrl-C delivered to this very call is the caller's interrupt; only a
                # KeyboardInterrupt that the transfer STORED is the transfer's outcome
                if getattr(fut, '_coordinator', None) is None or fut._coordinator.exception is not e:
                    raise
                run.results[label] = ('raise', type(e).__name__, str(e)[:100])
            except Exception as e:    # noqa
                run.results[label] = ('raise', type(e).__name__, str(e)[:100])
            I.log('user_result', label=label, outcome=run.results[label][0],
                  etype=run.results[label][1] if run.results[label][0] == 'raise' else None,
                  t=fut.meta.transfer_id)
        env.future_result = future_result

        def user():
            scenario(env)
        user_t = sched.spawn(user, 'user', role='user')

        if cancel_at is not None:
            def canceller():
                sched.block_until(lambda: (sched.step >= cancel_at and bool(env.futures)) or user_t.finished, 'cancel point')
                # urgent only to be injected at the chosen point; from here on the canceller
                # is scheduled like any other thread (it can be preempted inside cancel())
                sched.me().urgent = False
                I.log('inject_cancel', how=cancel_how, at=sched.step)
                if cancel_how == 'future':
                    for f in list(env.futures.values())[:1]:
                        f.cancel()
                elif cancel_how == 'controller':
                    manager._coordinator_controller.cancel('injected', __import__('s3transfer').exceptions.CancelledError)
                I.log('inject_cancel_done')
            t = sched.spawn(canceller, 'canceller', role='user')
            t.urgent = True

        if sample_fs:
            sched.on_step = lambda s: sample_fs(run, s)
        try:
            sched.run()
        except core.Deadlock as d:
            run.deadlock = str(d)
        except core.Livelock as l:
            run.livelock = str(l)
        run.steps = sched.step
        run.choices = list(sched.choices)
        for t in sched.threads:
            if t.exc is not None:
                (run.thread_errors if t.role != 'user' else run.thread_errors).append(
                    (t.name, type(t.exc).__name__, str(t.exc)[:200], getattr(t, 'tb', '')))
        run.manager = manager
        run.I = I
        run.final_files = sorted(os.listdir(tmpdir))
        if collect:
            collect(run, env)
    finally:
        I.uninstall()
        if not keep_tmp:
            shutil.rmtree(tmpdir, ignore_errors=True)
    return run
