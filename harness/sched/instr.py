"""Instrumentation of the real s3transfer code for one scheduler run.

Nothing in /repo is edited: module attributes `threading` are replaced by the
scheduler's shim, and thin class-level wrappers add a log record (and, where
useful, a yield point) around public methods.  `Instr.uninstall()` restores
everything.  The log is the linearised event trace of the run.
"""
import importlib
import os

from harness.sched import core

MODS = ['futures', 'utils', 'download', 'manager', 'bandwidth', 'tasks', 'upload', 'copies', 'delete']


class _HookedLock:
    """Delegates to the shim lock; calls `hook` right after every release."""

    def __init__(self, lock, hook):
        self._l, self._hook = lock, hook

    def acquire(self, *a, **k):
        return self._l.acquire(*a, **k)

    def release(self):
        self._l.release()
        self._hook()

    def __enter__(self):
        self._l.acquire()
        return self

    def __exit__(self, *a):
        self.release()


def _fn_name(fc):
    """Readable identity of a FunctionContainer / callable registered as callback."""
    f = getattr(fc, '_func', fc)
    f = getattr(f, 'func', f)          # functools.partial
    owner = getattr(f, '__self__', None)
    name = getattr(f, '__name__', None) or type(f).__name__
    if owner is not None:
        tag = getattr(owner, 'name', None)
        if isinstance(tag, str):
            return f'{type(owner).__name__}.{name}:{tag}'
        return f'{type(owner).__name__}.{name}'
    return name


class Instr:
    def __init__(self, sched):
        self.sched = sched
        self.saved = []
        self.shim = core.Shim(sched, post_yield=True)
        self.exc_ids = {}        # id(exception object) -> small int
        self.exc_objs = []
        self.task_ids = {}       # id(task) -> small int
        self.task_objs = []
        self.executors = []      # CoopExecutor instances in creation order
        self.sem_names = {}
        self.missing = []        # methods that could not be instrumented
        self.in_cancel = {}      # id(thread) -> depth inside cancel()
        self.cancel_pending = {} # id(thread) -> True while the locked section has not run
        self.fut_task = {}       # id(ExecutorFuture) -> task id
        self.keep = []           # keep futures alive so that ids stay unique

    # ---- helpers -----------------------------------------------------------
    def log(self, ev, **kw):
        return self.sched.log(ev, **kw)

    def exc_id(self, e):
        if e is None:
            return None
        k = id(e)
        if k not in self.exc_ids:
            self.exc_ids[k] = len(self.exc_objs)
            self.exc_objs.append(e)
        return self.exc_ids[k]

    def exc_desc(self, e):
        if e is None:
            return None
        return {'id': self.exc_id(e), 'type': type(e).__name__, 'msg': str(e)[:80]}

    def task_id(self, task):
        k = id(task)
        if k not in self.task_ids:
            self.task_ids[k] = len(self.task_objs)
            self.task_objs.append(task)
        return self.task_ids[k]

    def _patch(self, obj, name, new):
        self.saved.append((obj, name, obj.__dict__.get(name, getattr(obj, name))))
        setattr(obj, name, new)

    def uninstall(self):
        for obj, name, old in reversed(self.saved):
            setattr(obj, name, old)
        self.saved = []

    # ---- install -------------------------------------------------------------
    def install(self):
        I = self
        s = self.sched
        mods = {m: importlib.import_module('s3transfer.' + m) for m in MODS}
        for m in mods.values():
            if hasattr(m, 'threading'):
                self._patch(m, 'threading', self.shim)
        futures, tasks, utils = mods['futures'], mods['tasks'], mods['utils']
        TC = futures.TransferCoordinator

        def wrap(cls, name, maker):
            orig = cls.__dict__.get(name)
            if orig is None:
                # the method is gone (refactored away): nothing to instrument; the trace
                # then lacks its records and trace validation reports the difference
                self.missing.append(f'{cls.__name__}.{name}')
                return
            self._patch(cls, name, maker(orig))

        # -- coordinator ---------------------------------------------------
        def mk_set_result(orig):
            def set_result(self_, result):
                orig(self_, result)
                I.log('set_result', t=self_.transfer_id, status=self_._status)
            return set_result
        wrap(TC, 'set_result', mk_set_result)

        def mk_set_exception(orig):
            def set_exception(self_, exception, override=False):
                orig(self_, exception, override)
                I.log('set_exception', t=self_.transfer_id, exc=I.exc_desc(exception), override=bool(override),
                      status=self_._status, stored=I.exc_id(self_._exception))
            return set_exception
        wrap(TC, 'set_exception', mk_set_exception)

        def mk_cancel(orig):
            def cancel(self_, msg='', exc_type=futures.CancelledError):
                I.log('cancel_call', t=self_.transfer_id, msg=str(msg), etype=getattr(exc_type, '__name__', str(exc_type)))
                me = s.me()
                I.in_cancel[id(me)] = I.in_cancel.get(id(me), 0) + 1
                I.cancel_pending[id(me)] = False
                try:
                    orig(self_, msg, exc_type)
                finally:
                    I.in_cancel[id(me)] -= 1
                I.log('cancel_return', t=self_.transfer_id, status=self_._status,
                      stored=I.exc_desc(self_._exception))
            return cancel
        wrap(TC, 'cancel', mk_cancel)

        def mk_transition(orig):
            def _transition_to_non_done_state(self_, desired):
                try:
                    orig(self_, desired)
                except RuntimeError:
                    I.log('status_transition', t=self_.transfer_id, to=desired, ok=False, status=self_._status)
                    raise
                I.log('status_transition', t=self_.transfer_id, to=desired, ok=True, status=self_._status)
            return _transition_to_non_done_state
        wrap(TC, '_transition_to_non_done_state', mk_transition)

        def mk_run_callbacks(orig):
            def _run_callbacks(self_, callbacks):
                which = 'done_callbacks' if callbacks is self_._done_callbacks else (
                    'failure_cleanups' if callbacks is self_._failure_cleanups else 'other')
                I.log('run_begin', t=self_.transfer_id, which=which, n=len(callbacks), status=self_._status)
                try:
                    orig(self_, callbacks)
                finally:
                    I.log('run_end', t=self_.transfer_id, which=which)
            return _run_callbacks
        wrap(TC, '_run_callbacks', mk_run_callbacks)

        def mk_run_callback(orig):
            def _run_callback(self_, callback):
                I.log('callback_begin', t=self_.transfer_id, fn=_fn_name(callback))
                s.yield_point('callback')
                orig(self_, callback)
                I.log('callback_end', t=self_.transfer_id, fn=_fn_name(callback))
            return _run_callback
        wrap(TC, '_run_callback', mk_run_callback)

        def mk_announce(orig):
            def announce_done(self_):
                I.log('announce_begin', t=self_.transfer_id, status=self_._status)
                orig(self_)
                I.log('announce_end', t=self_.transfer_id)
            return announce_done
        wrap(TC, 'announce_done', mk_announce)

        def mk_add(kind):
            def maker(orig):
                def add(self_, function, *args, **kwargs):
                    orig(self_, function, *args, **kwargs)
                    I.log(kind, t=self_.transfer_id, fn=_fn_name(function))
                return add
            return maker
        wrap(TC, 'add_done_callback', mk_add('add_done_callback'))
        wrap(TC, 'add_failure_cleanup', mk_add('add_failure_cleanup'))

        def mk_submit(orig):
            def submit(self_, executor, task, tag=None):
                k = I.task_id(task)
                I.log('submit_call', t=self_.transfer_id, task=k, cls=type(task).__name__,
                      stage=I.stage_of(executor), tag=getattr(tag, 'name', None),
                      final=bool(task._is_final), deps=I.deps_of(task))
                fut = orig(self_, executor, task, tag)
                I.fut_task[id(fut)] = k
                I.keep.append(fut)
                I.log('submit_return', t=self_.transfer_id, task=k)
                return fut
            return submit
        wrap(TC, 'submit', mk_submit)

        def mk_result(orig):
            def result(self_):
                try:
                    r = orig(self_)
                except BaseException as e:
                    I.log('result_raise', t=self_.transfer_id, exc=I.exc_desc(e), status=self_._status)
                    raise
                I.log('result_return', t=self_.transfer_id, status=self_._status)
                return r
            return result
        wrap(TC, 'result', mk_result)

        # the done event: log the moment it is set
        def mk_tc_init(orig):
            def __init__(self_, transfer_id=None):
                orig(self_, transfer_id)
                ev = self_._done_event
                real_set = ev.set

                def logged_set():
                    real_set()
                    I.log('event_set', t=self_.transfer_id, status=self_._status)
                ev.set = logged_set
                # the wrappers of this class log a record right after the call returns: keep
                # "critical section + its log record" one scheduling step (no yield after release)
                for nm in ('_lock', '_associated_futures_lock', '_done_callbacks_lock', '_failure_cleanups_lock'):
                    getattr(self_, nm).post_yield = False
                self_._lock = _HookedLock(self_._lock, lambda: I.on_state_lock_release(self_))
            return __init__
        wrap(TC, '__init__', mk_tc_init)

        # -- tasks -------------------------------------------------------------
        Task = tasks.Task

        def mk_call(orig):
            def __call__(self_, ctx=None):
                k = I.task_id(self_)
                I.log('task_start', t=self_.transfer_id, task=k, cls=type(self_).__name__, final=bool(self_._is_final))
                s.yield_point('task_start')
                try:
                    return orig(self_, ctx)
                finally:
                    fo = self_._main_kwargs.get('fileobj') if isinstance(self_._main_kwargs, dict) else None
                    for _ in range(6):          # ReadFileChunk -> (BandwidthLimitedStream) -> InterruptReader -> BytesIO
                        if fo is None:
                            break
                        if hasattr(fo, 'getbuffer'):
                            try:
                                fo.dead = True
                            except AttributeError:
                                pass
                            break
                        fo = getattr(fo, '_fileobj', None)
                    I.log('task_end', t=self_.transfer_id, task=k)
            return __call__
        wrap(Task, '__call__', mk_call)

        def mk_wait_deps(orig):
            def _wait_on_dependent_futures(self_):
                orig(self_)
                I.log('deps_done', t=self_.transfer_id, task=I.task_id(self_))
            return _wait_on_dependent_futures
        wrap(Task, '_wait_on_dependent_futures', mk_wait_deps)

        def mk_get_kwargs(orig):
            def _get_all_main_kwargs(self_):
                r = orig(self_)
                # the done() check follows immediately (no yield point in between)
                I.log('done_check', t=self_.transfer_id, task=I.task_id(self_),
                      done=bool(self_._transfer_coordinator.done()))
                return r
            return _get_all_main_kwargs
        wrap(Task, '_get_all_main_kwargs', mk_get_kwargs)

        def mk_exec_main(orig):
            def _execute_main(self_, kwargs):
                k = I.task_id(self_)
                I.log('main_begin', t=self_.transfer_id, task=k)
                s.yield_point('main_begin')
                try:
                    r = orig(self_, kwargs)
                except BaseException as e:
                    I.log('main_end', t=self_.transfer_id, task=k, ok=False, exc=I.exc_desc(e))
                    raise
                I.log('main_end', t=self_.transfer_id, task=k, ok=True)
                return r
            return _execute_main
        wrap(Task, '_execute_main', mk_exec_main)

        def mk_wait_all(orig):
            def _wait_for_all_submitted_futures_to_complete(self_):
                orig(self_)
                I.log('wait_all_done', t=self_.transfer_id, task=I.task_id(self_))
            return _wait_for_all_submitted_futures_to_complete
        wrap(tasks.SubmissionTask, '_wait_for_all_submitted_futures_to_complete', mk_wait_all)

        def mk_dissoc(orig):
            def remove_associated_future(self_, future):
                orig(self_, future)
                I.log('dissoc', t=self_.transfer_id, task=I.fut_task.get(id(future), -1))
            return remove_associated_future
        wrap(TC, 'remove_associated_future', mk_dissoc)

        def mk_assoc(orig):
            def add_associated_future(self_, future):
                orig(self_, future)
                I.log('assoc', t=self_.transfer_id, task=I.fut_task.get(id(future), -1))
            return add_associated_future
        wrap(TC, 'add_associated_future', mk_assoc)

        TM = mods['manager'].TransferManager

        def mk_shutdown(orig):
            def _shutdown(self_, cancel, cancel_msg, exc_type=futures.CancelledError):
                I.log('shutdown_begin', cancel=bool(cancel), msg=str(cancel_msg),
                      etype=getattr(exc_type, '__name__', str(exc_type)))
                try:
                    return orig(self_, cancel, cancel_msg, exc_type)
                finally:
                    I.log('shutdown_return')
            return _shutdown
        wrap(TM, '_shutdown', mk_shutdown)

        # -- bounded executor / semaphores -----------------------------------------
        BE = futures.BoundedExecutor

        def mk_be_submit(orig):
            def submit(self_, task, tag=None, block=True):
                k = I.task_id(task)
                I.log('stage_submit_call', stage=I.stage_of(self_), task=k, t=task.transfer_id,
                      tag=getattr(tag, 'name', None), cls=type(task).__name__)
                fut = orig(self_, task, tag, block)
                I.fut_task[id(fut)] = k
                I.keep.append(fut)
                I.log('enqueued', stage=I.stage_of(self_), task=k, t=task.transfer_id,
                      tag=getattr(tag, 'name', None))
                return fut
            return submit
        wrap(BE, 'submit', mk_be_submit)

        def mk_be_shutdown(orig):
            def shutdown(self_, wait=True):
                I.log('executor_shutdown_call', stage=I.stage_of(self_))
                orig(self_, wait)
                I.log('executor_shutdown_return', stage=I.stage_of(self_))
            return shutdown
        wrap(BE, 'shutdown', mk_be_shutdown)

        for cls in (utils.TaskSemaphore, utils.SlidingWindowSemaphore):
            def mk_acq(orig, cls=cls):
                def acquire(self_, tag, blocking=True):
                    tok = orig(self_, tag, blocking)
                    I.log('sem_acquire', sem=I.sem_name(self_), tag=tag, token=tok)
                    return tok
                return acquire

            def mk_rel(orig, cls=cls):
                def release(self_, tag, acquire_token):
                    orig(self_, tag, acquire_token)
                    I.log('sem_release', sem=I.sem_name(self_), tag=tag, token=acquire_token)
                return release
            wrap(cls, 'acquire', mk_acq)
            wrap(cls, 'release', mk_rel)

        def mk_quiet_init(orig, names):
            def __init__(self_, *a, **k):
                orig(self_, *a, **k)
                for nm in names:
                    lk = getattr(self_, nm, None)
                    if hasattr(lk, 'post_yield'):
                        lk.post_yield = False
            return __init__
        wrap(utils.SlidingWindowSemaphore, '__init__', lambda o: mk_quiet_init(o, ('_lock',)))
        wrap(utils.CountCallbackInvoker, '__init__', lambda o: mk_quiet_init(o, ('_lock',)))

        # -- count-down invoker ---------------------------------------------------
        CCI = utils.CountCallbackInvoker
        for nm in ('increment', 'decrement', 'finalize'):
            def mk_cci(orig, nm=nm):
                def f(self_):
                    orig(self_)
                    I.log('countdown', op=nm, obj=id(self_) % 100000, count=self_._count,
                          finalized=self_._is_finalized)
                return f
            wrap(CCI, nm, mk_cci)
        return self

    def on_state_lock_release(self, coord):
        """Called when a thread leaves a critical section of coord._lock: if it is
        inside cancel() this is the end of cancel's locked section."""
        me = self.sched.me()
        if self.in_cancel.get(id(me), 0) > 0 and not self.cancel_pending.get(id(me)):
            self.cancel_pending[id(me)] = True
            self.log('cancel_applied', t=coord.transfer_id, status=coord._status,
                     stored=self.exc_desc(coord._exception))

    # ---- naming ----------------------------------------------------------------
    def bind_manager(self, manager):
        self.manager = manager
        self.stage_names = {id(manager._submission_executor): 'sub',
                            id(manager._request_executor): 'req',
                            id(manager._io_executor): 'io'}
        self.sem_names[id(manager._submission_executor._semaphore)] = 'sub'
        self.sem_names[id(manager._request_executor._semaphore)] = 'req'
        self.sem_names[id(manager._io_executor._semaphore)] = 'io'
        for tag, sem in manager._request_executor._tag_semaphores.items():
            self.sem_names[id(sem)] = tag.name

    def stage_of(self, executor):
        return getattr(self, 'stage_names', {}).get(id(executor), 'exec?')

    def sem_name(self, sem):
        return self.sem_names.get(id(sem), 'sem?')

    def deps_of(self, task):
        out = []
        for v in task._pending_main_kwargs.values():
            for f in (v if isinstance(v, list) else [v]):
                out.append(self.fut_task.get(id(f), -1))
        return out
