"""Instrumentation of the real s3transfer code for one scheduler run.

Nothing in /repo is edited: module attributes `threading` are replaced by the
scheduler's shim, and thin class-level wrappers add a log record (and, where
useful, a yield point) around public methods.  `Instr.uninstall()` restores
everything.  The log is the linearised event trace of the run.
"""
import importlib
import os

from harness.sched import core
from harness import names

STATE_WRITE_YIELD = [False]   # set by library._run: writes of the coordinator's state fields are scheduling points
PIN_TRACKING = [False]     # set by library._run when upload buffers are tracked (C10 / C11)

MODS = ['futures', 'utils', 'download', 'manager', 'bandwidth', 'tasks', 'upload', 'copies', 'delete']


class _HookedLock:
    """Delegates to the shim lock; calls `acquired` right after a successful
    acquire, `releasing` right before and `hook` right after every release.
    Hooks only log: an exception in one of them never reaches the code under test."""

    def __init__(self, lock, hook=None, acquired=None, releasing=None):
        self._l, self._hook, self._acquired, self._releasing = lock, hook, acquired, releasing

    def _call(self, f):
        if f is not None:
            try:
                f()
            except Exception:
                pass

    def acquire(self, *a, **k):
        r = self._l.acquire(*a, **k)
        if r is not False:
            self._call(self._acquired)
        return r

    def release(self):
        self._call(self._releasing)
        self._l.release()
        self._call(self._hook)

    def locked(self):
        return self._l.locked()

    def __enter__(self):
        self.acquire()
        return self

    def __exit__(self, *a):
        self.release()

    def __getattr__(self, name):          # post_yield etc.
        return getattr(self._l, name)


def _fn_name(fc):
    """Readable identity of a FunctionContainer / callable registered as callback."""
    f = getattr(fc, '_func', fc)
    f = getattr(f, 'func', f)          # functools.partial
    owner = getattr(f, '__self__', None)
    name = getattr(f, '__name__', None) or type(f).__name__
    if owner is not None:
        tag = getattr(owner, 'name', None)
        if isinstance(tag, str):
            return f'{type(owner).__name__}.{name}:{tag}'
        return f'{type(owner).__name__}.{name}'
    return name


class Instr:
    def __init__(self, sched):
        self.sched = sched
        self.saved = []
        self.shim = core.Shim(sched, post_yield=True)
        self.exc_ids = {}        # id(exception object) -> small int
        self.exc_objs = []
        self.task_ids = {}       # id(task) -> small int
        self.task_objs = []
        self.executors = []      # CoopExecutor instances in creation order
        self.sem_names = {}
        self.missing = []        # methods that could not be instrumented
        self.broken = []         # log records that could not be produced (a private name moved)
        self.in_add = {}         # id(thread) -> depth inside add_done_callback / add_failure_cleanup
        self.in_future_sx = {}   # id(thread) -> depth inside TransferFuture.set_exception
        self.in_cancel = {}      # id(thread) -> depth inside cancel()
        self.cancel_pending = {} # id(thread) -> True while the locked section has not run
        self.fut_task = {}       # id(ExecutorFuture) -> task id
        self.keep = []           # keep futures alive so that ids stay unique

    # ---- helpers -----------------------------------------------------------
    def log(self, ev, **kw):
        return self.sched.log(ev, **kw)

    def peek(self, obj, name, what):
        """obj.<name> for a private name found by role; a miss is recorded, never raised."""
        try:
            return getattr(obj, name)
        except AttributeError:
            msg = f'{type(obj).__name__}: no attribute for role {what!r} (looked for {name!r})'
            if msg not in self.broken:
                self.broken.append(msg)
            return None

    def st(self, coord):
        try:
            return coord.status
        except Exception:
            return self.peek(coord, self.CN['status'], 'status')

    def ex(self, coord):
        try:
            return coord.exception
        except Exception:
            return self.peek(coord, self.CN['exception'], 'exception')

    def exc_id(self, e):
        if e is None:
            return None
        k = id(e)
        if k not in self.exc_ids:
            self.exc_ids[k] = len(self.exc_objs)
            self.exc_objs.append(e)
        return self.exc_ids[k]

    def exc_desc(self, e):
        if e is None:
            return None
        return {'id': self.exc_id(e), 'type': type(e).__name__, 'msg': str(e)[:80]}

    def task_id(self, task):
        k = id(task)
        if k not in self.task_ids:
            self.task_ids[k] = len(self.task_objs)
            self.task_objs.append(task)
        return self.task_ids[k]

    def _patch(self, obj, name, new):
        self.saved.append((obj, name, obj.__dict__.get(name, getattr(obj, name))))
        setattr(obj, name, new)

    def uninstall(self):
        for obj, name, old in reversed(self.saved):
            setattr(obj, name, old)
        self.saved = []

    # ---- install -------------------------------------------------------------
    def install(self):
        I = self
        s = self.sched
        mods = {m: importlib.import_module('s3transfer.' + m) for m in MODS}
        for m in mods.values():
            if hasattr(m, 'threading'):
                self._patch(m, 'threading', self.shim)
        futures, tasks, utils = mods['futures'], mods['tasks'], mods['utils']
        TC = futures.TransferCoordinator
        CN = self.CN = names.coordinator(TC)
        TN = self.TN = names.task(tasks.Task)
        KN = self.KN = names.count_invoker(utils.CountCallbackInvoker)

        def wrap(cls, name, maker):
            orig = cls.__dict__.get(name)
            if orig is None:
                # the method is gone (refactored away): nothing to instrument; the trace
                # then lacks its records and trace validation reports the difference
                self.missing.append(f'{cls.__name__}.{name}')
                return
            self._patch(cls, name, maker(orig))

        # -- coordinator ---------------------------------------------------
        if STATE_WRITE_YIELD[0]:
            # The interpreter can switch threads between two attribute writes of a critical section;
            # readers that do not take the lock (done(), status, exception, result()) can then see
            # the state half-written.  Make every write of a state field a scheduling point.
            fields = {CN['status'], CN['exception'], CN['result']}

            def yielding_setattr(self_, name, value):
                object.__setattr__(self_, name, value)
                me = s.me()
                if name in fields and me is not None and not s.killing:
                    if me.name.startswith('canceller'):
                        # the cancelling user thread lingers after each of its state writes (a preemption
                        # right there): everybody else runs on what is written so far
                        start = s.step
                        s.block_until(lambda: s.others_idle(me) or s.step - start >= 60, 'state-write linger')
                    else:
                        s.yield_point('state-write')
            self._patch(TC, '__setattr__', yielding_setattr)

        def mk_set_result(orig):
            def set_result(self_, result):
                orig(self_, result)
                I.log('set_result', t=self_.transfer_id, status=I.st(self_))
            return set_result
        wrap(TC, 'set_result', mk_set_result)

        def mk_set_exception(orig):
            def set_exception(self_, exception, override=False):
                orig(self_, exception, override)
                I.log('set_exception', t=self_.transfer_id, exc=I.exc_desc(exception), override=bool(override),
                      status=I.st(self_), stored=I.exc_id(I.ex(self_)),
                      via_future=bool(I.in_future_sx.get(id(s.me()), 0)))
            return set_exception
        wrap(TC, 'set_exception', mk_set_exception)

        # the USER's replacement of a finished transfer's outcome goes through TransferFuture.set_exception
        def mk_future_sx(orig):
            def set_exception(self_, exception):
                me = id(s.me())
                I.in_future_sx[me] = I.in_future_sx.get(me, 0) + 1
                try:
                    return orig(self_, exception)
                finally:
                    I.in_future_sx[me] -= 1
            return set_exception
        wrap(futures.TransferFuture, 'set_exception', mk_future_sx)

        def mk_cancel(orig):
            def cancel(self_, msg='', exc_type=futures.CancelledError):
                I.log('cancel_call', t=self_.transfer_id, msg=str(msg), etype=getattr(exc_type, '__name__', str(exc_type)))
                me = s.me()
                I.in_cancel[id(me)] = I.in_cancel.get(id(me), 0) + 1
                I.cancel_pending[id(me)] = False
                try:
                    orig(self_, msg, exc_type)
                finally:
                    I.in_cancel[id(me)] -= 1
                I.log('cancel_return', t=self_.transfer_id, status=I.st(self_),
                      stored=I.exc_desc(I.ex(self_)))
            return cancel
        wrap(TC, 'cancel', mk_cancel)

        def mk_transition(desired):
            def maker(orig):
                def set_status(self_):
                    try:
                        orig(self_)
                    except RuntimeError:
                        I.log('status_transition', t=self_.transfer_id, to=desired, ok=False, status=I.st(self_))
                        raise
                    I.log('status_transition', t=self_.transfer_id, to=desired, ok=True, status=I.st(self_))
                return set_status
            return maker
        wrap(TC, 'set_status_to_queued', mk_transition('queued'))
        wrap(TC, 'set_status_to_running', mk_transition('running'))

        # Callback runs are observed through the public registration API (the registered
        # function is wrapped) and through the two callback locks (taken by add_* and by
        # the runner that announce_done calls): no private method is hooked.
        def mk_announce(orig):
            def announce_done(self_):
                I.log('announce_begin', t=self_.transfer_id, status=I.st(self_))
                orig(self_)
                I.log('announce_end', t=self_.transfer_id)
            return announce_done
        wrap(TC, 'announce_done', mk_announce)

        def mk_add(kind, which):
            def maker(orig):
                def add(self_, function, *args, **kwargs):
                    name = _fn_name(function)
                    tid = self_.transfer_id

                    def logged(*a, **k):
                        I.log('callback_begin', t=tid, fn=name, which=which)
                        s.yield_point('callback')
                        try:
                            r = function(*a, **k)
                        except Exception:
                            I.log('callback_end', t=tid, fn=name, which=which)
                            raise
                        I.log('callback_end', t=tid, fn=name, which=which)
                        return r
                    logged.__name__ = getattr(function, '__name__', 'callback')
                    logged.__wrapped__ = function
                    me = id(s.me())
                    I.in_add[me] = I.in_add.get(me, 0) + 1
                    try:
                        orig(self_, logged, *args, **kwargs)
                    finally:
                        I.in_add[me] -= 1
                    I.log(kind, t=tid, fn=name)
                return add
            return maker
        wrap(TC, 'add_done_callback', mk_add('add_done_callback', 'done_callbacks'))
        wrap(TC, 'add_failure_cleanup', mk_add('add_failure_cleanup', 'failure_cleanups'))

        def mk_submit(orig):
            def submit(self_, executor, task, tag=None):
                k = I.task_id(task)
                I.log('submit_call', t=self_.transfer_id, task=k, cls=type(task).__name__,
                      stage=I.stage_of(executor), tag=getattr(tag, 'name', None),
                      final=bool(I.peek(task, TN['is_final'], 'is_final')), deps=I.deps_of(task))
                fut = orig(self_, executor, task, tag)
                I.fut_task[id(fut)] = k
                I.keep.append(fut)
                I.log('submit_return', t=self_.transfer_id, task=k)
                return fut
            return submit
        wrap(TC, 'submit', mk_submit)

        def mk_result(orig):
            def result(self_):
                try:
                    r = orig(self_)
                except BaseException as e:
                    I.log('result_raise', t=self_.transfer_id, exc=I.exc_desc(e), status=I.st(self_))
                    raise
                I.log('result_return', t=self_.transfer_id, status=I.st(self_))
                return r
            return result
        wrap(TC, 'result', mk_result)

        # the done event: log the moment it is set
        def mk_tc_init(orig):
            def __init__(self_, transfer_id=None):
                orig(self_, transfer_id)
                ev = I.peek(self_, CN['done_event'], 'done_event')
                if ev is None or not names.event_like(ev):
                    evs = [v for v in vars(self_).values() if names.event_like(v)]
                    ev = evs[0] if len(evs) == 1 else None
                if ev is not None:
                    real_set = ev.set

                    def logged_set():
                        real_set()
                        I.log('event_set', t=self_.transfer_id, status=I.st(self_))
                    ev.set = logged_set
                elif 'TransferCoordinator: done event not found' not in I.broken:
                    I.broken.append('TransferCoordinator: done event not found')
                # the wrappers of this class log a record right after the call returns: keep
                # "critical section + its log record" one scheduling step (no yield after release)
                for nm in names.instance_locks(self_):
                    lk = getattr(self_, nm)
                    if hasattr(lk, 'post_yield'):
                        lk.post_yield = False
                sl = CN['state_lock']
                if names.lock_like(getattr(self_, sl, None)):
                    setattr(self_, sl, _HookedLock(getattr(self_, sl), hook=lambda: I.on_state_lock_release(self_)))
                else:
                    I.peek(self_, sl, 'state_lock')
                for role, which in (('done_callbacks_lock', 'done_callbacks'), ('failure_cleanups_lock', 'failure_cleanups')):
                    nm = CN[role]
                    if not names.lock_like(getattr(self_, nm, None)) or nm == sl:
                        I.peek(self_, nm if nm != sl else '<distinct lock>', role)
                        continue

                    def acquired(which=which):
                        if not I.in_add.get(id(s.me()), 0):
                            I.log('run_begin', t=self_.transfer_id, which=which, status=I.st(self_))

                    def releasing(which=which):
                        if not I.in_add.get(id(s.me()), 0):
                            I.log('run_end', t=self_.transfer_id, which=which)
                    setattr(self_, nm, _HookedLock(getattr(self_, nm), acquired=acquired, releasing=releasing))
            return __init__
        wrap(TC, '__init__', mk_tc_init)

        # -- tasks -------------------------------------------------------------
        Task = tasks.Task

        def mk_call(orig):
            def __call__(self_, ctx=None):
                k = I.task_id(self_)
                I.log('task_start', t=self_.transfer_id, task=k, cls=type(self_).__name__,
                      final=bool(I.peek(self_, TN['is_final'], 'is_final')))
                s.yield_point('task_start')
                try:
                    return orig(self_, ctx)
                finally:
                    mk = getattr(self_, TN['main_kwargs'], None)
                    fo = mk.get('fileobj') if isinstance(mk, dict) else None
                    # A part body whose task has ended is garbage unless something still refers to it.
                    # The usual way to pin it is a bound method of the body (or of one of its wrappers)
                    # registered somewhere as a callback: such a body still occupies memory.
                    pinned = False
                    inner = fo
                    for _ in range(6):
                        if inner is None or hasattr(inner, 'getbuffer'):
                            break
                        inner = getattr(inner, '_fileobj', None)
                    # (only a body the task did NOT close can still occupy memory: scan then)
                    if PIN_TRACKING[0] and fo is not None and inner is not None and not getattr(inner, 'closed', True):
                        import gc
                        import types
                        layer = fo
                        for _ in range(6):
                            if layer is None:
                                break
                            if any(isinstance(r, types.MethodType) and r.__self__ is layer for r in gc.get_referrers(layer)):
                                pinned = True
                                break
                            layer = getattr(layer, '_fileobj', None)
                    for _ in range(6):          # ReadFileChunk -> (BandwidthLimitedStream) -> InterruptReader -> BytesIO
                        if fo is None:
                            break
                        if hasattr(fo, 'getbuffer'):
                            try:
                                fo.dead = True
                                fo.pinned = pinned
                            except AttributeError:
                                pass
                            break
                        fo = getattr(fo, '_fileobj', None)
                    I.log('task_end', t=self_.transfer_id, task=k)
            return __call__
        wrap(Task, '__call__', mk_call)

        def mk_wait_deps(orig):
            def _wait_on_dependent_futures(self_):
                orig(self_)
                I.log('deps_done', t=self_.transfer_id, task=I.task_id(self_))
            return _wait_on_dependent_futures
        wrap(Task, TN['wait_deps'], mk_wait_deps)

        def mk_get_kwargs(orig):
            def _get_all_main_kwargs(self_):
                r = orig(self_)
                # the done() check follows immediately (no yield point in between)
                co = I.peek(self_, TN['coordinator'], 'coordinator')
                I.log('done_check', t=self_.transfer_id, task=I.task_id(self_),
                      done=bool(co.done()) if co is not None else None)
                return r
            return _get_all_main_kwargs
        wrap(Task, TN['get_kwargs'], mk_get_kwargs)

        def mk_exec_main(orig):
            def _execute_main(self_, kwargs):
                k = I.task_id(self_)
                I.log('main_begin', t=self_.transfer_id, task=k)
                s.yield_point('main_begin')
                try:
                    r = orig(self_, kwargs)
                except BaseException as e:
                    I.log('main_end', t=self_.transfer_id, task=k, ok=False, exc=I.exc_desc(e))
                    raise
                I.log('main_end', t=self_.transfer_id, task=k, ok=True)
                return r
            return _execute_main
        wrap(Task, TN['execute_main'], mk_exec_main)

        def mk_wait_all(orig):
            def _wait_for_all_submitted_futures_to_complete(self_):
                orig(self_)
                I.log('wait_all_done', t=self_.transfer_id, task=I.task_id(self_))
            return _wait_for_all_submitted_futures_to_complete
        wrap(tasks.SubmissionTask, '_wait_for_all_submitted_futures_to_complete', mk_wait_all)

        def mk_dissoc(orig):
            def remove_associated_future(self_, future):
                orig(self_, future)
                I.log('dissoc', t=self_.transfer_id, task=I.fut_task.get(id(future), -1))
            return remove_associated_future
        wrap(TC, 'remove_associated_future', mk_dissoc)

        def mk_assoc(orig):
            def add_associated_future(self_, future):
                orig(self_, future)
                I.log('assoc', t=self_.transfer_id, task=I.fut_task.get(id(future), -1))
            return add_associated_future
        wrap(TC, 'add_associated_future', mk_assoc)

        TM = mods['manager'].TransferManager

        def mk_shutdown(orig):
            def _shutdown(self_, cancel, cancel_msg, exc_type=futures.CancelledError):
                I.log('shutdown_begin', cancel=bool(cancel), msg=str(cancel_msg),
                      etype=getattr(exc_type, '__name__', str(exc_type)))
                try:
                    return orig(self_, cancel, cancel_msg, exc_type)
                finally:
                    I.log('shutdown_return')
            return _shutdown
        wrap(TM, '_shutdown', mk_shutdown)

        # -- bounded executor / semaphores -----------------------------------------
        BE = futures.BoundedExecutor

        def mk_be_submit(orig):
            def submit(self_, task, tag=None, block=True):
                k = I.task_id(task)
                I.log('stage_submit_call', stage=I.stage_of(self_), task=k, t=task.transfer_id,
                      tag=getattr(tag, 'name', None), cls=type(task).__name__)
                fut = orig(self_, task, tag, block)
                I.fut_task[id(fut)] = k
                I.keep.append(fut)
                I.log('enqueued', stage=I.stage_of(self_), task=k, t=task.transfer_id,
                      tag=getattr(tag, 'name', None))
                return fut
            return submit
        wrap(BE, 'submit', mk_be_submit)

        def mk_be_shutdown(orig):
            def shutdown(self_, wait=True):
                I.log('executor_shutdown_call', stage=I.stage_of(self_))
                orig(self_, wait)
                I.log('executor_shutdown_return', stage=I.stage_of(self_))
            return shutdown
        wrap(BE, 'shutdown', mk_be_shutdown)

        for cls in (utils.TaskSemaphore, utils.SlidingWindowSemaphore):
            def mk_acq(orig, cls=cls):
                def acquire(self_, tag, blocking=True):
                    tok = orig(self_, tag, blocking)
                    I.log('sem_acquire', sem=I.sem_name(self_), tag=tag, token=tok)
                    return tok
                return acquire

            def mk_rel(orig, cls=cls):
                def release(self_, tag, acquire_token):
                    orig(self_, tag, acquire_token)
                    I.log('sem_release', sem=I.sem_name(self_), tag=tag, token=acquire_token)
                return release
            wrap(cls, 'acquire', mk_acq)
            wrap(cls, 'release', mk_rel)

        def mk_quiet_init(orig, names):
            def __init__(self_, *a, **k):
                orig(self_, *a, **k)
                for lk in list(vars(self_).values()):      # every lock / condition the object created
                    if hasattr(lk, 'post_yield'):
                        lk.post_yield = False
                    for inner in (getattr(lk, '_lock', None), getattr(lk, 'lock', None)):
                        if hasattr(inner, 'post_yield'):
                            inner.post_yield = False
            return __init__
        wrap(utils.SlidingWindowSemaphore, '__init__', lambda o: mk_quiet_init(o, None))
        wrap(utils.CountCallbackInvoker, '__init__', lambda o: mk_quiet_init(o, None))

        # -- count-down invoker ---------------------------------------------------
        CCI = utils.CountCallbackInvoker
        for nm in ('increment', 'decrement', 'finalize'):
            def mk_cci(orig, nm=nm):
                def f(self_):
                    orig(self_)
                    I.log('countdown', op=nm, obj=id(self_) % 100000, count=I.peek(self_, KN['count'], 'count'),
                          finalized=I.peek(self_, KN['finalized'], 'finalized'))
                return f
            wrap(CCI, nm, mk_cci)
        return self

    def on_state_lock_release(self, coord):
        """Called when a thread leaves a critical section of coord._lock: if it is
        inside cancel() this is the end of cancel's locked section."""
        me = self.sched.me()
        if self.in_cancel.get(id(me), 0) > 0 and not self.cancel_pending.get(id(me)):
            self.cancel_pending[id(me)] = True
            self.log('cancel_applied', t=coord.transfer_id, status=self.st(coord),
                     stored=self.exc_desc(self.ex(coord)))

    # ---- naming ----------------------------------------------------------------
    def bind_manager(self, manager):
        self.manager = manager
        stages = names.manager_stages(manager)
        self.stage_names = {id(ex): role for role, ex in stages.items()}
        for role in ('sub', 'req', 'io'):
            if role not in stages:
                self.broken.append(f'TransferManager: executor for stage {role!r} not found')
                continue
            sem = names.executor_semaphore(stages[role])
            if sem is None:
                self.broken.append(f'BoundedExecutor: semaphore of stage {role!r} not found')
            else:
                self.sem_names[id(sem)] = role
        if 'req' in stages:
            for tag, sem in names.executor_tag_semaphores(stages['req']).items():
                self.sem_names[id(sem)] = tag.name

    def stage_of(self, executor):
        return getattr(self, 'stage_names', {}).get(id(executor), 'exec?')

    def sem_name(self, sem):
        return self.sem_names.get(id(sem), 'sem?')

    def deps_of(self, task):
        out = []
        for v in (getattr(task, self.TN['pending_main_kwargs'], None) or {}).values():
            for f in (v if isinstance(v, list) else [v]):
                out.append(self.fut_task.get(id(f), -1))
        return out
