"""C18 -- shutdown is a barrier; transfers sharing a manager are isolated."""
from harness.props import sysrun
from harness.sched import monitors as M

PROP_FILE = ['C18', 'C18Frame', 'C19']


def mons():
    return [M.m_terminates, M.m_barrier, M.m_isolation, M.m_permits_restored, M.m_success_means_all_ok, M.m_shared_args_untouched]


def specs(ctx):
    rng = ctx.rng('c18')
    out = sysrun.specs_mixed(ctx, 400 if ctx.thorough() else 90, limits=(1, 2, 3), with_victims=True, tag='c18')
    # a victim cancelled (instead of failing) while the others run
    for i in range(120 if ctx.thorough() else 30):
        k = rng.choice([2, 3, 4])
        ts = [dict(rng.choice(sysrun.KINDS)) for _ in range(k)]
        out.append(dict(transfers=ts, cfg=sysrun.CFG_SMALL, chooser=sysrun.chooser(rng, i),
                        cancel=dict(how='future', at=rng.randrange(0, 90)), victims=['t0'], fresh_after=bool(i % 2)))
    # the user leaves the with-block (or is interrupted inside the shutdown wait) while
    # transfers are still in flight and one of them fails: shutdown must still be a barrier
    for i in range(200 if ctx.thorough() else 60):
        k = rng.choice([2, 3])
        ts = [dict(rng.choice([x for x in sysrun.KINDS if x['size'] >= 4])) for _ in range(k)]
        v = rng.randrange(k)
        spec = dict(transfers=ts, cfg=dict(sysrun.CFG_SMALL, max_request_concurrency=rng.choice([1, 2, 3])),
                    chooser=sysrun.chooser(rng, i), victims=[f't{v}'],
                    s3_fault=dict(key=f'k{v}', nth=rng.randrange(3), when=rng.choice(['before', 'after'])))
        if i % 3 == 2:
            spec['cancel'] = dict(how='exit_wait_kbi', at=rng.randrange(5, 80))
            spec['victims'] = [f't{j}' for j in range(k)]      # an interrupted shutdown cancels the rest
        else:
            spec['cancel'] = dict(how='exit_nowait')
        out.append(spec)
    # the caller reuses ONE extra_args dict for every transfer it submits (allowed for all four
    # kinds): no transfer may change it, and none may be refused because of what another one did
    for i in range(60 if ctx.thorough() else 16):
        ts = [dict(kind='upload', src=rng.choice(['path', 'seekable']), size=rng.choice([2, 10])),
              dict(kind='download', dst='path', size=rng.choice([2, 10])), dict(kind='delete', size=1),
              dict(kind='copy', size=rng.choice([2, 10]))]
        rng.shuffle(ts)
        spec = dict(transfers=ts, cfg=sysrun.CFG_SMALL, chooser=sysrun.chooser(rng, i), victims=[],
                    shared_extra_args={'RequestPayer': 'requester'}, fresh_after=bool(i % 2),
                    checksum=['when_supported', 'when_required'][i % 2])
        if i % 3 == 1:
            spec['victims'] = ['t0']
            spec['s3_fault'] = dict(key='k0', nth=0, when='before')
        out.append(spec)
    # one transfer cancelled in its earliest phases (not-started / queued / first steps) while others run
    for sp in sysrun.specs_early_cancel(ctx, sysrun.KINDS[::3], seeds=1 if not ctx.thorough() else 3):
        ts = sp['transfers'] + [dict(kind='download', dst='path', size=10)]
        out.append(dict(sp, transfers=ts, victims=['t0']))
    return out


def run(ctx):
    sysrun.run_specs(ctx, PROP_FILE, specs(ctx), mons(),
                     rule='2-4 concurrent transfers of different types on one manager, one of them failing at a random request (before/after '
                          'effect) or being cancelled at a random point, followed by a fresh transfer or by shutdown; checked: nothing happens '
                          'after shutdown returns and every earlier transfer is done; untargeted transfers succeed with correct bytes; all '
                          'permits are back; distinct = distinct event trace')


    # the process-pool downloader's shutdown: leaving the with-block (normally or by Ctrl-C) returns
    # only after the submitter and the workers were told to stop and joined, every download done
    from harness.props import c19
    if len(ctx.violations) < 5:
        c19.sub_check(ctx, 'interrupt')


def replay(ctx, data):
    return sysrun.replay_any(ctx, data, mons())
