"""C18 -- shutdown is a barrier; transfers sharing a manager are isolated."""
from harness.props import sysrun
from harness.sched import monitors as M

PROP_FILE = 'C18'


def mons():
    return [M.m_terminates, M.m_barrier, M.m_isolation, M.m_permits_restored, M.m_success_means_all_ok]


def specs(ctx):
    rng = ctx.rng('c18')
    out = sysrun.specs_mixed(ctx, 400 if ctx.thorough() else 90, limits=(1, 2, 3), with_victims=True, tag='c18')
    # a victim cancelled (instead of failing) while the others run
    for i in range(120 if ctx.thorough() else 30):
        k = rng.choice([2, 3, 4])
        ts = [dict(rng.choice(sysrun.KINDS)) for _ in range(k)]
        out.append(dict(transfers=ts, cfg=sysrun.CFG_SMALL, chooser=sysrun.chooser(rng, i),
                        cancel=dict(how='future', at=rng.randrange(0, 90)), victims=['t0'], fresh_after=bool(i % 2)))
    return out


def run(ctx):
    sysrun.run_specs(ctx, PROP_FILE, specs(ctx), mons(),
                     rule='2-4 concurrent transfers of different types on one manager, one of them failing at a random request (before/after '
                          'effect) or being cancelled at a random point, followed by a fresh transfer or by shutdown; checked: nothing happens '
                          'after shutdown returns and every earlier transfer is done; untargeted transfers succeed with correct bytes; all '
                          'permits are back; distinct = distinct event trace')


def replay(ctx, data):
    return sysrun.replay_spec(ctx, data, mons())
