"""C03 -- a future never reports success unless every step succeeded."""
from harness.props import sysrun
from harness.sched import monitors as M

PROP_FILE = ['C03', 'C02Legacy', 'C19']


def mons():
    return [M.m_terminates, M.m_success_means_all_ok, lambda r: M.m_attempt_bound(r, 5), M.m_no_retry_after_fatal,
            M.m_cancel, M.m_stream_order]


def specs(ctx):
    seeds = 3 if ctx.thorough() else 1
    s = sysrun.specs_faults(ctx, sysrun.KINDS, seeds=seeds)
    # 'or the cancellation error if the transfer was cancelled first': a cancel followed by a fault
    pts = list(range(2, 110, 9 if not ctx.thorough() else 4))
    for sp in sysrun.specs_cancel(ctx, sysrun.KINDS[::2], ['future'], pts):
        s.append(sp)
        s.append(dict(sp, s3_fault=dict(idx=2, when='before')))
    s += sysrun.specs_nonthreaded_interrupt(ctx, sysrun.KINDS)
    s += sysrun.specs_torn_state(ctx, sysrun.MULTIPART + sysrun.KINDS[::4], seeds=1 if not ctx.thorough() else 3)
    # a source object whose close() returns a truthy value (nothing forbids it): a failing request must
    # still fail the transfer
    s += [sp for sp in sysrun.specs_faults(ctx, [dict(kind='upload', src='seekable_close_true', size=2),
                                                 dict(kind='upload', src='seekable_close_true', size=10)], seeds=1, tag='closetrue')
          if sp.get('s3_fault')]
    # a stage's pool refuses a task (no new worker thread can be started): the transfer must fail with that error
    s += sysrun.specs_submit_fault(ctx, sysrun.KINDS[:: (1 if ctx.thorough() else 2)], seeds=1)
    if ctx.thorough():
        # pairs of faults in the small scenarios
        for ts in sysrun.KINDS[:8]:
            for i in range(5):
                for j in range(i + 1, 6):
                    s.append(dict(transfers=[ts], cfg=sysrun.CFG_SMALL, chooser={'kind': 'random', 'seed': i * 7 + j},
                                  s3_fault=dict(idx=i, when='after'), fs_fault=dict(op='write', nth=j)))
    return s


def run(ctx):
    sysrun.run_specs(ctx, PROP_FILE, specs(ctx), mons(),
                     rule='one fault (S3 call before/after its effect, stream fault, source read, file op, raising callback) at every '
                          'position of every transfer type/mode, under random/PCT schedules; distinct = distinct event trace')


    # the other front-ends the statement covers: the legacy downloader (faults at every request /
    # stream position: success only with the complete object) and the process pool (every single
    # job / allocate / rename / head fault: done without exception only with every range in place)
    from harness.props import legacy, c19
    if len(ctx.violations) < 5:
        legacy.check_c02(ctx)
    if len(ctx.violations) < 5:
        c19.sub_check(ctx, 'faults')


def replay(ctx, data):
    return sysrun.replay_any(ctx, data, mons())
