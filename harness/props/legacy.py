"""The legacy front-end (s3transfer/__init__.py: S3Transfer.upload_file /
download_file, MultipartUploader, MultipartDownloader) for C05, C06 and C02.

Proofs: coq/props/C05Legacy.v, C06Legacy.v, C02Legacy.v over coq/model/Legacy.v.
Tie: the REAL S3Transfer (its own ThreadPoolExecutors, real threads) is run in a
child process against harness/fakes3.FakeS3 with a fault at every call position
(before / after the effect), stream faults after k bytes with short reads, and
OS-level faults through an OSUtils subclass (open / write / rename); what it did
(request log, Range headers, part numbers, attempt numbers, file writes, final
destination / temp files, outcome class) is compared with the extracted model.
Where the model has a scheduler parameter (completion order of parts, number of
parts/ranges already started when a failure surfaced, IO-queue interleaving) the
comparison is order-insensitive and the parameter is read off the run, its
constraints (prefix-closed, abort after every other response) are checked.

    check_c05(ctx)   uploads      -- called from harness/props/c05.py
    check_c06(ctx)   downloads, every fault position, destination sampled at every hook
    check_c02(ctx)   downloads, retry scripts, exact bytes / attempts
    replay(ctx, data)
    liveness_probe(ctx=None, timeout=8)   side observation, never a VIOLATION

Stand-alone:  python -m harness.props.legacy
"""
import json
import os
import queue as _queue
import re
import shutil
import subprocess
import sys
import tempfile
import threading
import traceback

from harness import common
from harness.common import hx

PROPS = ['C05Legacy', 'C06Legacy', 'C02Legacy']
EXTRACT = ['ExLegacy']
COMPONENTS = ['legacy']

RETRYABLE = ['sock', 'os', 'rto', 'inc', 'rse']      # the five classes of the except clause
FATAL = ['fake', 'val']
OLD = b'OLD-CONTENT'


def make_obj(size):
    return bytes((7 * i + 3) % 251 for i in range(size))


def cls_letter(code):
    return 'r' if code in RETRYABLE else 'f'


# ======================================================================
# child side: run the real code, return observations
# ======================================================================

def _make_exc(code, tag):
    import socket
    from botocore.exceptions import IncompleteReadError, ResponseStreamingError
    from botocore.vendored.requests.packages.urllib3.exceptions import ReadTimeoutError
    from harness.fakes3 import FakeFault
    if code == 'sock':
        return socket.timeout(tag)
    if code == 'os':
        return ConnectionResetError(tag)
    if code == 'rto':
        return ReadTimeoutError(None, 'url', tag)
    if code == 'inc':
        return IncompleteReadError(actual_bytes=0, expected_bytes=1)
    if code == 'rse':
        return ResponseStreamingError(error=tag)
    if code == 'fake':
        return FakeFault(tag)
    if code == 'val':
        return ValueError(tag)
    raise KeyError(code)


def _classify_download_exc(e):
    from s3transfer import QueueShutdownError
    from s3transfer.exceptions import RetriesExceededError
    msg = str(e)
    if isinstance(e, RetriesExceededError):
        return 'retries-exceeded'
    if isinstance(e, QueueShutdownError) or 'inj:io-' in msg:
        return 'io-err'
    if 'inj:rename' in msg:
        return 'rename-err'
    if 'inj:head' in msg:
        return 'head-err'
    if 'inj:' in msg:
        return 'fatal'
    return f'unexpected:{type(e).__name__}:{msg[:80]}'


def child_download(c):
    from s3transfer import S3Transfer, TransferConfig, OSUtils
    from harness.fakes3 import FakeS3, FakeFault
    size, thr, chunk = c['size'], c['thr'], c['chunk']
    ranged = size >= thr
    obj = make_obj(size)
    old = OLD if c.get('old') else None
    d = tempfile.mkdtemp(prefix='verif-legacy-')
    dst = os.path.join(d, 'dest.bin')
    if old is not None:
        with open(dst, 'wb') as f:
            f.write(old)
    client = FakeS3()
    client.objects[('b', 'k')] = obj
    lock = threading.Lock()
    att = {}
    obs = {'gets': [], 'opens': [], 'writes': [], 'removes': 0, 'renames': [], 'samples': 0,
           'bad_samples': [], 'temp_names_bad': [], 'extra_args_seen': True}

    def sample(at):
        try:
            with open(dst, 'rb') as f:
                cur = f.read()
        except FileNotFoundError:
            cur = None
        with lock:
            obs['samples'] += 1
            if cur != old and cur != obj and len(obs['bad_samples']) < 3:
                obs['bad_samples'].append({'at': at, 'dest': None if cur is None else cur.hex()})

    def script_for(rng, k):
        if rng is None:
            lst = c.get('single') or []
        else:
            i = int(re.match(r'bytes=(\d+)-', rng).group(1)) // chunk
            rl = c.get('ranged') or []
            lst = rl[i] if i < len(rl) else []
        return lst[k] if k < len(lst) else {}

    def fault(rec, when):
        op = rec['op']
        if op == 'HeadObject':
            if c.get('head_fault') == when:
                return FakeFault('inj:head')
            return None
        if op == 'GetObject':
            rng = rec['kwargs'].get('Range')
            if when == 'before':
                with lock:
                    k = att.get(rng, 0)
                    att[rng] = k + 1
                    rec['my_att'] = k
                    rec['my_ok'] = True
                    obs['gets'].append(rec)
            g = script_for(rng, rec['my_att']).get('get')
            if g and g[0] == when:
                rec['my_ok'] = False
                return _make_exc(g[1], 'inj:get')
        return None

    def get_script(kw, _att):
        rng = kw.get('Range')
        with lock:
            k = att[rng] - 1
        a = script_for(rng, k)
        out = {}
        if a.get('reads'):
            out['read_sizes'] = list(a['reads'])
        if a.get('fa'):
            out['fail_after'] = a['fa'][0]
            out['exc'] = _make_exc(a['fa'][1], 'inj:stream')
        return out

    client.fault = fault
    client.get_script = get_script
    client.on_event = lambda kind, rec: sample(f'{rec["op"]}:{kind}')

    class WFile:
        def __init__(self, f, wf):
            self.f, self.pos, self.n, self.wf = f, 0, 0, wf

        def __enter__(self):
            return self

        def __exit__(self, *a):
            self.f.close()
            sample('close')

        def seek(self, off):
            self.pos = off
            self.f.seek(off)

        def write(self, data):
            sample('write:before')
            if c.get('io_delay'):
                import time
                time.sleep(c['io_delay'])        # liveness probe only: let the producer fill the queue
            j = self.n
            self.n += 1
            if self.wf is not None and self.wf[0] == j:
                with lock:
                    obs['writes'].append([self.pos, bytes(data).hex(), False])
                raise _make_exc(self.wf[1], self.wf[2])
            self.f.write(data)
            self.f.flush()
            with lock:
                obs['writes'].append([self.pos, bytes(data).hex(), True])
            self.pos += len(data)
            sample('write:after')

    class OSU(OSUtils):
        def open(self, filename, mode):
            sample('open')
            if not re.fullmatch(re.escape(dst) + r'\.[0-9a-fA-F]{8}', filename):
                obs['temp_names_bad'].append(os.path.basename(filename))
            if ranged:
                if c.get('io_open_fault'):
                    obs['opens'].append([mode, False])
                    raise OSError('inj:io-open')
                wf = None if c.get('io_fail') is None else (c['io_fail'], 'os', 'inj:io-write')
            else:
                with lock:
                    k = att.get(None, 1) - 1
                a = script_for(None, k)
                if a.get('open'):
                    obs['opens'].append([mode, False])
                    raise _make_exc(a['open'], 'inj:open')
                wf = None if not a.get('wf') else (a['wf'][0], a['wf'][1], 'inj:write')
            obs['opens'].append([mode, True])
            return WFile(open(filename, mode), wf)

        def rename_file(self, cur, new):
            sample('rename:before')
            if c.get('rename_fault'):
                obs['renames'].append(False)
                raise OSError('inj:rename')
            super().rename_file(cur, new)
            obs['renames'].append(True)
            sample('rename:after')

        def remove_file(self, filename):
            sample('remove:before')
            obs['removes'] += 1
            super().remove_file(filename)
            sample('remove:after')

    cfg = TransferConfig(multipart_threshold=thr, multipart_chunksize=chunk,
                         max_concurrency=c.get('conc', 1), num_download_attempts=c.get('max', 1),
                         max_io_queue=c.get('max_io_queue', 100))
    extra = {'RequestPayer': 'requester'} if c.get('extra') else None
    try:
        S3Transfer(client, cfg, OSU()).download_file('b', 'k', dst, extra_args=extra)
        outcome = 'ok'
    except Exception as e:
        outcome = _classify_download_exc(e)
    sample('end')
    try:
        with open(dst, 'rb') as f:
            final = f.read().hex()
    except FileNotFoundError:
        final = None
    obs['outcome'] = outcome
    obs['dest'] = final
    obs['temp_left'] = sorted(n for n in os.listdir(d) if n != 'dest.bin')
    gets = []
    for r in obs['gets']:
        if extra and r['kwargs'].get('RequestPayer') != 'requester':
            obs['extra_args_seen'] = False
        gets.append([r['kwargs'].get('Range'), r['my_att'], bool(r['my_ok'])])
    obs['gets'] = gets
    obs['heads'] = len(client.calls('HeadObject'))
    shutil.rmtree(d, ignore_errors=True)
    return obs


def child_upload(c):
    from s3transfer import S3Transfer, TransferConfig
    from s3transfer.exceptions import S3UploadFailedError
    from harness.fakes3 import FakeS3, FakeFault
    size, thr, chunk = c['size'], c['thr'], c['chunk']
    data = make_obj(size)
    d = tempfile.mkdtemp(prefix='verif-legacy-')
    src = os.path.join(d, 'src.bin')
    with open(src, 'wb') as f:
        f.write(data)
    client = FakeS3()
    opname = {'CreateMultipartUpload': 'create', 'UploadPart': 'part', 'CompleteMultipartUpload': 'complete',
              'AbortMultipartUpload': 'abort', 'PutObject': 'put'}

    def fault(rec, when):
        op = opname.get(rec['op'])
        for f in c.get('faults') or []:
            if f['op'] == op and f['when'] == when and \
                    (f.get('pn') is None or rec['kwargs'].get('PartNumber') == f['pn']):
                return FakeFault('inj:' + op)
        return None

    client.fault = fault
    cfg = TransferConfig(multipart_threshold=thr, multipart_chunksize=chunk, max_concurrency=c.get('conc', 1))
    try:
        S3Transfer(client, cfg).upload_file(src, 'b', 'k')
        outcome = 'ok'
    except S3UploadFailedError:
        outcome = 'upload-failed'
    except FakeFault as e:
        outcome = {'inj:create': 'create-err', 'inj:abort': 'abort-err', 'inj:put': 'put-err',
                   'inj:complete': 'complete-err'}.get(e.tag, f'unexpected:FakeFault:{e.tag}')
    except Exception as e:
        outcome = f'unexpected:{type(e).__name__}:{str(e)[:80]}'
    log = []
    for r in client.log:
        log.append({'op': opname.get(r['op'], r['op']), 'pn': r['kwargs'].get('PartNumber'), 'idx': r['idx'],
                    'outcome': r['outcome'], 'done': r['done'], 'upload_id': r['kwargs'].get('UploadId') or r.get('upload_id'),
                    'others_inflight': r.get('others_inflight'), 'body_len': r.get('body_len'),
                    'state_at_effect': r.get('state_at_effect')})
    obs = {'outcome': outcome, 'log': log,
           'uploads': {u: {'state': v['state'], 'completes': v['completes'], 'aborts': v['aborts']}
                       for u, v in client.uploads.items()},
           'stored_ok': client.objects.get(('b', 'k')) == data,
           'stored': ('b', 'k') in client.objects}
    shutil.rmtree(d, ignore_errors=True)
    return obs


def child_main(path, start):
    common.setup_repo_path()
    import s3transfer                       # noqa: F401  (import cost before READY)
    import botocore.exceptions              # noqa: F401
    cases = json.load(open(path))
    sys.stdout.write('READY\n')
    sys.stdout.flush()
    for c in cases[start:]:
        try:
            obs = child_download(c) if c['kind'] == 'dl' else child_upload(c)
        except BaseException:
            obs = {'crash': traceback.format_exc()[-1500:]}
        sys.stdout.write(json.dumps(obs) + '\n')
        sys.stdout.flush()
    sys.stdout.flush()
    os._exit(0)      # do not join executor threads a hung case may have left behind


# ======================================================================
# parent side
# ======================================================================

def run_cases(cases, per_case_timeout=20, max_hangs=3):
    """Run the cases in a child; a case that does not return within the timeout
    is reported as {'hang': True} and the rest continues in a fresh child.  After
    `max_hangs` hangs the remaining cases are not run ({'skipped': True}): the
    hangs found are violations already and the check must end in bounded time."""
    results = [None] * len(cases)
    hangs = 0
    if not cases:
        return results
    d = tempfile.mkdtemp(prefix='verif-legacy-')
    path = os.path.join(d, 'cases.json')
    json.dump(cases, open(path, 'w'))
    env = dict(os.environ)
    env['PYTHONPATH'] = common.REPO + os.pathsep + common.VERIF
    env['VERIF_REPO'] = common.REPO
    env['PYTHONDONTWRITEBYTECODE'] = '1'
    env['TMPDIR'] = d            # whatever a killed child leaves behind goes with d
    i = 0
    errpath = os.path.join(d, 'stderr.txt')
    try:
        while i < len(cases):
            if hangs >= max_hangs:
                for j in range(i, len(cases)):
                    results[j] = {'skipped': True}
                break
            errf = open(errpath, 'w')
            p = subprocess.Popen([common.PY, '-m', 'harness.props.legacy', '--child', path, str(i)],
                                 stdout=subprocess.PIPE, stderr=errf, env=env, cwd=common.VERIF, text=True)
            q = _queue.Queue()

            def reader(p=p, q=q):
                for line in p.stdout:
                    q.put(line)
                q.put(None)
            threading.Thread(target=reader, daemon=True).start()
            try:
                line = q.get(timeout=60)             # imports
            except _queue.Empty:
                line = None
            if line is None or line.strip() != 'READY':
                errf.flush()
                results[i] = {'crash': 'child did not start: ' + open(errpath).read()[-1500:]}
                i += 1
                p.kill()
                p.wait()
                errf.close()
                continue
            while i < len(cases):
                try:
                    line = q.get(timeout=per_case_timeout)
                except _queue.Empty:
                    results[i] = {'hang': True}
                    hangs += 1
                    i += 1
                    break
                if line is None:
                    errf.flush()
                    results[i] = {'crash': 'child exited early: ' + open(errpath).read()[-1500:]}
                    i += 1
                    break
                results[i] = json.loads(line)
                i += 1
            p.kill()
            p.wait()
            errf.close()
    finally:
        shutil.rmtree(d, ignore_errors=True)
    return results


_MODEL_OK = None


def ensure_model(ctx):
    """Build the three theorem files, the extraction and the driver.  Returns
    True when the model can be used; on a break records it in ctx.legacy_broken."""
    global _MODEL_OK
    if _MODEL_OK is None:
        try:
            common.build(PROPS[0], EXTRACT, COMPONENTS)
            with common.Lock():
                common.coq_make([f'props/{pf}.vo' for pf in PROPS[1:]])
            _MODEL_OK = True
        except common.BuildBroken as b:
            _MODEL_OK = b
    if _MODEL_OK is True:
        return True
    ctx.legacy_broken = _MODEL_OK
    ctx.notes.append(f'legacy: BROKEN: {_MODEL_OK.what}')
    return False


# ---------------------------------------------------------------- uploads

def upload_model_line(c, obs):
    size, thr, chunk = c['size'], c['thr'], c['chunk']
    n = -(-size // chunk) if size >= thr else 0
    fl = c.get('faults') or []
    def has(op, pn=None):
        return any(f['op'] == op and (pn is None or f.get('pn') == pn) for f in fl)
    parts = ''.join('0' if has('part', i) else '1' for i in range(1, n + 1)) or '.'
    started = sum(1 for r in obs['log'] if r['op'] == 'part')
    return (f'up {hx(size)} {hx(thr)} {hx(chunk)} {0 if has("create") else 1} {parts} {hx(started)} '
            f'{0 if has("complete") else 1} {0 if has("abort") else 1} {0 if has("put") else 1}')


def upload_canon(obs):
    """impl log in the model's syntax, parts sorted by number"""
    def ok(r):
        return '1' if r['outcome'] == 'ok' else '0'
    evs, parts = [], []
    for r in obs['log']:
        if r['op'] == 'part':
            parts.append((r['pn'], f'P{hx(r["pn"])}/{ok(r)}'))
        else:
            evs.append({'create': 'C', 'complete': 'K', 'abort': 'A', 'put': 'U'}.get(r['op'], '?' + r['op']) + ok(r))
    head = [e for e in evs if e[0] in 'CU']
    tail = [e for e in evs if e[0] not in 'CU']
    return obs['outcome'] + ' ' + ','.join(head + [p for _, p in sorted(parts)] + tail)


def upload_oracle(c, obs):
    """C05 on what the fake service saw; None or a description."""
    if obs.get('hang'):
        return 'upload_file did not return'
    if obs.get('crash'):
        return 'harness child crashed: ' + obs['crash'][-300:]
    log = obs['log']
    if str(obs['outcome']).startswith('unexpected'):
        return f'upload_file raised {obs["outcome"]}'
    creates = [r for r in log if r['op'] == 'create']
    if len(creates) > 1:
        return 'more than one create_multipart_upload'
    if not creates:
        if any(r['op'] in ('part', 'complete', 'abort') for r in log):
            return 'part/complete/abort without a create'
        return None
    cr = creates[0]
    rest = [r for r in log if r['op'] in ('part', 'complete', 'abort')]
    if cr['outcome'] != 'ok':            # the id was never received
        if rest:
            return 'requests for an upload whose create failed'
        if obs['outcome'] == 'ok':
            return 'upload_file succeeded although create failed'
        return None
    if any(r['idx'] < cr['idx'] for r in rest):
        return 'a request for the upload began before create'
    if any(not r['done'] for r in log):
        return 'a request was still in flight when upload_file returned'
    completes = [r for r in rest if r['op'] == 'complete']
    aborts = [r for r in rest if r['op'] == 'abort']
    if len(completes) > 1:
        return f'{len(completes)} complete requests'
    ok_complete = [r for r in completes if r['outcome'] == 'ok']
    if obs['outcome'] == 'ok':
        if len(ok_complete) != 1 or aborts:
            return f'success with {len(ok_complete)} successful completes and {len(aborts)} aborts'
        if not obs['stored_ok']:
            return 'success but the stored object differs from the file'
        return None
    if not aborts:
        return (f'upload_file raised ({obs["outcome"]}) after the upload id was received and no abort was issued '
                f'(requests: {[r["op"] for r in log]})')
    if ok_complete:
        return 'an abort although the complete succeeded'
    if len(aborts) > 1:
        return f'{len(aborts)} aborts'
    ab = aborts[0]
    if ab['others_inflight']:
        return f'abort issued while requests {ab["others_inflight"]} of the upload were in flight'
    if any(r['idx'] > ab['idx'] for r in rest):
        return 'a part/complete request was issued after the abort'
    return None


def upload_cases(ctx):
    rng = ctx.rng('legacy-up')
    cases = []
    sizes = [0, 1, 3, 4, 5, 8, 9, 12] if not ctx.thorough() else list(range(0, 14))
    k = 0
    for chunk in (1, 2, 3, 4, 5):
        for thr in sorted({chunk, 4, 0}):
            for size in sizes:
                n = -(-size // chunk) if size >= thr else None
                if n is not None and n > 9:
                    continue
                base = dict(kind='up', size=size, thr=thr, chunk=chunk)
                fsets = [[]]
                if n is None:
                    fsets += [[dict(op='put', when=w)] for w in ('before', 'after')]
                else:
                    for w in ('before', 'after'):
                        fsets.append([dict(op='create', when=w)])
                        fsets.append([dict(op='complete', when=w)])
                        fsets.append([dict(op='complete', when=w), dict(op='abort', when=w)])
                        pns = range(1, n + 1) if (ctx.thorough() or n <= 4) else sorted({1, 2, n, rng.randrange(1, n + 1)})
                        for pn in pns:
                            fsets.append([dict(op='part', pn=pn, when=w)])
                    if n >= 1:
                        fsets.append([dict(op='part', pn=1, when='before'), dict(op='abort', when='before')])
                    if n >= 3:
                        a, b = sorted(rng.sample(range(1, n + 1), 2))
                        fsets.append([dict(op='part', pn=a, when='after'), dict(op='part', pn=b, when='before')])
                for fs in fsets:
                    k += 1
                    cases.append(dict(base, faults=fs, conc=1 + k % 3))
    return cases


def _report_case(ctx, sig, what, case, oracle_name, kind='history', extra=None):
    data = {'kind': kind, 'component': 'legacy', 'oracle': oracle_name, 'case': case}
    if extra:
        data.update(extra)
    ctx.report(sig, what, data)


def _broken_report(ctx, found):
    b = getattr(ctx, 'legacy_broken', None)
    if b is not None and not found:
        ctx.report('broken:legacy:' + b.what, 'legacy: ' + b.what,
                   {'kind': 'theorem', 'theorem_or_correspondence': b.what, 'log': b.log}, no_input=True)


def check_c05(ctx):
    """C05 for the legacy uploader.  Reports through ctx.report."""
    have_model = ensure_model(ctx)
    cases = upload_cases(ctx)
    obs = run_cases(cases)
    lines = [upload_model_line(c, o) if 'log' in o else 'up 0 1 1 1 . 0 1 1 1' for c, o in zip(cases, obs)]
    model = common.run_model('legacy', lines) if have_model else [None] * len(cases)
    found = 0
    clean = []
    for c, o, l, m in zip(cases, obs, lines, model):
        if o.get('skipped'):
            continue
        r = upload_oracle(c, o)
        path = 'multipart' if c['size'] >= c['thr'] else 'put'
        ctx.count('legacy-upload', 1, nontrivial_key=json.dumps(c, sort_keys=True), path=path,
                  outcome=str(o.get('outcome')).split(':')[0], faults=len(c.get('faults') or []))
        if r:
            found += 1
            _report_case(ctx, 'legacy:c05:' + _sig_up(c), f'legacy upload_file {c}: {r}', c, 'c05')
        else:
            clean.append((c, o, m))
    for c, o, m in clean:
        if m is not None and upload_canon(o) != m:
            found += 1
            ctx.report('corr:legacy:upload:' + _sig_up(c),
                       f'legacy upload model and implementation disagree on {c}: impl={upload_canon(o)} model={m}',
                       {'kind': 'correspondence', 'theorem_or_correspondence': 'differential legacy/upload',
                        'oracle': 'c05', 'case': c, 'impl': upload_canon(o), 'model': m}, no_input=True)
    # what each part read from the file (legacy ReadFileChunk): start/length from the model
    if have_model:
        ext = {}
        for c, o in zip(cases, obs):
            for r in o.get('log', []):
                if r['op'] == 'part' and r.get('body_len') is not None:
                    ext.setdefault((c['size'], c['chunk'], r['pn']), set()).add(r['body_len'])
                if r['op'] == 'put' and r.get('body_len') is not None and r['body_len'] != c['size']:
                    ctx.report(f'legacy:c05:put-body:{c["size"]}', f'put_object body of {r["body_len"]} bytes for a file of {c["size"]}',
                               {'kind': 'input', 'component': 'legacy', 'oracle': 'c05', 'case': c})
        keys = sorted(ext)
        outs = common.run_model('legacy', [f'ext {hx(s)} {hx(ch)} {hx(pn)}' for s, ch, pn in keys])
        for (s_, ch, pn), mo in zip(keys, outs):
            ctx.count('legacy-part-extent', 1, nontrivial_key=(s_, ch, pn))
            want = int(mo.split('/')[1], 16)
            if ext[(s_, ch, pn)] != {want}:
                ctx.report(f'corr:legacy:part-extent:{s_}:{ch}:{pn}',
                           f'part {pn} of a {s_}-byte file (chunk {ch}) sent {sorted(ext[(s_, ch, pn)])} bytes, model {want}',
                           {'kind': 'correspondence', 'theorem_or_correspondence': 'differential legacy/part-extent',
                            'case': {'size': s_, 'chunk': ch, 'pn': pn}}, no_input=True)
    if cases:
        ctx.sample({'component': 'legacy-upload', 'case': cases[-1], 'model_cmd': lines[-1],
                    'impl': upload_canon(obs[-1]) if 'log' in obs[-1] else obs[-1], 'model': model[-1]})
    _broken_report(ctx, found)


def _sig_up(c):
    fs = '+'.join(f"{f['op']}{f.get('pn') or ''}{f['when'][0]}" for f in c.get('faults') or []) or 'nofault'
    return f"{c['size']}:{c['thr']}:{c['chunk']}:{fs}"


# ---------------------------------------------------------------- downloads

def _attempt_str(a):
    g = a.get('get')
    o = a.get('open')
    rd = ','.join(hx(x) for x in a.get('reads') or []) or '.'
    fa = a.get('fa')
    wf = a.get('wf')
    return ':'.join([cls_letter(g[1]) if g else '-', cls_letter(o) if o else '-', rd,
                     (hx(fa[0]) + cls_letter(fa[1])) if fa else '-',
                     (hx(wf[0]) + cls_letter(wf[1])) if wf else '-'])


def download_model_line(c, obs):
    size, thr, chunk = c['size'], c['thr'], c['chunk']
    obj = make_obj(size)
    started = len({g[0] for g in obs.get('gets', [])})
    single = ';'.join(_attempt_str(a) for a in c.get('single') or []) or '.'
    return ' '.join(['dl', hx(thr), hx(chunk), hx(c.get('max', 1)), obj.hex() or '.',
                     'S' + OLD.hex() if c.get('old') else 'N',
                     '0' if c.get('head_fault') else '1', '0' if c.get('rename_fault') else '1',
                     '0' if c.get('io_open_fault') else '1',
                     '-' if c.get('io_fail') is None else hx(c['io_fail']),
                     hx(started), '.', single, _ranged_str(c)])


def _ranged_str(c):
    rl = c.get('ranged') or []
    if not rl:
        return '.'
    # every range positional; an empty script is one fault-free attempt
    return '|'.join((';'.join(_attempt_str(a) for a in lst) or '-:-:.:-:-') for lst in rl)


def parse_model_dl(m):
    parts = m.split(' ')
    out = {'outcome': parts[0]}
    for p in parts[1:]:
        k, v = p.split('=', 1)
        out[k] = v
    evs = [e for e in out.get('EV', '').split(',') if e]
    out['gets'], out['writes'], out['opens'], out['rm'], out['rn'] = [], [], [], 0, []
    for e in evs:
        if e[0] == 'G':
            r, a, ok = e[1:].split('/')
            if r == '-':
                rng = None
            else:
                s, en = r.split(':')
                rng = f'bytes={int(s, 16)}-' + ('' if en == '-' else str(int(en, 16)))
            out['gets'].append([rng, int(a, 16), ok == '1'])
        elif e[0] == 'W':
            off, d, ok = e[1:].split('/')
            out['writes'].append([int(off, 16), '' if d == '.' else d, ok == '1'])
        elif e[0] == 'O':
            out['opens'].append(e[1] == '1')
        elif e == 'RM':
            out['rm'] += 1
        elif e.startswith('RN'):
            out['rn'].append(e[2] == '1')
    return out


def download_compare(c, o, m):
    """list of differences between the observation and the model's answer"""
    if 'outcome' not in o:
        return ['no observation']
    pm = parse_model_dl(m)
    diffs = []
    ranged = c['size'] >= c['thr']
    io_fault = ranged and (c.get('io_fail') is not None)
    if 'X' in pm.get('P', ''):
        diffs.append('model prefix with a partial destination (contradicts the theorem)')
    if o['outcome'] != pm['outcome']:
        diffs.append(f'outcome impl={o["outcome"]} model={pm["outcome"]}')
    md = None if pm['D'] == 'N' else pm['D'][1:]
    if o['dest'] != md:
        diffs.append(f'final destination impl={o["dest"]} model={md}')
    if (pm['T'] != 'N') != bool(o['temp_left']):
        diffs.append(f'temp file left impl={o["temp_left"]} model={pm["T"]}')
    key = lambda g: (g[0] or '', g[1], g[2])
    if not ranged:
        if o['gets'] != pm['gets']:
            diffs.append(f'requests impl={o["gets"]} model={pm["gets"]}')
        if o['writes'] != pm['writes']:
            diffs.append(f'writes impl={o["writes"]} model={pm["writes"]}')
        if [x[1] for x in o['opens']] != pm['opens']:
            diffs.append(f'opens impl={o["opens"]} model={pm["opens"]}')
    elif not io_fault:
        if sorted(o['gets'], key=key) != sorted(pm['gets'], key=key):
            diffs.append(f'requests impl={sorted(o["gets"], key=key)} model={sorted(pm["gets"], key=key)}')
        if sorted(o['writes']) != sorted(pm['writes']):
            diffs.append(f'writes impl={sorted(o["writes"])} model={sorted(pm["writes"])}')
        # per range the IO thread keeps the queueing order
        for i in range(-(-c['size'] // c['chunk'])):
            lo, hi = i * c['chunk'], (i + 1) * c['chunk']
            a = [w for w in o['writes'] if lo <= w[0] < hi]
            b = [w for w in pm['writes'] if lo <= w[0] < hi]
            if a != b:
                diffs.append(f'writes of range {i} in a different order impl={a} model={b}')
                break
        if [x[1] for x in o['opens']] != pm['opens']:
            diffs.append(f'opens impl={o["opens"]} model={pm["opens"]}')
    else:
        mg = sorted(pm['gets'], key=key)
        for g in o['gets']:
            if g in mg:
                mg.remove(g)
            else:
                diffs.append(f'request {g} not among the model\'s')
                break
    if any(x[0] != 'wb' for x in o['opens']):
        diffs.append(f'temp file opened with mode {[x[0] for x in o["opens"]]}')
    if o['removes'] != pm['rm']:
        diffs.append(f'remove_file calls impl={o["removes"]} model={pm["rm"]}')
    if o['renames'] != pm['rn']:
        diffs.append(f'rename calls impl={o["renames"]} model={pm["rn"]}')
    if o['heads'] != 1:
        diffs.append(f'{o["heads"]} head_object calls')
    return diffs


def c06_oracle(c, o):
    if o.get('hang'):
        return 'download_file did not return'
    if o.get('crash'):
        return 'harness child crashed: ' + o['crash'][-300:]
    obj = make_obj(c['size']).hex()
    old = OLD.hex() if c.get('old') else None
    if o['bad_samples']:
        b = o['bad_samples'][0]
        return f'destination held partial content {b["dest"]} at {b["at"]}'
    if o['temp_left']:
        return f'temporary file(s) {o["temp_left"]} left behind (outcome {o["outcome"]})'
    if o['outcome'] == 'ok':
        if o['dest'] != obj:
            return f'success but destination holds {o["dest"]}, object is {obj}'
    else:
        if str(o['outcome']).startswith('unexpected'):
            return f'download_file raised {o["outcome"]}'
        if o['dest'] != old:
            return f'failure ({o["outcome"]}) but destination changed to {o["dest"]}'
    if o['temp_names_bad']:
        return f'writes went to {o["temp_names_bad"]}: not <destination>.<8 hex digits>'
    return None


def c02_oracle(c, o):
    if o.get('hang'):
        return 'download_file did not return'
    if o.get('crash'):
        return 'harness child crashed: ' + o['crash'][-300:]
    obj = make_obj(c['size']).hex()
    if o['outcome'] == 'ok' and o['dest'] != obj:
        return f'success but destination holds {o["dest"]}, object is {obj}'
    if str(o['outcome']).startswith('unexpected'):
        return f'download_file raised {o["outcome"]}'
    per = {}
    for rng, att, ok in o['gets']:
        per.setdefault(rng, []).append(att)
    mx = c.get('max', 1)
    for rng, atts in per.items():
        if len(atts) > mx:
            return f'{len(atts)} get_object calls for range {rng}, num_download_attempts={mx}'
        if sorted(atts) != list(range(len(atts))):
            return f'attempt numbers {atts} for range {rng}'
    # a non-retryable error is not retried
    ranged = c['size'] >= c['thr']
    for rng, atts in per.items():
        if rng is None:
            lst = c.get('single') or []
        else:
            i = int(re.match(r'bytes=(\d+)-', rng).group(1)) // c['chunk']
            rl = c.get('ranged') or []
            lst = rl[i] if i < len(rl) else []
        size_r = c['size'] if rng is None else min(c['chunk'], c['size'] - i * c['chunk'])
        for k, a in enumerate(lst[:len(atts)]):
            fatal = (a.get('get') and a['get'][1] in FATAL) or \
                    (a.get('fa') and a['fa'][1] in FATAL and a['fa'][0] <= size_r and not a.get('get'))
            if fatal and len(atts) > k + 1:
                return f'range {rng}: attempt {k} failed with a non-retryable error and was retried'
    if not o.get('extra_args_seen', True):
        return None     # C15's business
    if good_case(c) and o['outcome'] != 'ok':
        return f'fewer than num_download_attempts retryable faults per request but download_file raised {o["outcome"]}'
    return None


def good_case(c):
    """fewer than max retryable faults per request and nothing else fails"""
    if c.get('head_fault') or c.get('rename_fault') or c.get('io_open_fault') or c.get('io_fail') is not None:
        return False
    mx = c.get('max', 1)

    def clean(a):
        return not (a.get('get') or a.get('open') or a.get('fa') or a.get('wf'))

    def retry_only(a):
        return not ((a.get('get') and a['get'][1] in FATAL) or (a.get('open') in FATAL) or
                    (a.get('fa') and a['fa'][1] in FATAL) or (a.get('wf') and a['wf'][1] in FATAL))

    def good(lst):
        for k in range(mx):
            a = lst[k] if k < len(lst) else {}
            if clean(a):
                return True
            if not retry_only(a):
                return False
        return False
    if c['size'] >= c['thr']:
        n = -(-c['size'] // c['chunk'])
        rl = c.get('ranged') or []
        return all(good(rl[i] if i < len(rl) else []) for i in range(n))
    return good(c.get('single') or [])


def _rand_attempt(rng, length, single, fatal=False, kinds=None):
    kind = rng.choice(kinds or (['get-b', 'get-a', 'stream', 'stream', 'stream'] + (['open', 'write'] if single else [])))
    cls = rng.choice(FATAL if fatal else RETRYABLE)
    a = {'reads': [rng.randrange(1, 4) for _ in range(rng.randrange(0, 6))]}
    if kind == 'get-b':
        a['get'] = ['before', cls]
    elif kind == 'get-a':
        a['get'] = ['after', cls]
    elif kind == 'stream':
        a['fa'] = [rng.randrange(0, length + 1), cls]
    elif kind == 'open':
        a['open'] = 'os' if not fatal else 'val'
    elif kind == 'write':
        a['wf'] = [rng.randrange(0, max(1, length)), 'os' if not fatal else 'val']
    return a


def _sizes(chunk, thr):
    s = {0, 1, max(thr - 1, 0), thr, thr + 1, 2 * chunk, 2 * chunk + 1, 3 * chunk - 1, 3 * chunk}
    return sorted(x for x in s if x <= 12)


def c02_cases(ctx):
    """retry scripts: fewer than max faults (must succeed with the exact bytes),
    exactly max (RetriesExceeded), a non-retryable fault (not retried)"""
    rng = ctx.rng('legacy-c02')
    cases = []
    reps = 3 if ctx.thorough() else 1
    k = 0
    for chunk in (1, 2, 3, 4, 5):
        for thr in sorted({chunk, 4, 9}):
            for size in _sizes(chunk, thr):
                for mx in (1, 2, 3):
                    for flavour in ['few', 'few', 'exceed', 'fatal'][:4 if (ctx.thorough() or (k % 2 == 0)) else 2]:
                        for _ in range(reps):
                            k += 1
                            ranged = size >= thr
                            n = -(-size // chunk) if ranged else 1
                            if n > 8:
                                continue

                            def script(length, single, flavour=flavour):
                                if flavour == 'few':
                                    nf = rng.randrange(0, mx)
                                    return [_rand_attempt(rng, length, single) for _ in range(nf)] + \
                                           [{'reads': [rng.randrange(1, 4) for _ in range(rng.randrange(0, 8))]}]
                                if flavour == 'exceed':
                                    return [_rand_attempt(rng, length, single, kinds=['get-b', 'get-a', 'stream'])
                                            for _ in range(mx)]
                                nf = rng.randrange(0, mx)
                                return [_rand_attempt(rng, length, single) for _ in range(nf)] + \
                                       [_rand_attempt(rng, length, single, fatal=True, kinds=['get-b', 'get-a', 'stream'])]
                            c = dict(kind='dl', size=size, thr=thr, chunk=chunk, max=mx, conc=1 + k % 3,
                                     old=bool(k % 2), flavour=flavour)
                            if ranged:
                                who = rng.randrange(n) if flavour != 'few' else None
                                c['ranged'] = [script(min(chunk, size - i * chunk), False,
                                                      flavour if (who is None or who == i) else 'few')
                                               for i in range(n)]
                            else:
                                c['single'] = script(size, True)
                            # a stream fault placed beyond the body never fires: keep the case, the model knows
                            cases.append(c)
    return cases


def c06_cases(ctx):
    """a fault at every call position, old destination present / absent"""
    rng = ctx.rng('legacy-c06')
    cases = []
    k = 0
    for chunk in (1, 2, 3, 4, 5):
        for thr in sorted({chunk, 4, 9}):
            for size in _sizes(chunk, thr):
                ranged = size >= thr
                n = -(-size // chunk) if ranged else 1
                if n > 6:
                    continue
                for old in (False, True):
                    k += 1
                    base = dict(kind='dl', size=size, thr=thr, chunk=chunk, max=1 + k % 3, conc=1 + k % 3, old=old)
                    var = [dict(), dict(rename_fault=True), dict(head_fault='before'), dict(head_fault='after')]
                    if ranged:
                        var.append(dict(io_open_fault=True))
                        nwrites = size        # with 1-byte reads; fewer otherwise: beyond the end means no fault
                        for j in sorted({0, 1, rng.randrange(0, max(1, nwrites)), max(0, nwrites - 1)}):
                            var.append(dict(io_fail=j, ranged=[[{'reads': [1] * 6}] for _ in range(n)]))
                        for i in sorted({0, n - 1, rng.randrange(n)} if n else set()):
                            ln = min(chunk, size - i * chunk)
                            for a in (dict(get=['before', 'fake']), dict(get=['after', 'val']),
                                      dict(fa=[rng.randrange(0, ln + 1), 'fake'], reads=[1, 2]),
                                      dict(fa=[0, 'val'])):
                                rl = [[] for _ in range(n)]
                                pre = [_rand_attempt(rng, ln, False) for _ in range(rng.randrange(0, base['max']))]
                                rl[i] = pre + [a]
                                var.append(dict(ranged=rl))
                            # retries exhausted on range i
                            rl = [[] for _ in range(n)]
                            rl[i] = [_rand_attempt(rng, ln, False, kinds=['get-b', 'stream']) for _ in range(base['max'])]
                            var.append(dict(ranged=rl))
                    else:
                        for a in (dict(get=['before', 'fake']), dict(get=['after', 'val']),
                                  dict(fa=[rng.randrange(0, size + 1), 'fake'], reads=[1, 2]),
                                  dict(fa=[size, 'val']), dict(open='val'), dict(open='os'),
                                  dict(wf=[0, 'val'], reads=[1]), dict(wf=[rng.randrange(0, max(1, size)), 'val'], reads=[1] * 4),
                                  dict(wf=[0, 'os'], reads=[2])):
                            pre = [_rand_attempt(rng, size, True) for _ in range(rng.randrange(0, base['max']))]
                            var.append(dict(single=pre + [a]))
                        var.append(dict(single=[_rand_attempt(rng, size, True, kinds=['get-b', 'stream', 'open', 'write'])
                                                for _ in range(base['max'])]))
                    if not ctx.thorough():
                        keep = var[:4] + [v for j, v in enumerate(var[4:]) if (j + k) % 2 == 0]
                        var = keep
                    for v in var:
                        cases.append(dict(base, **v))
    for old in (False, True):       # threshold 0: an empty object goes the ranged way with no range at all
        for v in (dict(), dict(rename_fault=True), dict(io_open_fault=True), dict(head_fault='after')):
            cases.append(dict(kind='dl', size=0, thr=0, chunk=3, max=2, conc=2, old=old, **v))
    return cases


def _sig_dl(c):
    bits = [str(c['size']), str(c['thr']), str(c['chunk']), str(c.get('max', 1))]
    for f in ('head_fault', 'rename_fault', 'io_open_fault', 'io_fail'):
        if c.get(f) is not None and c.get(f) is not False:
            bits.append(f'{f}={c[f]}')
    if c.get('single'):
        bits.append('s=' + ';'.join(_attempt_str(a) for a in c['single']))
    if c.get('ranged'):
        bits.append('r=' + _ranged_str(c))
    return ':'.join(bits)


def _check_downloads(ctx, prop, cases, oracle):
    have_model = ensure_model(ctx)
    obs = run_cases(cases)
    lines = [download_model_line(c, o) if 'outcome' in o else download_model_line(c, {}) for c, o in zip(cases, obs)]
    model = common.run_model('legacy', lines) if have_model else [None] * len(cases)
    found = 0
    comp = 'legacy-download-' + prop
    other = c02_oracle if oracle is c06_oracle else c06_oracle
    clean = []
    # pass 1: the properties themselves on what the implementation did
    for c, o, l, m in zip(cases, obs, lines, model):
        if o.get('skipped'):
            continue
        ranged = c['size'] >= c['thr']
        ctx.count(comp, 1, nontrivial_key=json.dumps(c, sort_keys=True), path='ranged' if ranged else 'single',
                  outcome=str(o.get('outcome')).split(':')[0],
                  samples='>=10' if o.get('samples', 0) >= 10 else '<10')
        r = oracle(c, o)
        r2 = other(c, o)          # the sibling property too: a violation is a violation
        if r:
            found += 1
            rule = 'rename-fault:temp-left' if (c.get('rename_fault') and 'left behind' in r) else _sig_dl(c)
            _report_case(ctx, f'legacy:{prop}:{rule}', f'legacy download_file {c}: {r}', c, prop)
        elif r2:
            found += 1
            _report_case(ctx, f'legacy:{prop}:other:{_sig_dl(c)}', f'legacy download_file {c}: {r2}', c,
                         'c02' if oracle is c06_oracle else 'c06')
        else:
            clean.append((c, o, m))
    # pass 2: the correspondence with the model, where the properties hold
    for c, o, m in clean:
        if m is not None:
            diffs = download_compare(c, o, m)
            if diffs:
                found += 1
                ctx.report(f'corr:legacy:download:{_sig_dl(c)}',
                           f'legacy download model and implementation disagree on {c}: {diffs[:3]}',
                           {'kind': 'correspondence', 'theorem_or_correspondence': 'differential legacy/download',
                            'oracle': prop, 'case': c, 'diffs': diffs, 'model': m,
                            'impl': {k: v for k, v in o.items() if k != 'bad_samples'}}, no_input=True)
    if cases:
        ctx.sample({'component': comp, 'case': cases[-1], 'model_cmd': lines[-1], 'model': model[-1],
                    'impl_outcome': obs[-1].get('outcome'), 'samples_of_destination': obs[-1].get('samples')})
    ctx.cov.setdefault('legacy', {})[prop + '_destination_samples'] = sum(o.get('samples', 0) for o in obs)
    if any(o.get('skipped') for o in obs):
        ctx.notes.append(f'legacy {prop}: {sum(1 for o in obs if o.get("skipped"))} cases not run after 3 hangs (each hang is reported)')
    _broken_report(ctx, found)


def check_c06(ctx):
    """C06 for legacy download_file (single and ranged).  Reports through ctx.report."""
    _check_downloads(ctx, 'c06', c06_cases(ctx), c06_oracle)
    if not os.environ.get('VERIF_LEGACY_NO_PROBE'):
        liveness_probe(ctx, timeout=4)       # a note in the evidence, never a violation


def check_c02(ctx):
    """C02 for legacy download_file (single and ranged).  Reports through ctx.report."""
    cases = c02_cases(ctx)
    # destination-side faults too (failing write / open in the IO thread): a download that reports
    # success holds the whole object whatever failed on the way
    io = [c for c in c06_cases(ctx) if c.get('io_fail') is not None or c.get('io_open_fault')]
    cases += io[:: max(1, len(io) // (400 if ctx.thorough() else 120))]
    _check_downloads(ctx, 'c02', cases, c02_oracle)


# ---------------------------------------------------------------- liveness side observation

def liveness_probe(ctx=None, timeout=5):
    """MultipartDownloader can block for ever when the IO thread dies while the
    queue is full.  Not part of C02/C05/C06: recorded as a note, never reported."""
    probes = [
        ('io-write-fault-queue-full',
         dict(kind='dl', size=12, thr=1, chunk=4, max=1, conc=1, old=True, max_io_queue=1, io_fail=0, io_delay=0.3,
              ranged=[[{'reads': [1] * 8}] for _ in range(3)])),
        ('io-open-fault-more-chunks-than-queue',
         dict(kind='dl', size=12, thr=1, chunk=4, max=1, conc=1, old=True, max_io_queue=2, io_open_fault=True,
              ranged=[[{'reads': [1] * 8}] for _ in range(3)])),
        ('io-write-fault-queue-large-enough',
         dict(kind='dl', size=12, thr=1, chunk=4, max=1, conc=1, old=True, max_io_queue=100, io_fail=0,
              ranged=[[{'reads': [1] * 8}] for _ in range(3)])),
    ]
    out = {}
    for name, c in probes:
        o = run_cases([c], per_case_timeout=timeout)[0]
        out[name] = 'HANG (download_file did not return)' if o.get('hang') else \
            f"returned: {o.get('outcome')} temp_left={o.get('temp_left')}"
    if ctx is not None:
        ctx.notes.append('legacy liveness probe (side observation, not a C02/C05/C06 obligation): ' + json.dumps(out))
    return out


# ---------------------------------------------------------------- replay / entry

def replay(ctx, data):
    """Re-run exactly data['case'] on the current tree; True iff it still fails."""
    c = data.get('case')
    if not isinstance(c, dict) or 'kind' not in c:
        return None
    o = run_cases([c])[0]
    if c['kind'] == 'up':
        r = upload_oracle(c, o)
    else:
        r = c06_oracle(c, o) or c02_oracle(c, o)
    print('legacy oracle:', r)
    if r is None and data.get('kind') == 'correspondence' and ensure_model(ctx):
        if c['kind'] == 'up':
            m = common.run_model('legacy', [upload_model_line(c, o)])[0]
            r = None if upload_canon(o) == m else f'impl={upload_canon(o)} model={m}'
        else:
            m = common.run_model('legacy', [download_model_line(c, o)])[0]
            r = download_compare(c, o, m) or None
        print('legacy correspondence:', r)
    return r is not None


def main():
    common.setup_repo_path()
    ctx = common.Ctx('LEGACY', os.environ.get('VERIF_TIER', 'quick'), int(os.environ.get('VERIF_SEED', '0') or 0))
    import time
    t0 = time.time()
    for f in (check_c05, check_c06, check_c02):
        t = time.time()
        f(ctx)
        print(f'{f.__name__}: {time.time() - t:.1f}s, evaluations so far {ctx.cov["evaluations"]}, '
              f'violations so far {len(ctx.violations)}')
    for comp, v in ctx.cov['components'].items():
        print(comp, v['cases'], json.dumps(v['hist'], sort_keys=True))
    print('distinct', len(ctx.distinct), 'destination samples', ctx.cov.get('legacy'))
    if '--probe' in sys.argv:
        print('liveness probe:', json.dumps(liveness_probe(ctx), indent=1))
    print('violations:', json.dumps(ctx.violations, indent=1))
    print(f'total {time.time() - t0:.1f}s')
    return 1 if ctx.violations else 0


if __name__ == '__main__':
    if len(sys.argv) >= 4 and sys.argv[1] == '--child':
        child_main(sys.argv[2], int(sys.argv[3]))
    else:
        sys.exit(main())
