"""Shared check flow of the system-level properties (C03-C08, C10, C11, C18):

  proofs (coq/props/Cxx.v over model/Sys.v)  ->  scheduled runs of the REAL
  TransferManager  ->  trace validation against the extracted Sys.step
  (implementation traces must be model traces)  ->  property monitors on the
  implementation (search oracle)  ->  evidence.
"""
import hashlib
import json
import os

from harness import common
from harness.sched import library, translate, monitors

EXTRACT = ['ExSys']
COMPONENTS = ['sys']

CFG_SMALL = dict(max_request_concurrency=2, max_in_memory_download_chunks=2, max_io_queue_size=2,
                 max_in_memory_upload_chunks=2)

KINDS = [
    dict(kind='upload', src='path', size=10), dict(kind='upload', src='seekable', size=10),
    dict(kind='upload', src='nonseekable', size=10), dict(kind='upload', src='path', size=2),
    dict(kind='download', dst='path', size=10), dict(kind='download', dst='seekable', size=10),
    dict(kind='download', dst='nonseekable', size=10), dict(kind='download', dst='path', size=2),
    dict(kind='download', dst='nonseekable', size=2), dict(kind='download', dst='path', size=10, preexisting=True),
    dict(kind='copy', size=10), dict(kind='copy', size=2), dict(kind='delete', size=1),
    dict(kind='download', dst='path', size=0), dict(kind='download', dst='nonseekable', size=0),
]
MULTIPART = [k for k in KINDS if k['kind'] in ('upload', 'copy') and k['size'] >= 4]
PATH_DOWNLOADS = [k for k in KINDS if k['kind'] == 'download' and k.get('dst') == 'path']


def chooser(rng, i):
    kind = ['random', 'pct', 'random', 'first'][i % 4]
    return {'kind': kind, 'seed': rng.randrange(1 << 30)}


def spec_hash(spec):
    return hashlib.sha1(json.dumps(spec, sort_keys=True, default=str).encode()).hexdigest()[:12]


def validate_batch(runs):
    """Replay every run through the extracted Sys.step in one driver process.
    Returns {run index: (event index, event line, context, dump)} for rejected runs."""
    lines, spans, trs = [], [], []
    untranslated = {}
    for i, r in enumerate(runs):
        try:
            tr, ls = translate.translate(r.trace, getattr(r, 'config', None) or r.manager._config)
        except Exception as e:      # noqa: the log no longer has the shape the translator knows
            untranslated[i] = (0, f'<untranslatable: {type(e).__name__}: {e}>', [], 'the log->event translator could not interpret this run')
            tr, ls = None, []
        spans.append((len(lines), len(ls)))
        lines += ls
        trs.append((tr, ls))
    out = common.run_model('sys', lines) if lines else []
    rej = dict(untranslated)
    for i, (start, n) in enumerate(spans):
        if i in untranslated:
            continue
        chunk = out[start:start + n]
        if 'REJECT' in chunk:
            j = chunk.index('REJECT')
            ls = trs[i][1]
            rej[i] = (j, ls[j], ls[max(0, j - 6):j + 1], chunk[-1][:300])
        elif any(c.startswith('ERR') for c in chunk):
            j = [k for k, c in enumerate(chunk) if c.startswith('ERR')][0]
            rej[i] = (j, trs[i][1][j], [chunk[j]], chunk[-1][:300])
    return rej, out, spans


def public_effects(run):
    """What a run shows through public interfaces only: a transfer whose result() returned
    normally has its complete effect (object stored / deleted / destination bytes)."""
    f = []
    for lb, res in run.results.items():
        if res[0] == 'ok' and lb in getattr(run, 'expect', {}) and not monitors.effect_ok(run, lb):
            f.append(f'{lb}: result() returned normally but the effect is incomplete')
    return f


def replay_any(ctx, data, monitor_fns, sampler=None):
    """Replay dispatcher for checks that also run other front-ends' sub-checks."""
    case = data.get('case') or {}
    if isinstance(case, dict) and 'scenario' in case:
        from harness.props import c19
        return c19.replay(ctx, data)
    if isinstance(case, dict) and case.get('kind') in ('dl', 'up'):
        from harness.props import legacy
        return legacy.replay(ctx, data)
    return replay_spec(ctx, data, monitor_fns, sampler) if sampler is not None else replay_spec(ctx, data, monitor_fns)


def run_specs(ctx, prop_file, specs, monitor_fns, sampler=None, rule=''):
    """The whole flow for one property."""
    ok = common.proofs(ctx, prop_file, EXTRACT, COMPONENTS)
    ctx.assumptions += [
        'the cooperative scheduler, the threading/executor shims, the fake S3 and the log->event translator report what the real code did (trusted for the correspondence)',
        'concurrent.futures.ThreadPoolExecutor is FIFO with <= n workers and runs done callbacks in the completing worker; threading primitives have their documented semantics',
        'plan facts of Sys.v (final task submitted last; every other task is then a dependency / past its main / earlier in the IO queue; ids grow) are validated on every explored run and assumed by the theorems',
    ]
    ctx.cov['rule'] = rule or ('each case is one scheduled run of the real TransferManager (scenario spec x fault x cancel point x schedule); '
                               'distinct = distinct hash of the linearised event trace; non-trivial = more than one thread took steps')
    explore(ctx, specs, monitor_fns, sampler)
    if ctx.broken is not None:
        if not ctx.violations:
            ctx.report('broken:' + ctx.broken.what, ctx.broken.what,
                       {'kind': 'theorem', 'theorem_or_correspondence': ctx.broken.what, 'log': ctx.broken.log},
                       no_input=True)


def sub_runs(ctx, specs, monitor_fns, sampler=None):
    """Scheduled runs of the real TransferManager inside a check that is not built on
    run_specs (the caller lists the Sys-level theorem file it relies on among its
    theorem files): builds the Sys validator, explores, validates, monitors."""
    try:
        with common.Lock():
            common.build_locked('C05', EXTRACT, COMPONENTS)
    except common.BuildBroken as b:
        if ctx.broken is None:
            ctx.broken = b
    explore(ctx, specs, monitor_fns, sampler)


def explore(ctx, specs, monitor_fns, sampler=None):
    runs, rejected = [], 0
    incomplete = set()
    B = 60
    traces_seen = set()
    for b0 in range(0, len(specs), B):
        batch = []
        for spec in specs[b0:b0 + B]:
            r = library.run(spec, sample=sampler)
            batch.append(r)
        rej = {}
        if ctx.broken is None:
            try:
                # runs on the non-threaded executor execute every task inside submit():
                # the staged-executor model does not describe them; monitors only
                # (runs with state writes as scheduling points are judged by the monitors only: there the
                #  linearisation point of an operation is its status write, not the log record written
                #  when the call returns, so the recorded order is not the model's)
                vb = [(i, r) for i, r in enumerate(batch) if not r.spec.get('nonthreaded') and not r.spec.get('state_write_yield')
                      and not r.spec.get('submit_yield') and not r.spec.get('submit_fault')]
                if vb:
                    rej0, out, spans = validate_batch([r for _, r in vb])
                    rej = {vb[j][0]: v for j, v in rej0.items()}
            except common.BuildBroken as b:
                ctx.broken = b
        for i, r in enumerate(batch):
            spec = r.spec
            h = hashlib.sha1(json.dumps([(e['thread'], e['ev'], e.get('task'), e.get('op')) for e in r.trace]).encode()).hexdigest()[:16]
            threads = len({e['thread'] for e in r.trace})
            kinds = '+'.join(t['kind'] for t in spec['transfers'])
            ctx.count('sys-run', 1, nontrivial_key=(h if threads > 1 else None) and h,
                      kind=kinds[:40], fault=('s3' if spec.get('s3_fault') else 'get' if spec.get('get_fault') else
                                              'fs' if spec.get('fs_fault') else 'read' if spec.get('read_fault') else 'none'),
                      cancel=(spec['cancel']['how'] if spec.get('cancel') else 'none'),
                      outcome='/'.join(sorted({v[0] if v[0] == 'ok' else v[1] for v in r.results.values()}))[:40])
            traces_seen.add(h)
            fails = []
            inc = sorted(set(getattr(r.I, 'missing', []) + getattr(r.I, 'broken', []))) if getattr(r, 'I', None) else []
            if inc:
                # a private name the instrumentation observes has moved: the log is incomplete,
                # so neither trace validation nor the log-based monitors can be believed.
                # What the run did through public interfaces (scheduler verdict, results,
                # S3 objects, destination bytes) is still judged.
                incomplete.update(inc)
                rej.pop(i, None)
                for m in (monitors.m_terminates, public_effects):
                    try:
                        fails += m(r)
                    except Exception as e:
                        fails.append(f'monitor {getattr(m, "__name__", m)} crashed: {type(e).__name__}: {e}')
            for m in (monitor_fns if not inc else ()):
                try:
                    fails += m(r)
                except Exception as e:    # a monitor crash must not pass silently
                    fails.append(f'monitor {getattr(m, "__name__", m)} crashed: {type(e).__name__}: {e}')
            for msg in fails[:2]:
                sig = f'{ctx.prop}:{msg.split(":")[0][:24]}:{spec_hash(spec)}'
                ctx.report(sig, msg, {'kind': 'schedule', 'case': dict(spec, chooser={'kind': 'replay', 'choices': r.choices}),
                                      'monitor_failures': fails[:6]})
            if i in rej and not fails:
                j, line, context, dump = rej[i]
                rejected += 1
                ctx.report(f'corr:sys:{line.split()[0]}',
                           f'trace validation: the real run performs {line!r}, which the model Sys.step rejects '
                           f'(no property monitor fails on this run)',
                           {'kind': 'correspondence', 'theorem_or_correspondence': 'trace validation against coq/model/Sys.v (extracted)',
                            'case': dict(spec, chooser={'kind': 'replay', 'choices': r.choices}),
                            'rejected_event': line, 'context': context, 'model_state': dump}, no_input=True)
            if len(runs) < 3:
                runs.append(r)
    if incomplete:
        what = ('instrumentation of the real code is incomplete (a private name it observes moved): '
                + '; '.join(sorted(incomplete))[:600] + ' -- traces could not be validated against coq/model/Sys.v')
        ctx.report('corr:instr:' + hashlib.sha1(what.encode()).hexdigest()[:10], what,
                   {'kind': 'correspondence', 'theorem_or_correspondence': 'trace validation against coq/model/Sys.v (extracted): instrumentation hooks',
                    'incomplete': sorted(incomplete)}, no_input=True)
    ctx.cov['traces_validated_against_impl'] = ctx.cov.get('traces_validated_against_impl', 0) + sum(1 for _ in specs) - rejected
    ctx.cov['distinct_traces'] = ctx.cov.get('distinct_traces', 0) + len(traces_seen)
    for r in runs[:2]:
        ctx.sample({'component': 'sys-run', 'spec': r.spec, 'results': {k: list(v)[:2] for k, v in r.results.items()},
                    'steps': r.steps, 'events': len(r.trace),
                    'first_events': [f"{e['thread']}:{e['ev']}" for e in r.trace[:12]]})


def replay_spec(ctx, data, monitor_fns, sampler=None):
    spec = data.get('case')
    if not isinstance(spec, dict) or 'transfers' not in spec:
        return True
    r = library.run(spec, sample=sampler)
    fails = []
    for m in monitor_fns:
        fails += m(r)
    for f in fails:
        print('  monitor:', f)
    if data.get('kind') == 'correspondence':
        common.build('C14', EXTRACT, COMPONENTS) if False else None
        rej, _, _ = validate_batch([r])
        if rej:
            print('  still rejected by the model:', rej[0][1])
            return True
    return bool(fails)


# ---- spec families ------------------------------------------------------------

def specs_faults(ctx, kinds, seeds=2, cfg=None, tag='f'):
    rng = ctx.rng('specs', tag)
    cfg = cfg or CFG_SMALL
    out = []
    n = 0
    for ts in kinds:
        for sd in range(seeds):
            ch = chooser(rng, n)
            n += 1
            out.append(dict(transfers=[ts], cfg=cfg, chooser=ch))
            for idx in range(7):
                for when in ('before', 'after'):
                    out.append(dict(transfers=[ts], cfg=cfg, chooser=ch, s3_fault=dict(idx=idx, when=when)))
            if ts['kind'] == 'download':
                for op in ('open', 'write', 'close', 'rename'):
                    for nth in (1, 2):
                        out.append(dict(transfers=[ts], cfg=cfg, chooser=ch, fs_fault=dict(op=op, nth=nth)))
                # a failing write followed by a failing close in the cleanups
                out.append(dict(transfers=[ts], cfg=cfg, chooser=ch,
                                fs_fault=[dict(op='write', nth=1 + sd), dict(op='close', nth='all')]))
                out.append(dict(transfers=[ts], cfg=cfg, chooser=ch,
                                fs_fault=[dict(op='rename', nth=1), dict(op='close', nth=2)]))
                for att in (1, 4, 5):
                    out.append(dict(transfers=[ts], cfg=cfg, chooser=ch,
                                    get_fault=dict(range_idx=sd % 2, attempts=att, after=1 + sd, exc='timeout', read_sizes=[2, 1, 3])))
                out.append(dict(transfers=[ts], cfg=cfg, chooser=ch, get_fault=dict(range_idx=1, attempts=1, after=1, exc='fatal')))
                # an OSError that is NOT one of the retryable stream errors (must not be retried)
                out.append(dict(transfers=[ts], cfg=cfg, chooser=ch, get_fault=dict(range_idx=sd % 2, attempts=1, after=1, exc='oserror')))
                out.append(dict(transfers=[dict(ts, subs=[dict(raise_in=['progress'], raise_exc='oserror')])], cfg=cfg, chooser=ch))
            if ts['kind'] == 'upload' and ts.get('src') != 'path':
                for nth in (1, 2, 3):
                    out.append(dict(transfers=[ts], cfg=cfg, chooser=ch, read_fault=dict(nth=nth)))
            out.append(dict(transfers=[dict(ts, subs=[dict(raise_in=['queued'])])], cfg=cfg, chooser=ch))
            out.append(dict(transfers=[dict(ts, subs=[dict(raise_in=['progress'])])], cfg=cfg, chooser=ch))
    return out


def specs_cancel(ctx, kinds, hows, points, seeds=1, cfg=None, tag='c'):
    rng = ctx.rng('specs', tag)
    cfg = cfg or CFG_SMALL
    out, n = [], 0
    for ts in kinds:
        for sd in range(seeds):
            for how in hows:
                for at in points:
                    out.append(dict(transfers=[ts], cfg=cfg, chooser=chooser(rng, n),
                                    cancel=dict(how=how, at=at, msg='stop now')))
                    n += 1
    return out


def specs_callbacks(ctx, kinds, cfg=None):
    rng = ctx.rng('specs', 'cb')
    cfg = cfg or CFG_SMALL
    out, n = [], 0
    variants = [
        [dict(), dict()],
        [dict(raise_in=['done']), dict()],
        [dict(on_done_script=['done', 'meta', 'set_exception', 'cancel', 'result'])],
        [dict(on_queued_script=['done', 'meta', 'cancel'])],
        [dict(on_queued_script=['done', 'meta']), dict(raise_in=['queued'])],
        # duck-typed subscribers that implement only some of the callbacks, in front of a full one
        [dict(only=['progress']), dict()],
        [dict(only=['done']), dict(), dict(only=['queued'])],
    ]
    for ts in kinds:
        for v in variants:
            out.append(dict(transfers=[dict(ts, subs=v)], cfg=cfg, chooser=chooser(rng, n)))
            n += 1
        if ts['kind'] in ('download', 'copy'):
            out.append(dict(transfers=[dict(ts, subs=[dict(only=['done']), dict(provide_size=ts['size'])])], cfg=cfg, chooser=chooser(rng, n)))
            out.append(dict(transfers=[dict(ts, subs=[dict(provide_size=ts['size'])])], cfg=cfg, chooser=chooser(rng, n)))
            out.append(dict(transfers=[dict(ts, size=0, subs=[dict(provide_size=0)])], cfg=cfg, chooser=chooser(rng, n + 1)))
    return out


def specs_early_cancel(ctx, kinds, seeds=3, upto=22, tag='early'):
    """A cancel at EVERY one of the first scheduling points (the not-started / queued /
    running window, where a cancel races the submission thread and two threads can
    announce done at once), under several schedules."""
    rng = ctx.rng('specs', tag)
    out, n = [], 0
    for ts in kinds:
        for sd in range(seeds):
            for at in range(0, upto):
                out.append(dict(transfers=[ts], cfg=CFG_SMALL, chooser={'kind': ['random', 'pct'][n % 2], 'seed': rng.randrange(1 << 30)},
                                cancel=dict(how='future', at=at), queued_yield=bool(n % 2)))
                n += 1
    return out


def specs_stream_order(ctx, n):
    """Ranged downloads to a non-seekable stream with 2-3 request threads racing."""
    rng = ctx.rng('specs', 'stream-order')
    out = []
    for i in range(n):
        cfg = dict(max_request_concurrency=rng.choice([2, 3]), max_in_memory_download_chunks=rng.choice([2, 3, 4]),
                   max_io_queue_size=rng.choice([1, 2, 4]), io_chunksize=rng.choice([1, 2, 3, 4]))
        out.append(dict(transfers=[dict(kind='download', dst='nonseekable', size=rng.choice([8, 12, 13]))], cfg=cfg,
                        chooser={'kind': ['random', 'pct', 'pct'][i % 3], 'seed': rng.randrange(1 << 30), 'depth': 5}))
    return out


def specs_nonthreaded_interrupt(ctx, kinds):
    """Ctrl-C delivered inside a request when every task runs in the caller's thread
    (executor_cls=NonThreadedExecutor): the only mode in which a worker-side call
    can see a KeyboardInterrupt."""
    out = []
    for ts in kinds:
        for idx in range(6):
            for when in ('before', 'after'):
                out.append(dict(transfers=[ts], cfg=CFG_SMALL, chooser={'kind': 'first'}, nonthreaded=True,
                                s3_fault=dict(idx=idx, when=when, exc='kbi')))
            out.append(dict(transfers=[ts], cfg=CFG_SMALL, chooser={'kind': 'first'}, nonthreaded=True,
                            s3_fault=dict(idx=idx, when='before')))
    return out


def specs_torn_state(ctx, kinds, seeds=1):
    """A cancel (or a failing request) racing the final task and the waiting user, with every write of the
    coordinator's status / exception / result a scheduling point: lock-free readers may run between the
    two writes of a critical section."""
    rng = ctx.rng('specs', 'torn')
    out = []
    for ts in kinds:
        for sd in range(seeds):
            for at in (6, 14, 22, 30, 38, 46, 54, 62, 74, 90):
                out.append(dict(transfers=[ts], cfg=dict(CFG_SMALL, max_request_concurrency=rng.choice([1, 2])),
                                chooser={'kind': ['pct', 'random'][at % 2], 'seed': rng.randrange(1 << 30), 'depth': 4},
                                cancel=dict(how='future', at=at), state_write_yield=True))
            for idx in (1, 2, 3):
                out.append(dict(transfers=[ts], cfg=CFG_SMALL, chooser={'kind': 'pct', 'seed': rng.randrange(1 << 30), 'depth': 4},
                                s3_fault=dict(idx=idx, when='before'), state_write_yield=True))
    return out


def specs_failure_then_interrupt(ctx, kinds):
    """A request fails and a LATER request of the same transfer is hit by Ctrl-C, everything
    in the caller's thread (NonThreadedExecutor): the recorded failure must stay the outcome."""
    out = []
    for ts in kinds:
        for i in range(5):
            for j in range(i + 1, 7):
                out.append(dict(transfers=[ts], cfg=CFG_SMALL, chooser={'kind': 'first'}, nonthreaded=True,
                                s3_fault=[dict(idx=i, when='before'), dict(idx=j, when='before', exc='kbi')]))
    return out


def specs_shared_window(ctx, n):
    """2-3 ranged downloads to non-seekable streams sharing a SMALL in-memory window,
    submitted by 2-3 submission threads: acquirers compete for freed window slots."""
    rng = ctx.rng('specs', 'shared-window')
    out = []
    for i in range(n):
        k = rng.choice([2, 2, 3])
        cfg = dict(max_request_concurrency=rng.choice([1, 2, 3]), max_submission_concurrency=rng.choice([2, 3]),
                   max_in_memory_download_chunks=rng.choice([1, 1, 2]), max_io_queue_size=rng.choice([1, 2, 4]),
                   io_chunksize=rng.choice([2, 4]))
        out.append(dict(transfers=[dict(kind='download', dst='nonseekable', size=rng.choice([8, 12, 16])) for _ in range(k)],
                        cfg=cfg, chooser={'kind': ['random', 'pct', 'pct'][i % 3], 'seed': rng.randrange(1 << 30), 'depth': 6}))
    return out


def specs_submit_fault(ctx, kinds, seeds=2, nths=(1, 2, 3)):
    """The pool behind a stage cannot start another worker thread: the n-th submit to the request
    stage (or, for downloads, to the IO stage) raises what ThreadPoolExecutor.submit raises.  The
    transfer fails; everything already handed out must still be waited for before done is announced.
    Monitors only (the staged-executor model has no failing submit)."""
    rng = ctx.rng('specs', 'submit-fault')
    out = []
    for k in kinds:
        for ex, ns in ((0, nths), (2, (1, 2))):
            if ex == 2 and k['kind'] != 'download':
                continue
            for nth in ns:
                for _ in range(seeds):
                    out.append(dict(transfers=[dict(k)], submit_fault=dict(executor=ex, nth=nth), submit_yield=bool(rng.randrange(2)),
                                    cfg=dict(max_request_concurrency=rng.choice([1, 2, 3])),
                                    chooser={'kind': rng.choice(['random', 'pct']), 'seed': rng.randrange(1 << 30), 'depth': 4}))
    return out


def specs_submit_fault_handoff(ctx, subs=None):
    """Directed schedules for one hand-off: a ranged download to a file whose submission fails at its
    N-th submit exactly while the first GetObject task has handed its k-th chunk to the IO stage (the
    write is running, past its own done-check) but has not yet recorded that future with the
    coordinator.  The failing submission task first sees only the GetObject future."""
    out = []
    for N in (2, 3):
        for k in (1, 2, 3):
            for cs, io in ((4, 2), (6, 2), (4, 1)):
                for seed in range(2):
                    phases = [dict(run='exec2', until={'ev': 'enqueued', 'stage': 'req'}, times=N - 1),
                              dict(run='exec1', until={'ev': 'enqueued', 'stage': 'io'}, times=k),
                              dict(run='exec3', until={'ev': 'done_check', 'done': False}, times=k),
                              dict(run='exec2'), dict(run='exec1'), dict(run='exec2')]
                    t = dict(kind='download', dst='path', size=cs * 3)
                    if subs:
                        t['subs'] = subs
                    out.append(dict(transfers=[t], submit_fault=dict(executor=0, nth=N), submit_yield=True,
                                    cfg=dict(max_request_concurrency=2, multipart_chunksize=cs, multipart_threshold=cs, io_chunksize=io),
                                    chooser={'kind': 'phased', 'phases': phases, 'then': {'kind': ['random', 'first'][seed], 'seed': N * 10 + k}}))
    return out


def specs_mixed(ctx, n_specs, limits=(1, 2, 3), with_victims=True, tag='mix'):
    rng = ctx.rng('specs', tag)
    out = []
    for i in range(n_specs):
        k = rng.choice([2, 2, 3, 4])
        ts = [dict(rng.choice(KINDS)) for _ in range(k)]
        cfg = dict(max_request_concurrency=rng.choice(limits), max_submission_concurrency=rng.choice(limits),
                   max_request_queue_size=rng.choice(limits), max_submission_queue_size=rng.choice(limits),
                   max_io_queue_size=rng.choice(limits), max_in_memory_upload_chunks=rng.choice(limits),
                   max_in_memory_download_chunks=rng.choice(limits))
        spec = dict(transfers=ts, cfg=cfg, chooser=chooser(rng, i), victims=[])
        if with_victims and i % 3:
            v = rng.randrange(k)
            spec['victims'] = [f't{v}']
            spec['s3_fault'] = dict(key=f'k{v}', nth=rng.randrange(4), when=rng.choice(['before', 'after']))
        if i % 4 == 1:
            spec['fresh_after'] = True
        out.append(spec)
    return out
