"""C05 -- no orphaned or doubly-finished multipart uploads."""
from harness.props import sysrun
from harness.sched import monitors as M

PROP_FILE = ['C05', 'C05Legacy']


def mons():
    return [M.m_terminates, M.m_multipart_discipline, M.m_success_means_all_ok]


def specs(ctx):
    kinds = sysrun.MULTIPART + [dict(kind='upload', src='nonseekable', size=13), dict(kind='copy', size=14)]
    s = sysrun.specs_faults(ctx, kinds, seeds=3 if ctx.thorough() else 2)
    pts = list(range(0, 130, 3 if ctx.thorough() else 9))
    s += sysrun.specs_cancel(ctx, kinds, ['future'], pts)
    s += sysrun.specs_early_cancel(ctx, kinds[:3], seeds=2 if not ctx.thorough() else 5)
    s += sysrun.specs_nonthreaded_interrupt(ctx, kinds)
    s += sysrun.specs_cancel(ctx, kinds[:3], ['shutdown', 'exit_exc', 'result_kbi'], pts[::3])
    # extra arguments that only SOME of the multipart operations accept (SSE-C keys, request payer):
    # the fake S3 validates every call against the operation's input shape like botocore does, so
    # an abort carrying a parameter it does not have is refused client-side and the upload stays open
    sse = {'SSECustomerKey': 'k' * 32, 'SSECustomerAlgorithm': 'AES256', 'RequestPayer': 'requester'}
    for ts in (dict(kind='upload', src='path', size=10), dict(kind='upload', src='nonseekable', size=10), dict(kind='copy', size=10)):
        for idx in range(1, 5):
            for when in ('before', 'after'):
                s.append(dict(transfers=[dict(ts, extra_args=sse)], cfg=sysrun.CFG_SMALL, chooser={'kind': 'random', 'seed': idx},
                              s3_fault=dict(idx=idx, when=when)))
        s.append(dict(transfers=[dict(ts, extra_args=sse)], cfg=sysrun.CFG_SMALL, chooser={'kind': 'random', 'seed': 9},
                      cancel=dict(how='future', at=25)))
    for c in (1, 3):
        cfg = dict(sysrun.CFG_SMALL, max_request_concurrency=c)
        s += sysrun.specs_faults(ctx, kinds[:2], seeds=1, cfg=cfg, tag=f'conc{c}')
    # the request stage's pool refuses a task (create / a part / complete): one more place for a failure
    s += sysrun.specs_submit_fault(ctx, kinds, seeds=1, nths=(1, 2, 3, 4, 5))
    return s


def run(ctx):
    sysrun.run_specs(ctx, PROP_FILE, specs(ctx), mons(),
                     rule='multipart uploads and copies (1-4 parts, request concurrency 1-3): a fault at create / each part / complete '
                          '(before and after the service applied it), source read faults, raising callbacks, a cancel at every k-th '
                          'scheduling point; per upload id the fake S3 log is checked against create.part*.(complete|abort) with the '
                          'abort after every other response; distinct = distinct event trace. Legacy uploader: differential of the real '
                          'S3Transfer.upload_file against the extracted Legacy model with a fault at every call position')
    if ctx.broken is None:
        from harness.props import legacy
        legacy.check_c05(ctx)


def replay(ctx, data):
    return sysrun.replay_spec(ctx, data, mons())
