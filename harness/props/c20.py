"""C20 -- CRT manager glue: one permit per transfer, ordered completion, temp cleanup.

Proof: coq/props/C20.v over coq/model/Crt.v (all op sequences).
Tie: the REAL s3transfer.crt.CRTTransferManager is driven, single-threaded and
deterministically, against a stub `awscrt` package (harness/fake_awscrt, put on
sys.path by this check only) through exhaustive short and random long
sequences of submissions (upload / download to a path / download to a stream /
delete; with 0-2 recording subscribers, optionally one whose on_done raises;
optionally with a construction failure in on_queued / argument building /
make_request), completions in any order (ok / error / cancelled /
ok-but-rename-fails; in one step or split into "future resolved" and "on_done
delivered") and shutdowns (shutdown() / __exit__, with / without cancel); after
every op the callback log, the semaphore value, the temp-dir contents, every
future's done()/result() class and done-event are compared with the extracted
Coq model.  Search oracle: C20 stated on the implementation's trace alone.
"""
import io
import os
import shutil
import sys
import tempfile
import threading

from harness import common, names
from harness.common import hx

EXTRACT = ['ExCrt']
COMPONENTS = ['crt']
FAKE = os.path.join(common.VERIF, 'harness', 'fake_awscrt')

KINDS = 'upsx'          # upload, download to path, download to stream, delete
OUTCOMES = 'kfec'       # ok, ok + rename fails, error, cancelled
FAILS = '0qam'          # nowhere, first subscriber's on_queued, argument building, make_request
ARG_VARIANTS = ('serialize', 'missing_file')


# ---------------------------------------------------------------- loading

_CRT = None


def load_crt():
    """Import s3transfer.crt from the tree under test against the stub awscrt.
    botocore must be imported first, so that its own optional CRT support
    (botocore.compat.HAS_CRT) is decided without the stub."""
    global _CRT
    if _CRT is not None:
        return _CRT
    import botocore.session  # noqa: F401
    import botocore.auth  # noqa: F401
    import botocore.compat
    assert not botocore.compat.HAS_CRT, 'a real awscrt is installed: this check expects the stub'
    if FAKE not in sys.path:
        sys.path.insert(0, FAKE)
    import awscrt
    assert os.path.realpath(os.path.dirname(awscrt.__file__)) == \
        os.path.realpath(os.path.join(FAKE, 'awscrt')), awscrt.__file__
    import s3transfer.crt as crt
    assert os.path.realpath(crt.__file__).startswith(os.path.realpath(common.REPO)), crt.__file__
    _CRT = crt
    return crt


class HarnessWouldBlock(BaseException):
    """acquire() would block for ever in this single-threaded harness.  A
    BaseException so that _submit_transfer's `except Exception` does not eat it."""


class SubscriberBoom(Exception):
    pass


class ConstructionBoom(Exception):
    pass


class QueuedBoom(Exception):
    pass


# ---------------------------------------------------------------- world

class Tr:
    """What the harness knows about one submission that got a permit."""
    def __init__(self, idx, kind, nsubs, raises, fails):
        self.idx, self.kind, self.nsubs = idx, kind, nsubs
        self.raises = bool(raises and nsubs > 0)
        self.fails = fails
        self.future = None
        self.req = None
        self.seen_id = None
        self.dest = self.temp = self.stream = None
        self.content = b''
        self.finished_with = None       # outcome letter once the CRT finished it
        self.on_done_snapshots = []     # (sub k, temp exists, dest exists) at subscriber on_done
        self.on_done_invoked = False    # composed on_done was entered (harness knowledge)


class World:
    """One real CRTTransferManager on the stub CRT + everything observed."""

    def __init__(self, permits, root):
        crt = load_crt()
        from awscrt.s3 import S3Client
        from s3transfer.utils import OSUtils
        w = self
        self.crt = crt
        self.dir = tempfile.mkdtemp(prefix='case-', dir=root)
        self.log = []                  # (letters, idx[, k])
        self.by_idx = {}               # idx -> [letters] in order
        self.cur = None
        self.trs = []
        self.allow_block = False
        self.fail_rename = set()
        self.fail_remove = False     # oracle-only runs: removing a temp file is refused by the file system
        self.problems = []             # harness-level surprises (kept in the trace)

        class Ser(crt.BaseCRTRequestSerializer):
            fail_next = None

            def serialize_http_request(self, transfer_type, future):
                if self.fail_next is not None:
                    e, self.fail_next = self.fail_next, None
                    raise e
                return ('http-request', transfer_type, future.meta.call_args.key)

            def translate_crt_exception(self, exception):
                return None

        class LogSem(threading.Semaphore):
            def acquire(self, blocking=True, timeout=None):
                if self._value == 0 and blocking and timeout is None and not w.allow_block:
                    raise HarnessWouldBlock()
                r = super().acquire(blocking, timeout)
                if r:
                    w.emit(('a', w.cur))
                return r

            def release(self, n=1):
                w.emit(('r', w.cur))
                super().release(n)

        class LogOS(OSUtils):
            def rename_file(self, current_filename, new_filename):
                if new_filename in w.fail_rename:
                    w.emit(('mf', w.cur))
                    raise OSError('injected: rename fails')
                try:
                    super().rename_file(current_filename, new_filename)
                except Exception:
                    w.emit(('mf', w.cur))
                    raise
                w.emit(('mv', w.cur))

            def remove_file(self, filename):
                w.emit(('rm', w.cur))
                if w.fail_remove:
                    # the file system refuses the removal (EACCES, not ENOENT): OSUtils.remove_file
                    # swallows OSError, so nothing may escape into the done-callback chain
                    real = os.remove

                    def refuse(path, *a, **k):
                        raise PermissionError(13, 'injected: permission denied', path)
                    os.remove = refuse
                    try:
                        super().remove_file(filename)
                    finally:
                        os.remove = real
                    return
                super().remove_file(filename)

        self.client = S3Client()
        self.client.on_finish = self._on_finish
        self.client.would_block = self.would_block
        self.ser = Ser()
        self.mgr = crt.CRTTransferManager(self.client, self.ser)
        # private names by role / shape (harness/names.py): a rename in /repo is followed
        self.sem_attr = names.find_attr(self.mgr, names.counting_semaphore_like, '_semaphore')
        self.source_permits = getattr(self.mgr, self.sem_attr)._value
        self.count = self.source_permits if permits is None else permits
        setattr(self.mgr, self.sem_attr, LogSem(self.count))
        creator = getattr(self.mgr, names.find_attr(self.mgr, lambda v: isinstance(v, crt.S3ClientArgsCreator), '_s3_args_creator'))
        setattr(creator, names.param_attr(crt.S3ClientArgsCreator, '__init__', 'os_utils', '_os_utils'), LogOS())
        self.req_idx = {}

    # -- private parts of the CRT future / coordinator, by role
    @property
    def sem(self):
        return getattr(self.mgr, self.sem_attr)

    @staticmethod
    def coord(future):
        return getattr(future, names.find_attr(future, lambda v: type(v).__name__ == 'CRTTransferCoordinator', '_coordinator'))

    @staticmethod
    def coord_event(c):
        return getattr(c, names.find_attr(c, names.event_like, '_done_event'))

    @staticmethod
    def req_attr(c):
        return names.param_attr(type(c), 'set_s3_request', 's3_request', '_s3_request')

    # -- plumbing
    def emit(self, e):
        self.log.append(e)
        self.by_idx.setdefault(e[1], []).append(e[0])

    def would_block(self, what):
        if not self.allow_block:
            raise HarnessWouldBlock(what)

    def _on_finish(self, req, error):
        self.cur = self.req_idx.get(req.index)

    def after_done(self, coordinator):
        self.emit(('f', self.cur))
        t = self.trs[self.cur] if self.cur is not None and self.cur < len(self.trs) else None
        if t is not None and t.seen_id is not None and coordinator.transfer_id != t.seen_id:
            self.problems.append(f'after-done of transfer id {coordinator.transfer_id} while running #{self.cur}')

    def make_sub(self, t, k, raises, queued_raises=False):
        w = self

        class Sub:
            def on_queued(self, future, **kwargs):
                w.emit(('q', w.cur, k))
                t.seen_id = future.meta.transfer_id
                if queued_raises:
                    raise QueuedBoom(f'on_queued of subscriber {k} of #{t.idx}')

            def on_done(self, future, **kwargs):
                w.emit(('d', w.cur, k))
                t.on_done_snapshots.append((k, bool(t.temp and os.path.exists(t.temp)),
                                            bool(t.dest and os.path.exists(t.dest))))
                if raises:
                    raise SubscriberBoom(f'subscriber {k} of #{t.idx}')
        return Sub()

    def close(self):
        shutil.rmtree(self.dir, ignore_errors=True)

    # -- ops
    def submit(self, kind, nsubs, raises, fail, variant):
        """fail: '0' | 'q' (first subscriber's on_queued raises) | 'a' (building the
        make_request arguments raises: serializer, or a missing upload source) |
        'm' (make_request raises).  All of them are inside the try block."""
        if self.sem._value == 0:
            return 'block'
        fails = fail != '0'
        if fail == 'q' and nsubs == 0:
            fail = 'a'
        if fail == 'a' and (variant not in ARG_VARIANTS or (variant == 'missing_file' and kind != 'u')):
            variant = 'serialize'
        idx = len(self.trs)
        t = Tr(idx, kind, nsubs, raises, fails)
        self.trs.append(t)
        subs = [self.make_sub(t, k, t.raises and k == nsubs - 1, fail == 'q' and k == 0) for k in range(nsubs)]
        t.content = bytes([65 + idx % 26]) * (3 + idx % 5)
        if fail == 'm':
            self.client.fail_next = ConstructionBoom('make_request')
        elif fail == 'a' and variant == 'serialize':
            self.ser.fail_next = ConstructionBoom('serialize')
        ncalls = len(self.client.calls)
        self.cur = idx
        try:
            if kind == 'u':
                if fail == 'a' and variant == 'missing_file':
                    src = os.path.join(self.dir, f'missing{idx}')
                elif idx % 2 == 0:
                    src = os.path.join(self.dir, f'src{idx}')
                    with open(src, 'wb') as f:
                        f.write(t.content)
                    t.src = src
                else:
                    src = io.BytesIO(t.content)
                t.future = self.mgr.upload(src, 'bucket', f'key{idx}', subscribers=subs)
            elif kind == 'p':
                t.dest = os.path.join(self.dir, f'dst{idx}')
                t.future = self.mgr.download('bucket', f'key{idx}', t.dest, subscribers=subs)
            elif kind == 's':
                t.stream = io.BytesIO()
                t.future = self.mgr.download('bucket', f'key{idx}', t.stream, subscribers=subs)
            else:
                t.future = self.mgr.delete('bucket', f'key{idx}', subscribers=subs)
            res = 'submitted'
        except SubscriberBoom:
            res = 'raised'
        except HarnessWouldBlock:
            res = 'block!'          # the guard above said a permit was free
        except Exception as e:      # nothing else may leave _submit_transfer
            res = 'raised:' + type(e).__name__
        finally:
            self.cur = None
        if fails:
            t.on_done_invoked = True
        if len(self.client.calls) > ncalls:
            call = self.client.calls[-1]
            if call.get('recv_filepath'):
                t.temp = call['recv_filepath']
            req = self.client.requests[-1]
            if req is not None:
                t.req = req
                self.req_idx[req.index] = idx
        if t.future is not None:
            if t.seen_id is not None and t.future.meta.transfer_id != t.seen_id:
                self.problems.append(f'#{idx}: subscribers saw id {t.seen_id}, future has {t.future.meta.transfer_id}')
            t.seen_id = t.future.meta.transfer_id
        return res

    def pending(self, i):
        return 0 <= i < len(self.trs) and self.trs[i].req is not None and not self.trs[i].req.finished

    def resolve(self, i, o):
        """First half of the CRT's _on_finish: finished_future gets its result."""
        from awscrt.s3 import S3ResponseError, cancel_error
        from awscrt.exceptions import AwsCrtError
        if not self.pending(i):
            return 'invalid'
        t = self.trs[i]
        if o == 'f' and t.kind != 'p':
            o = 'k'
        err = None
        if o in 'kf':
            if t.kind == 'p':
                with open(t.temp, 'wb') as f:
                    f.write(t.content)
                if o == 'f':
                    self.fail_rename.add(t.dest)
            elif t.kind == 's':
                on_body = t.req.kwargs.get('on_body')
                self.cur = i
                on_body(chunk=t.content, offset=0)
                self.cur = None
        elif o == 'e':
            err = (S3ResponseError(status_code=500, operation_name='GetObject') if i % 2
                   else AwsCrtError(code=1, name='AWS_ERROR_TEST', message='failed'))
            if t.kind == 'p':
                with open(t.temp, 'wb') as f:
                    f.write(t.content[:1])
        else:
            if t.future is not None:
                t.future.cancel()
                if not t.req.cancel_requested:
                    self.problems.append(f'#{i}: future.cancel() did not reach the CRT request')
            err = cancel_error()
        t.finished_with = o
        t.req.resolve(err)
        self.cur = None
        return 'resolved'

    def deliverable(self, i):
        return 0 <= i < len(self.trs) and self.trs[i].req is not None and \
            self.trs[i].req.finished and not self.trs[i].req.delivered

    def deliver(self, i):
        """Second half: the CRT calls on_done."""
        if not self.deliverable(i):
            return 'invalid'
        t = self.trs[i]
        t.on_done_invoked = True
        self.cur = i
        escaped = t.req.deliver()
        self.cur = None
        if escaped is None:
            return 'completed'
        if isinstance(escaped, SubscriberBoom):
            return 'cbraised'
        return 'cbraised:' + type(escaped).__name__

    def complete(self, i, o):
        r = self.resolve(i, o)
        return self.deliver(i) if r == 'resolved' else r

    def registered(self):
        return [t for t in self.trs if t.future is not None]

    def mark_cancelled(self):
        for t in self.trs:
            if t.req is not None and t.req.delivered and t.finished_with is None:
                t.finished_with = 'c'
                t.on_done_invoked = True

    def shutdown(self, cancel, via='shutdown'):
        """Calls the REAL shutdown()/__exit__ on this thread.  A wait that could
        never end here (done event not set, finished_future pending) raises
        HarnessWouldBlock (a BaseException) out of it: 'hang'."""
        self.client.sync_cancel = True
        held = [(t, getattr(self.coord(t.future), self.req_attr(self.coord(t.future)))) for t in self.registered()]
        try:
            if via == 'exit':
                if cancel:
                    self.mgr.__exit__(ValueError, ValueError('body of the with block failed'), None)
                else:
                    self.mgr.__exit__(None, None, None)
            else:
                self.mgr.shutdown(cancel)
            res = 'returned'
        except HarnessWouldBlock:
            res = 'hang'
        finally:
            self.client.sync_cancel = False
            self.cur = None
        self.mark_cancelled()
        # a real thread would still sit inside coordinator.result(); undo what its
        # `finally` did when the simulated block unwound it
        for t, req in held:
            c = self.coord(t.future)
            if res == 'hang' and getattr(c, self.req_attr(c)) is None and req is not None and not t.req.finished:
                setattr(c, self.req_attr(c), req)
        return res

    # -- observation
    def temp_state(self, t):
        if t.kind != 'p':
            return 'n'
        te = bool(t.temp and os.path.exists(t.temp))
        de = os.path.exists(t.dest)
        if te and not de:
            return 't'
        if de and not te:
            with open(t.dest, 'rb') as f:
                return 'p' if f.read() == t.content else 'BADCONTENT'
        if not te and not de:
            return 'x' if t.req is not None else 'n'
        return 'BOTH'

    def future_state(self, t):
        from awscrt.exceptions import AwsCrtError
        if t.future is None:
            return 'U'
        c = self.coord(t.future)
        if not t.future.done():
            if getattr(c, names.param_attr(type(c), 'set_exception', 'exception', '_exception')) is None:
                return 'P'
            try:
                t.future.result()
                return 'F?returned'
            except (ConstructionBoom, QueuedBoom, OSError):
                return 'F'
            except Exception as e:
                return 'F?' + type(e).__name__
        try:
            t.future.result()
            st = 'S'
        except AwsCrtError as e:
            st = 'C' if e.name == 'AWS_ERROR_S3_CANCELED' else 'E'
        except Exception as e:
            st = 'E?' + type(e).__name__
        if st == 'S' and t.kind == 's' and t.stream.getvalue() != t.content:
            st = 'S?stream'
        return st

    def after_flag(self, t):
        if t.future is None:
            return '-'
        return '+' if self.coord_event(self.coord(t.future)).is_set() else '-'

    def holding(self):
        return sum(1 for names in self.by_idx.values() if 'a' in names and 'r' not in names)

    def extra_files(self):
        want = set()
        for t in self.trs:
            for p in (t.dest, t.temp, getattr(t, 'src', None)):
                if p:
                    want.add(os.path.basename(p))
        return sorted(set(os.listdir(self.dir)) - want)

    def segment(self, res, log_from):
        evs = []
        for e in self.log[log_from:]:
            i = '?' if e[1] is None else str(e[1])
            evs.append(e[0] + i + ('.' + str(e[2]) if len(e) > 2 else ''))
        trs = ','.join(f'{hx(t.seen_id) if t.seen_id is not None else "?"}/{t.kind}{self.temp_state(t)}'
                       f'{self.future_state(t)}{self.after_flag(t)}' for t in self.trs)
        seg = ';'.join([res, hx(self.sem._value), str(self.holding()), ','.join(evs), trs])
        extra = self.extra_files()
        if extra:
            seg += ';EXTRA-FILES:' + ','.join(extra)
        if self.problems:
            seg += ';PROBLEM:' + '/'.join(self.problems)
        return seg


class Patched:
    """class-level logging wrapper around the after-done flag, and a shim for the
    `threading` name of s3transfer.crt whose Event detects a wait that would
    block the harness thread for ever."""
    def __enter__(self):
        crt = load_crt()
        self.cls = crt.CRTTransferCoordinator
        self.orig = self.cls.set_done_callbacks_complete
        orig = self.orig
        holder = self

        def wrapper(coord):
            w = holder.world
            if w is not None:
                w.after_done(coord)
            return orig(coord)
        self.cls.set_done_callbacks_complete = wrapper
        self.world = None

        class BlockEvent(threading.Event):
            """Event.wait() that could never return in this thread raises instead."""
            def wait(self, timeout=None):
                w = holder.world
                if timeout is None and not self.is_set() and w is not None and not w.allow_block:
                    raise HarnessWouldBlock('done event')
                return super().wait(timeout)
        import types
        self.crt = crt
        self.orig_threading = crt.threading
        crt.threading = types.SimpleNamespace(Semaphore=threading.Semaphore, Lock=threading.Lock,
                                              Event=BlockEvent)
        return self

    def __exit__(self, *a):
        self.cls.set_done_callbacks_complete = self.orig
        self.crt.threading = self.orig_threading


# ---------------------------------------------------------------- ops <-> text

def op_token(op):
    if op[0] == 'S':
        return f'S:{op[1]}:{op[2]}:{int(op[3])}:{op[4]}'
    if op[0] in 'CR':
        return f'{op[0]}:{op[1]}:{op[2]}'
    if op[0] == 'D':
        return f'D:{op[1]}'
    return f'X:{int(op[1])}'


def model_line(permits, ops):
    return hx(permits) + ' ' + ' '.join(op_token(o) for o in ops)


def model_results(model_out):
    return [seg.split(';', 1)[0] for seg in model_out.split(' | ')] if model_out else []


def run_impl(patch, root, permits, ops, model_res=None, fail_remove=False):
    """-> (trace string, oracle failures, configured permit count)."""
    w = World(permits, root)
    w.fail_remove = fail_remove
    patch.world = w
    segs, steps = [], []
    try:
        for n, op in enumerate(ops):
            lf = len(w.log)
            if op[0] == 'S':
                variant = op[5] if len(op) > 5 and op[5] else ARG_VARIANTS[n % 2]
                res = w.submit(op[1], op[2], op[3], op[4], variant)
            elif op[0] == 'C':
                res = w.complete(op[1], op[2])
            elif op[0] == 'R':
                res = w.resolve(op[1], op[2])
            elif op[0] == 'D':
                res = w.deliver(op[1])
            else:
                via = op[2] if len(op) > 2 and op[2] else ('exit' if n % 2 else 'shutdown')
                res = w.shutdown(op[1], via)
            segs.append(w.segment(res, lf))
            steps.append(oracle_step(w, op, res, lf))
        return ' | '.join(segs), [s for st in steps for s in st], w.count
    finally:
        patch.world = None
        w.close()


# ---------------------------------------------------------------- oracle

def oracle_step(w, op, res, log_from):
    """C20 stated on the implementation's own behaviour, after one op.
    Returns [(rule, description)]."""
    bad = []
    val = w.sem._value
    # conservation
    if val + w.holding() != w.count or not (0 <= val <= w.count):
        bad.append(('conservation', f'after {op_token(op)}: semaphore value {val} + transfers holding a permit '
                                    f'{w.holding()} != configured {w.count}'))
    for t in w.trs:
        names = w.by_idx.get(t.idx, [])
        na, nr, nf = names.count('a'), names.count('r'), names.count('f')
        if na != 1 or nr > 1 or nf > 1:
            bad.append(('one-release', f'transfer #{t.idx} ({t.kind}): {na} acquires, {nr} releases, {nf} after-done flags'))
        if t.on_done_invoked and not t.raises:
            if nr != 1:
                how = 'construction failure' if t.finished_with is None else {'k': 'success', 'f': 'success', 'e': 'error', 'c': 'cancel'}[t.finished_with]
                bad.append(('one-release', f'transfer #{t.idx} ({t.kind}) finished by {how}: its permit was released {nr} times'))
            if names.count('d') != t.nsubs:
                bad.append(('order', f'transfer #{t.idx}: {names.count("d")} of {t.nsubs} subscribers\' on_done ran'))
            if nf != 1 and t.future is not None:
                bad.append(('order', f'transfer #{t.idx}: after-done flag set {nf} times after its done callbacks'))
        if not t.on_done_invoked and (nr or nf or 'd' in names):
            bad.append(('one-release', f'transfer #{t.idx} is still pending but release/after-done/on_done already ran'))
        # order
        pos = {n_: [k for k, x in enumerate(names) if x == n_] for n_ in set(names)}
        last_d = max(pos.get('d', [-1]))
        first_d = min(pos.get('d', [10 ** 9]))
        for late in ('r', 'f'):
            if pos.get(late) and min(pos[late]) < last_d:
                bad.append(('order', f'transfer #{t.idx}: {"release" if late == "r" else "after-done flag"} before a subscriber\'s on_done'))
        if pos.get('r') and pos.get('f') and min(pos['f']) < min(pos['r']):
            bad.append(('order', f'transfer #{t.idx}: after-done flag before the release'))
        for h in ('mv', 'rm'):
            if pos.get(h) and (min(pos[h]) > first_d or
                               (pos.get('r') and min(pos[h]) > min(pos['r'])) or
                               (pos.get('f') and min(pos[h]) > min(pos['f']))):
                bad.append(('order', f'transfer #{t.idx}: temp file {"renamed" if h == "mv" else "removed"} after a done callback'))
        # publish or remove (not judged when the harness makes the removal itself fail)
        if t.kind == 'p' and t.req is not None and t.req.delivered and not w.fail_remove:
            te, de = os.path.exists(t.temp), os.path.exists(t.dest)
            if te:
                bad.append(('publish-or-remove', f'download #{t.idx} finished ({t.finished_with}) but its temporary file is still there'))
            if t.finished_with == 'k' and not de:
                bad.append(('publish-or-remove', f'download #{t.idx} succeeded but the destination was not published'))
            if t.finished_with in ('e', 'c') and de:
                bad.append(('publish-or-remove', f'download #{t.idx} failed ({t.finished_with}) but a destination file exists'))
            for (k, ste, sde) in t.on_done_snapshots:
                if ste or (t.finished_with == 'k') != sde:
                    bad.append(('order', f'download #{t.idx}: when subscriber {k}\'s on_done ran the temp file was '
                                         f'{"present" if ste else "gone"} and the destination {"present" if sde else "absent"}'))
    if op[0] == 'X' and res == 'returned':
        for t in w.registered():
            if not w.coord_event(w.coord(t.future)).is_set() or \
                    w.by_idx.get(t.idx, []).count('d') != t.nsubs:
                bad.append(('shutdown', f'shutdown({bool(op[1])}) returned before the done callbacks of transfer #{t.idx} ran'))
            if t.temp and os.path.exists(t.temp) and not w.fail_remove:
                bad.append(('shutdown', f'shutdown({bool(op[1])}) returned with a temporary file of #{t.idx} left'))
    if val > w.count:
        bad.append(('conservation', f'after {op_token(op)}: {val} permits available, more than the configured {w.count}'))
    if op[0] == 'S' and res.startswith('raised:'):
        bad.append(('blocks-not-fails', f'submit raised {res[7:]}'))
    if op[0] == 'S' and res == 'block!':
        bad.append(('conservation', 'acquire would block although the semaphore value was positive'))
    if w.extra_files() and not w.fail_remove:
        bad.append(('publish-or-remove', f'unexpected files in the destination directory: {w.extra_files()}'))
    return bad


def thread_tests(ctx):
    """The places where the real code must BLOCK, with real threads: helper
    thread + join timeout.  allow_block makes the stub's waits real."""
    load_crt()
    out = []
    root = tempfile.mkdtemp(prefix='verif-c20-thr-')
    with Patched() as patch:
        try:
            # 1. the (n+1)-th concurrent submit blocks, then proceeds when a permit returns
            w = World(2, root)
            patch.world = w
            w.submit('u', 1, False, '0', None)
            w.submit('p', 1, False, '0', None)
            w.allow_block = True
            box = {}

            def third():
                try:
                    box['future'] = w.mgr.delete('bucket', 'key2')
                except BaseException as e:      # noqa
                    box['exc'] = e
            th = threading.Thread(target=third, daemon=True)
            w.cur = 2
            th.start()
            th.join(0.4)
            blocked = th.is_alive() and not box and w.sem._value == 0 and \
                len(w.client.calls) == 2
            w.complete(1, 'k')
            w.cur = 2
            th.join(10)
            proceeded = (not th.is_alive()) and 'future' in box and len(w.client.calls) == 3 and \
                w.sem._value == 0
            if not blocked:
                out.append(('blocks-not-fails', 'third-submit', f'with 2 permits held a third submit did not block (thread alive={th.is_alive()}, outcome={box})'))
            elif not proceeded:
                out.append(('blocks-not-fails', 'third-submit', 'a blocked submit did not proceed after a permit was released'))
            ctx.count('crt-thread', 1, nontrivial_key='third-submit-blocks')
            w.close()
            # 2. shutdown() waits for a pending transfer and returns once it is finished
            w = World(2, root)
            patch.world = w
            w.allow_block = True
            w.submit('p', 1, False, '0', None)
            th = threading.Thread(target=w.mgr.shutdown, daemon=True)
            th.start()
            th.join(0.4)
            waited = th.is_alive()
            w.complete(0, 'e')
            th.join(10)
            if not waited:
                out.append(('shutdown', 'pending', 'shutdown() returned while a transfer was pending'))
            elif th.is_alive():
                out.append(('shutdown', 'pending', 'shutdown() still blocked after the last transfer finished'))
            ctx.count('crt-thread', 1, nontrivial_key='shutdown-waits')
            w.close()
            # 3. the CRT resolved a future but its on_done has not run yet (the CRT thread
            #    is between the two halves of _on_finish): shutdown()/shutdown(cancel=True)/
            #    __exit__ must keep waiting -- also when an EARLIER transfer's result() raises
            for first in ('none', 'construction-failure', 'error', 'cancelled'):
                for call in ('shutdown()', 'shutdown(cancel=True)', '__exit__(None)', '__exit__(exception)'):
                    name = f'{first}-ahead:{call}'
                    w = World(3, root)
                    patch.world = w
                    w.allow_block = True
                    if first == 'construction-failure':
                        w.submit('u', 1, False, 'm', None)
                    elif first == 'error':
                        w.submit('p', 1, False, '0', None)
                        w.complete(0, 'e')
                    elif first == 'cancelled':
                        w.submit('x', 1, False, '0', None)
                        w.complete(0, 'c')
                    i = len(w.trs)
                    w.submit('p', 1, False, '0', None)
                    t = w.trs[i]
                    w.resolve(i, 'k')
                    w.client.sync_cancel = True
                    target, args = {
                        'shutdown()': (w.mgr.shutdown, ()),
                        'shutdown(cancel=True)': (w.mgr.shutdown, (True,)),
                        '__exit__(None)': (w.mgr.__exit__, (None, None, None)),
                        '__exit__(exception)': (w.mgr.__exit__, (ValueError, ValueError('x'), None)),
                    }[call]
                    th = threading.Thread(target=target, args=args, daemon=True)
                    th.start()
                    th.join(0.25)
                    waited = th.is_alive()
                    published_early = os.path.exists(t.dest)
                    w.deliver(i)
                    th.join(10)
                    if not waited:
                        out.append(('shutdown', name,
                                    f'{call} returned after the CRT resolved transfer #{i}\'s future but before its done '
                                    f'callbacks (rename, subscribers, release, flag) ran'
                                    + ('' if first == 'none' else f'; transfer #0 ahead of it ended by {first}')))
                    elif th.is_alive() or not os.path.exists(t.dest) or published_early:
                        out.append(('shutdown', name, f'{call} did not return after the done callbacks ran, or the file was not published by them'))
                    ctx.count('crt-thread', 1, nontrivial_key=name, first=first)
                    w.close()
            # 4. (behaviour outside the property's quantifier, recorded) raising subscriber
            w = World(2, root)
            patch.world = w
            w.allow_block = True
            w.submit('u', 1, True, '0', None)
            w.complete(0, 'k')
            w.client.sync_cancel = True
            th = threading.Thread(target=w.mgr.shutdown, args=(True,), daemon=True)
            th.start()
            th.join(0.4)
            ctx.notes.append('observed: after a subscriber\'s on_done raised, permit released=%s, shutdown(cancel=True) %s'
                             % (w.sem._value == 2, 'blocks' if th.is_alive() else 'returns'))
            ctx.count('crt-thread', 1, nontrivial_key='raising-subscriber')
            w.close()
        finally:
            patch.world = None
            shutil.rmtree(root, ignore_errors=True)
    return out


# ---------------------------------------------------------------- cases

def exhaustive(depth, permits=2):
    """All op sequences up to `depth` over a small alphabet, pruned to those in
    which every completion / resolution / delivery addresses a request in the
    right state (the shadow below only tracks pending and resolved requests)."""
    subs = [('S', 'p', 1, False, '0'), ('S', 'p', 1, False, 'q'), ('S', 'u', 1, False, '0'),
            ('S', 'u', 1, False, 'a'), ('S', 'x', 0, False, 'm')]
    out = []

    def rec(seq, pending, resolved, ntr, free):
        if seq:
            out.append(list(seq))
        if len(seq) == depth:
            return
        for s in subs:
            if free > 0:
                if s[4] != '0':
                    rec(seq + [s], pending, resolved, ntr + 1, free)
                else:
                    rec(seq + [s], pending | {ntr}, resolved, ntr + 1, free - 1)
            elif s is subs[0]:
                rec(seq + [s], pending, resolved, ntr, free)       # blocks
        for i in sorted(pending):
            for o in 'kec':
                rec(seq + [('C', i, o)], pending - {i}, resolved, ntr, free + 1)
            for o in 'ke':
                rec(seq + [('R', i, o)], pending - {i}, resolved | {i}, ntr, free)
        for i in sorted(resolved):
            rec(seq + [('D', i)], pending, resolved - {i}, ntr, free + 1)
        rec(seq + [('X', True)], frozenset(), resolved, ntr, free + len(pending))
        rec(seq + [('X', False)], pending, resolved, ntr, free)
    rec([], frozenset(), frozenset(), 0, permits)
    return out


def random_case(rng, malformed=False):
    permits = rng.choice([1, 2, 2, 3, 3, 4])
    n = rng.randrange(4, 26)
    ops, pending, resolved, ntr, free = [], [], [], 0, permits
    for _ in range(n):
        r = rng.random()
        if malformed and r < 0.25:
            kind = rng.choice('CRD')
            i = rng.randrange(0, ntr + 3)
            ops.append(('D', i) if kind == 'D' else (kind, i, rng.choice(OUTCOMES)))
            if kind in 'CR' and i in pending:
                pending.remove(i)
                if kind == 'C':
                    free += 1
                else:
                    resolved.append(i)
            elif kind == 'D' and i in resolved:
                resolved.remove(i)
                free += 1
            continue
        if r < 0.4 or not (pending or resolved):
            kind = rng.choice(KINDS)
            nsubs = rng.choice([0, 1, 1, 2])
            raises = rng.random() < 0.08
            fail = rng.choice('000000qam')
            ops.append(('S', kind, nsubs, raises, fail, rng.choice(ARG_VARIANTS)))
            if free > 0:
                if fail != '0':
                    if raises and nsubs:
                        free -= 1
                else:
                    pending.append(ntr)
                    free -= 1
                ntr += 1
        elif r < 0.65 and pending:
            i = rng.choice(pending)
            pending.remove(i)
            free += 1
            ops.append(('C', i, rng.choice('kkkfeecc')))
        elif r < 0.78 and pending:
            i = rng.choice(pending)
            pending.remove(i)
            resolved.append(i)
            ops.append(('R', i, rng.choice('kkfeec')))
        elif r < 0.9 and resolved:
            i = rng.choice(resolved)
            resolved.remove(i)
            free += 1
            ops.append(('D', i))
        else:
            c = rng.random() < 0.6
            ops.append(('X', c, rng.choice(['shutdown', 'exit'])))
            if c:
                free += len(pending)
                pending = []
    return permits, ops


def big_case(rng, source_permits):
    """The real permit count + 5 more transfers, completions in shuffled order."""
    ops = []
    n = source_permits + 5
    for i in range(n):
        ops.append(('S', KINDS[i % 4], i % 3, False, 'qam'[(i // 17) % 3] if i % 17 == 5 else '0',
                    ARG_VARIANTS[i % 2]))
    # what got a request: walk a shadow
    pending, ntr, free = [], 0, source_permits
    for o in ops:
        if free > 0:
            if o[4] == '0':
                pending.append(ntr)
                free -= 1
            ntr += 1
    order = list(pending)
    rng.shuffle(order)
    half = order[:len(order) // 2]
    for k, i in enumerate(half):
        if k % 5 == 4:
            ops.append(('R', i, rng.choice('ke')))
        else:
            ops.append(('C', i, rng.choice('kec')))
    for i in range(7):
        ops.append(('S', KINDS[i % 4], 1, False, '0', None))
    ops.append(('X', False, 'shutdown'))
    for k, i in enumerate(half):
        if k % 5 == 4:
            ops.append(('D', i))
    ops.append(('X', False, 'exit'))
    ops.append(('X', True, 'shutdown'))
    ops.append(('X', False, 'exit'))
    return None, ops


def case_hist(ops):
    return {
        'kinds': ''.join(sorted({o[1] for o in ops if o[0] == 'S'})) or '-',
        'construction_failure': ''.join(sorted({o[4] for o in ops if o[0] == 'S' and o[4] != '0'})) or '-',
        'split_completion': any(o[0] == 'R' for o in ops),
        'shutdown': any(o[0] == 'X' for o in ops),
    }


def shrink(patch, root, permits, ops, rule, model_res_for, budget_s=4.0):
    """Greedy: first cut the sequence after the first op at which `rule` fails,
    then drop ops while the oracle still reports `rule` (bounded time)."""
    import time
    t0 = time.time()
    cur = list(ops)

    def fails(cand):
        try:
            _, bad, _ = run_impl(patch, root, permits, cand, model_res_for(permits, cand))
        except Exception:
            return False
        return any(b[0] == rule for b in bad)
    lo = 1
    while lo < len(cur) and time.time() - t0 < budget_s:      # shortest failing prefix
        if fails(cur[:lo]):
            cur = cur[:lo]
            break
        lo += 1 if len(cur) < 40 else max(1, len(cur) // 20)
    changed = True
    while changed and len(cur) > 1 and time.time() - t0 < budget_s:
        changed = False
        for k in range(len(cur) - 1, -1, -1):
            if time.time() - t0 >= budget_s:
                break
            cand = drop_op(cur, k, permits)
            if cand and fails(cand):
                cur, changed = cand, True
                break
    return cur


def drop_op(ops, k, permits):
    """ops without ops[k]; when that is a submission that created transfer j, the
    ops addressing j go too and later indices shift down (blocking is only
    approximated by a shadow count -- the candidate is re-run anyway)."""
    free = 2 if permits is None else permits
    if permits is None:
        free = 10 ** 6
    ntr, created, pending, resolved = 0, {}, set(), set()
    for n, o in enumerate(ops):
        if o[0] == 'S' and free > 0:
            created[n] = ntr
            if o[4] == '0':
                pending.add(ntr)
                free -= 1
            elif o[3] and o[2]:
                free -= 1
            ntr += 1
        elif o[0] == 'C' and o[1] in pending:
            pending.discard(o[1])
            free += 1
        elif o[0] == 'R' and o[1] in pending:
            pending.discard(o[1])
            resolved.add(o[1])
        elif o[0] == 'D' and o[1] in resolved:
            resolved.discard(o[1])
            free += 1
        elif o[0] == 'X' and o[1]:
            free += len(pending)
            pending = set()
    j = created.get(k)
    out = []
    for n, o in enumerate(ops):
        if n == k:
            continue
        if j is not None and o[0] in 'CRD':
            if o[1] == j:
                continue
            if o[1] > j:
                o = (o[0], o[1] - 1) + tuple(o[2:])
        out.append(o)
    return out


def jsonable(ops):
    return [list(o) for o in ops]


def from_json(ops):
    out = []
    for o in ops:
        o = list(o)
        if o[0] == 'S' and isinstance(o[4], bool):      # older replay files
            o[4] = 'm' if o[4] else '0'
        out.append(tuple(o))
    return out


# ---------------------------------------------------------------- run

def run(ctx):
    import time
    t0 = time.time()
    common.proofs(ctx, 'C20', EXTRACT, COMPONENTS)
    t1 = time.time()
    ctx.assumptions = [
        'the awscrt package is a stub (harness/fake_awscrt): the real CRT client, its native threads and the thread on '
        'which it runs on_done / on_progress / on_body are NOT available here; callbacks run synchronously on the '
        'harness thread, so interleavings of CRT callback threads with submitting threads are not exercised',
        'blocking is simulated in the differential runs: Event.wait() on an unset done event and result() on a pending '
        'finished_future raise out of shutdown()/__exit__ instead of blocking (s3transfer.crt.threading is replaced by a shim '
        'for the duration of the check); 19 helper-thread tests exercise the same waits with real blocking',
        'stub contract taken from awscrt: a request finishes exactly once; finished_future is resolved before on_done '
        'runs (both orders of other events in between are explored); make_request that raises creates neither a request nor the recv_filepath file; an exception escaping '
        'on_done is dropped by the CRT; cancel() leads to one completion with AWS_ERROR_S3_CANCELED',
        'subscribers are well behaved except where stated: a subscriber whose on_done raises is modelled '
        '(theorem crt_release_when_subscriber_raises_refuted) and excluded from the exactly-one-release clause',
        'KeyboardInterrupt / BaseException paths of _submit_transfer and _shutdown are not modelled',
        'the extracted OCaml model and its line driver are trusted for the correspondence only',
    ]
    ctx.cov['rule'] = ('cases: op sequences (submit kind/subscribers/raising/construction failure in on_queued | argument '
                       'building | make_request; complete idx ok|rename-fails|error|cancel, or split into resolve idx (future '
                       'set) and deliver idx (on_done runs); shutdown()/__exit__ with/without cancel -- called for real, a wait '
                       'that can never end raises out of it) run on the real CRTTransferManager over the stub CRT '
                       'and on the extracted Coq model, compared op by op (result, semaphore value, #holding, new callback '
                       'events, per-transfer id/temp-file state/future class/done-event). Exhaustive: every sequence up to '
                       'the depth over a 5-submission alphabet with 2 permits in which completions/resolutions/deliveries address requests in the right state; '
                       'random: 4-25 ops, 1-4 permits; malformed: completions of unknown/finished requests; one run at the '
                       'source\'s permit count + 5. Distinct = distinct model command line; non-trivial = at least one '
                       'submission that got a permit plus a completion, construction failure or shutdown.')
    load_crt()
    root = tempfile.mkdtemp(prefix='verif-c20-')
    try:
        with Patched() as patch:
            if ctx.broken is None:
                correspondence(ctx, patch, root)
            else:
                search_after_break(ctx, patch, root)
            remove_refused(ctx, patch, root)
        t2 = time.time()
        for rule, name, what in thread_tests(ctx):
            ctx.report(f'oracle:{rule}:thread-test:{name}', what,
                       {'kind': 'schedule', 'case': {'thread_test': name}, 'rule': rule})
        ctx.notes.append(f'timing: proofs+build {t1 - t0:.1f}s (includes waiting for the shared build lock), '
                         f'correspondence {t2 - t1:.1f}s, thread tests {time.time() - t2:.1f}s')
    finally:
        shutil.rmtree(root, ignore_errors=True)


def gen_cases(ctx, source_permits):
    cases = []
    cdir = os.path.join(common.VERIF, 'corpus', 'crt')
    if os.path.isdir(cdir):
        import json
        for f in sorted(os.listdir(cdir)):
            if f.endswith('.json'):
                d = json.load(open(os.path.join(cdir, f)))
                cases.append(('corpus', d.get('permits'), from_json(d['ops'])))
    depth = 5 if ctx.thorough() else 4
    for ops in exhaustive(depth):
        cases.append(('exhaustive', 2, ops))
    if not ctx.thorough():
        deeper = [o for o in exhaustive(depth + 1) if len(o) == depth + 1]
        for ops in ctx.rng('deeper').sample(deeper, 1500):
            cases.append(('exhaustive-sample', 2, ops))
    rng = ctx.rng('random')
    for _ in range(10000 if ctx.thorough() else 1200):
        p, ops = random_case(rng)
        cases.append(('random', p, ops))
    rng = ctx.rng('malformed')
    for _ in range(1500 if ctx.thorough() else 300):
        p, ops = random_case(rng, malformed=True)
        cases.append(('malformed', p, ops))
    cases.append(('big',) + big_case(ctx.rng('big'), source_permits))
    return cases


def model_res_fn(source_permits):
    def f(permits, ops):
        out = common.run_model('crt', [model_line(source_permits if permits is None else permits, ops)])[0]
        return model_results(out)
    return f


def correspondence(ctx, patch, root):
    probe = World(None, root)
    source_permits = probe.source_permits
    probe.close()
    model_permits = common.unhx(common.run_model('crt', ['permits'])[0])
    if model_permits != source_permits:
        ctx.report('corr:crt:permit-count',
                   f'CRTTransferManager() starts with {source_permits} permits, gen/Tables.v says {model_permits}',
                   {'kind': 'correspondence', 'theorem_or_correspondence': 'Tables.CRT_PERMITS vs manager._semaphore._value'},
                   no_input=True)
    cases = gen_cases(ctx, source_permits)
    lines = [model_line(source_permits if p is None else p, ops) for (_, p, ops) in cases]
    model = common.run_model('crt', lines)
    mres = lambda a, b: None     # noqa: E731  (the implementation run needs no model verdicts)
    reported = 0
    exhaustive_n = 0
    mismatches = []
    for (stream, p, ops), line, mout in zip(cases, lines, model):
        trace, bad, count = run_impl(patch, root, p, ops)
        h = case_hist(ops)
        nontrivial = ('submitted' in trace) and any(o[0] in 'CRDX' or (o[0] == 'S' and o[4] != '0') for o in ops)
        ctx.count('crt', 1, nontrivial_key=(line if nontrivial else None), stream=stream, **h)
        if stream == 'exhaustive':
            exhaustive_n += 1
        if stream in ('corpus', 'exhaustive', 'random', 'big') and len(ops) >= 4:
            ctx.sample({'component': 'crt-' + stream, 'model_cmd': line if len(line) < 400 else line[:400] + '...',
                        'impl_and_model_trace': trace if len(trace) < 1200 else trace[:1200] + '...'}, limit=1)
        if bad and reported < 8:
            reported += 1
            rule, what = bad[0]
            small = shrink(patch, root, p, ops, rule, mres)
            _, bad2, _ = run_impl(patch, root, p, small, mres(p, small))
            what = next((b[1] for b in bad2 if b[0] == rule), what)
            ctx.report(f'oracle:{rule}:{model_line(count, small)}',
                       f'{what} [permits={count}, ops: {" ".join(op_token(o) for o in small)}]',
                       {'kind': 'history', 'component': 'crt',
                        'case': {'permits': p, 'ops': jsonable(small)}, 'rule': rule})
        elif trace != mout:
            mismatches.append((len(ops), len(mismatches), stream, p, ops, line, trace, mout))
    # correspondence failures: the shortest sequences first
    for (_, _, stream, p, ops, line, trace, mout) in sorted(mismatches)[:3]:
        isegs, msegs = trace.split(' | '), mout.split(' | ')
        k = next((j for j in range(min(len(isegs), len(msegs))) if isegs[j] != msegs[j]), min(len(isegs), len(msegs)))
        ctx.report(f'corr:crt:{stream}:{op_token(ops[k]) if k < len(ops) else "?"}',
                   f'real CRTTransferManager and model/Crt.v disagree at op {k} ({op_token(ops[k]) if k < len(ops) else "?"}) '
                   f'of [{line if len(line) < 300 else line[:300] + "..."}]: impl={isegs[k] if k < len(isegs) else None} '
                   f'model={msegs[k] if k < len(msegs) else None}; the C20 oracle holds on the implementation for this sequence',
                   {'kind': 'correspondence', 'theorem_or_correspondence': 'differential crt (real manager on stub awscrt vs extracted Crt.step)',
                    'case': {'permits': p, 'ops': jsonable(ops[:k + 1])}, 'impl': isegs[k] if k < len(isegs) else None,
                    'model': msegs[k] if k < len(msegs) else None}, no_input=True)
    ctx.cov['components'].setdefault('crt', {})['mismatches'] = len(mismatches)
    ctx.cov['components'].setdefault('crt', {})['exhaustive_sequences'] = exhaustive_n
    ctx.cov['traces_validated_against_impl'] = len(cases)


def remove_refused(ctx, patch, root):
    """Oracle-only stream: the file system refuses to remove temp files (EACCES).  The glue's
    obligations that do not depend on the file being gone still hold: one release per transfer,
    on_done subscribers before the after-done flag, shutdown returns only after every callback."""
    rng = ctx.rng('rmfail')
    cases = [(2, ops) for ops in exhaustive(3)]
    for _ in range(300 if ctx.thorough() else 60):
        cases.append(random_case(rng))
    for p, ops in cases:
        if len(ctx.violations) >= 5:
            break
        if not any(o[0] == 'S' and o[1] == 'p' for o in ops):
            continue
        try:
            trace, bad, count = run_impl(patch, root, p, ops, None, fail_remove=True)
        except Exception as e:      # noqa: an exception escaping the CRT glue on this stream is a finding
            bad, count = [('escaped', f'{type(e).__name__}: {e} escaped the manager')], p
        ctx.count('crt-remove-refused', 1, nontrivial_key=model_line(count, ops))
        if bad:
            rule, what = bad[0]
            ctx.report(f'oracle:rmfail:{rule}:{model_line(count, ops)}',
                       f'with temp-file removal refused by the file system: {what} [permits={count}, ops: '
                       f'{" ".join(op_token(o) for o in ops)}]',
                       {'kind': 'history', 'component': 'crt', 'case': {'permits': p, 'ops': jsonable(ops), 'fail_remove': True},
                        'rule': rule})


def search_after_break(ctx, patch, root):
    """A proof obligation, the build or the translator broke: search the
    implementation alone for a history that violates C20."""
    found = False
    cases = [('exhaustive', 2, ops) for ops in exhaustive(4)]
    rng = ctx.rng('random')
    for _ in range(400):
        p, ops = random_case(rng)
        cases.append(('random', p, ops))
    for (stream, p, ops) in cases:
        # without a model: never call a shutdown that could block
        trace, bad, count = run_impl(patch, root, p, ops, None)
        ctx.count('crt-search', 1, nontrivial_key=model_line(count, ops), stream=stream)
        if bad:
            rule, what = bad[0]
            small = shrink(patch, root, p, ops, rule, lambda a, b: None)
            _, bad2, _ = run_impl(patch, root, p, small, None)
            what = next((b[1] for b in bad2 if b[0] == rule), what)
            ctx.report(f'oracle:{rule}:{model_line(count, small)}',
                       f'{what} [permits={count}, ops: {" ".join(op_token(o) for o in small)}]',
                       {'kind': 'history', 'component': 'crt', 'case': {'permits': p, 'ops': jsonable(small)},
                        'rule': rule, 'broken': ctx.broken.what})
            found = True
            break
    if not found:
        ctx.report(f'broken:{ctx.broken.what}', ctx.broken.what,
                   {'kind': 'theorem', 'theorem_or_correspondence': ctx.broken.what, 'log': ctx.broken.log},
                   no_input=True)


def replay(ctx, data):
    case = data.get('case') or {}
    load_crt()
    if isinstance(case, dict) and 'ops' in case:
        root = tempfile.mkdtemp(prefix='verif-c20-')
        try:
            with Patched() as patch:
                trace, bad, _ = run_impl(patch, root, case.get('permits'), from_json(case['ops']), None, fail_remove=bool(case.get('fail_remove')))
        finally:
            shutil.rmtree(root, ignore_errors=True)
        print('trace:', trace)
        print('oracle:', bad)
        if data.get('kind') == 'correspondence':
            run(ctx)
            return bool(ctx.violations)
        return bool(bad)
    if isinstance(case, dict) and 'thread_test' in case:
        bad = [b for b in thread_tests(ctx) if b[1] == case['thread_test']]
        print('oracle:', bad)
        return bool(bad)
    run(ctx)
    return bool(ctx.violations)
