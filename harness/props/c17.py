"""C17 -- a transfer's state only moves forward and stays self-consistent.

Proof: coq/props/C17.v over coq/model/Coord.v (every op sequence, every
callback environment).  Tie: the real TransferCoordinator / TransferFuture run
op by op against the extracted model (ocaml/coord_main.ml): exhaustive op
sequences over a 14-op alphabet, random long sequences with random callback
scripts, all merges of small thread programs (announce phases and cancel's
critical section as separate ops), a corpus, a static check that the state
writes sit inside `with self._lock`, and a confirmation of predicted hangs /
non-hangs with the genuine locks in a helper thread with a join timeout.
Real concurrency: 2-3 real threads run short programs on ONE coordinator under
the cooperative deterministic scheduler (harness/sched/core.py; the
coordinator's locks/event come from its shim, plus a yield right after every
release): every schedule for small trees, every schedule with a bounded
number of deviations from run-to-block beyond, random/PCT on top; the C17
oracle is evaluated at every scheduling point and the outcome must be
linearizable: equal to the extracted model's outcome on some merge of the
threads' ops (announce_done as three phases, cancel as critical section +
phases).
Search oracle: the statement of C17 evaluated on the implementation alone
along the op sequence.
"""
import ast
import glob
import itertools
import json
import os
import threading

from harness import common, names
from harness.common import hx

EXTRACT = ['ExCoord']
COMPONENTS = ['coord']

STATUS = {'not-started': 'ns', 'queued': 'q', 'running': 'r', 'success': 'ok',
          'failed': 'fail', 'cancelled': 'canc'}
HANGS = ('DEADLOCK', 'CBBLOCKED', 'STUCK')
ANNOUNCE_OPS = ('ann', 'ph1', 'ph2', 'ph3')     # ph2 never hangs; listed for the discipline


class SelfDeadlock(BaseException):
    """the executing thread asked for a non re-entrant lock it holds"""


class WouldBlock(BaseException):
    """result() would wait: the done event is not set"""


class OtherErr(Exception):
    pass


class BadStrErr(OtherErr):
    """An ordinary failure whose str() itself raises (templated messages with a missing field do):
    recording it must not depend on being able to print it.  For the model it is an OtherErr."""

    def __init__(self, msg):
        super().__init__(msg)
        self.verif_msg = msg

    def __str__(self):
        raise KeyError('message template field missing')

    __repr__ = object.__repr__


class TLock:
    """threading.Lock that reports a self-deadlock instead of hanging."""

    def __init__(self):
        self._l = threading.Lock()
        self.owner = None

    def acquire(self, *a, **k):
        me = threading.get_ident()
        if self.owner == me:
            raise SelfDeadlock()
        self._l.acquire()
        self.owner = me
        return True

    def release(self):
        self.owner = None
        self._l.release()

    def locked(self):
        return self._l.locked()

    def __enter__(self):
        self.acquire()
        return self

    def __exit__(self, *a):
        self.release()


class TEvent(threading.Event):
    def wait(self, timeout=None):
        if not self.is_set():
            raise WouldBlock()
        return True


class NullEvent:
    """stands in for the done event while one phase of announce_done is run alone:
    set() does nothing, waiting sees the genuine event"""

    def __init__(self, real, depth):
        self._real = real
        self._depth = depth

    def set(self):
        if self._depth[0] != 1:
            self._real.set()

    def is_set(self):
        return self._real.is_set()

    def wait(self, timeout=None):
        return self._real.wait(timeout)


class BadCtorErr(Exception):
    """an exception class that cannot be built from one message argument (like
    botocore's ClientError): cancel(msg, exc_type=BadCtorErr) raises TypeError"""

    def __init__(self, a, b):
        super().__init__(a, b)


class Reg:
    """one registration of a callback / cleanup"""
    __slots__ = ('kind', 'id', 'index', 'runs')

    def __init__(self, kind, cid, index):
        self.kind, self.id, self.index, self.runs = kind, cid, index, 0


def msg_of(i):
    return '' if i == 0 else 'm%x' % i


def parse_env(env):
    """'cb1=sx:o:2,result cl1=cancel:c:0' -> {('cb',1): [...], ('cl',1): [...]}"""
    d = {}
    for tok in env.split():
        lhs, rhs = tok.split('=', 1)
        d[(lhs[:2], int(lhs[2:], 16))] = [c for c in rhs.split(',') if c]
    return d


class Impl:
    """The real coordinator + future driven by model-syntax op tokens, with the
    C17 oracle evaluated on the implementation's own answers."""

    def __init__(self, env, real_locks=False, sched_ns=None):
        from s3transfer import futures as _futures
        from s3transfer.futures import TransferCoordinator, TransferFuture
        from s3transfer import exceptions
        self.ex = exceptions
        self.sched_mode = sched_ns is not None
        self.sched_ns_sched = getattr(sched_ns, 'sched', None)
        if sched_ns is not None:
            # the coordinator creates its locks / event from the scheduler's shim:
            # every Lock.acquire / release and Event.set / wait is a yield point
            real_locks = True
            saved = _futures.threading
            _futures.threading = sched_ns
            # reads of the state are scheduling points too (the interpreter can switch threads
            # between two attribute reads): `status` is read through a yielding property
            base_status = TransferCoordinator.__dict__.get('status')
            if isinstance(base_status, property) and getattr(sched_ns, 'sched', None) is not None:
                sched_ = sched_ns.sched

                readers = self.status_readers = set()     # threads inside a top-level done()/status op

                def _yielding_status(self_):
                    # only the reads made by a thread's own top-level done() / status observation are
                    # scheduling points: finer yields inside announce_done or inside callback scripts
                    # would exhibit interleavings below the granularity of the model's merges
                    if id(sched_.me()) in readers:
                        sched_.yield_point('status-read')
                    return base_status.fget(self_)
                cls_ = type('TransferCoordinator', (TransferCoordinator,), {'status': property(_yielding_status)})
            else:
                cls_ = TransferCoordinator
            try:
                self.c = cls_()
            finally:
                _futures.threading = saved
        else:
            self.c = TransferCoordinator()
        self.f = TransferFuture(coordinator=self.c)
        self.real_locks = real_locks
        # private names by role (harness/names.py): a rename in /repo is followed, not reported
        self.N = N = names.coordinator(TransferCoordinator)
        for role in ('state_lock', 'done_callbacks_lock', 'failure_cleanups_lock', 'done_event', 'result', 'done_callbacks'):
            if not hasattr(self.c, N[role]):
                raise common.BuildBroken(f'TransferCoordinator has no attribute for the role {role} (looked for {N[role]}): '
                                         'instrumentation no longer applies', '')
        if not real_locks:
            setattr(self.c, N['state_lock'], TLock())
            setattr(self.c, N['done_callbacks_lock'], TLock())
            setattr(self.c, N['failure_cleanups_lock'], TLock())
            setattr(self.c, N['done_event'], TEvent())
        self.env = parse_env(env) if isinstance(env, str) else env
        self.log = []
        self.regs = {'C': [], 'K': []}
        self.run_order = {'C': [], 'K': []}
        self.viol = []               # (clause, text)
        self.replaced_ok = False     # a legitimate replacer executed during the current op
        self.last_result = None
        self.in_cb = None
        self.cur_op = None
        self.pre_status = None
        self.sx_inflight = 0

    # ---- private state, by role
    @property
    def ev(self):
        return getattr(self.c, self.N['done_event'])

    @property
    def res(self):
        return getattr(self.c, self.N['result'])

    # ---- values
    def mk_exc(self, k, i):
        cls = {'c': self.ex.CancelledError, 'f': self.ex.FatalError, 'o': OtherErr, 'b': BadStrErr}[k]
        return cls(msg_of(i))

    def canon(self, e):
        if e is None:
            return '-'
        t = type(e)
        k = 'c' if t is self.ex.CancelledError else 'f' if t is self.ex.FatalError else \
            'o' if t in (OtherErr, BadStrErr) else '?' + t.__name__ + ':'
        m = e.verif_msg if t is BadStrErr else str(e)
        if m == '':
            return k + '0'
        if m.startswith('m'):
            try:
                return k + hx(int(m[1:], 16))
            except ValueError:
                pass
        return (k + '?' + m).replace(' ', '_').replace(',', ';').replace('/', '|')

    # ---- callbacks
    def _run_cb(self, reg):
        reg.runs += 1
        self.run_order[reg.kind].append(reg.index)
        self.log.append(reg.kind + hx(reg.id))
        if reg.kind == 'K' and self.pre_status == 'success':
            self.viol.append(('cleanup-on-success', f'failure cleanup {reg.id} run by {self.cur_op} although the status was success'))
        outer = self.in_cb
        self.in_cb = reg.kind
        for call in self.env.get(('cb' if reg.kind == 'C' else 'cl', reg.id), []):
            r = self.do_call(call, top=False)
            self.log.append('S(' + r + ')')
        self.in_cb = outer

    # ---- the TransferFuture API (also what scripts call)
    def do_call(self, tok, top):
        c, f = self.c, self.f
        p = tok.split(':')
        if p[0] in ('done', 'status') and top and self.sched_mode and getattr(self, 'status_readers', None) is not None \
                and self.in_cb is None:
            me = id(self.sched_ns_sched.me())
            self.status_readers.add(me)
            try:
                return self.do_call(tok, top=False)
            finally:
                self.status_readers.discard(me)
        if p[0] == 'done':
            return 'T' if f.done() else 'F'
        if p[0] == 'status':
            f.meta
            return 'st:' + STATUS.get(c.status, '?' + str(c.status))
        if p[0] == 'result':
            if self.real_locks and not self.sched_mode and top and not self.ev.is_set():
                return 'blocked'        # with the genuine event the caller would simply wait
            try:
                v = f.result()
                return 'ret:' + ('none' if v is None else hx(v))
            except WouldBlock:
                if top:
                    return 'blocked'
                raise
            except Exception as e:
                if e is not c.exception:
                    self.viol.append(('agreement', f'result() raised {e!r} which is not the stored exception {c.exception!r}'))
                return 'raise:' + self.canon(e)
        if p[0] == 'sx':
            e = self.mk_exc(p[1], int(p[2], 16))
            was_done = f.done()
            before = (c.status, c.exception, self.res)
            self.sx_inflight += 1
            try:
                f.set_exception(e)
            except self.ex.TransferNotDoneError:
                if was_done:
                    self.viol.append(('user-set-exception', 'future.set_exception raised TransferNotDoneError on a done future'))
                if not self.sched_mode and (c.status, c.exception, self.res) != before:
                    self.viol.append(('user-set-exception', 'future.set_exception raised TransferNotDoneError but changed the state'))
                return 'notdone'
            finally:
                self.sx_inflight -= 1
            if self.sched_mode:
                return 'unit'           # other threads may already have moved on: linearizability judges the outcome
            if not was_done:
                self.viol.append(('user-set-exception', f'future.set_exception accepted although done() was False (status {before[0]})'))
            else:
                self.replaced_ok = True
                if c.exception is not e or c.status != 'failed':
                    self.viol.append(('user-set-exception', 'future.set_exception on a done future did not store the exception / set failed'))
            return 'unit'
        if p[0] == 'cancel' and p[1] == 'x':
            # a cancel whose exception cannot be constructed: cancel() raises TypeError and must
            # leave the transfer as it was; the model runs the read-only op 'status' in its place
            try:
                c.cancel(msg_of(int(p[2], 16)), BadCtorErr)      # on a done transfer nothing is constructed
            except TypeError:
                pass
            return self.do_call('status', top)
        if p[0] == 'cancel':
            k, m = p[1], int(p[2], 16)
            if k == 'c' and m == 0:
                f.cancel()
            else:
                c.cancel(msg_of(m), {'c': self.ex.CancelledError, 'f': self.ex.FatalError, 'o': OtherErr}[k])
            return 'unit'
        raise ValueError('bad call ' + tok)

    # ---- coordinator ops
    def do_op(self, tok):
        c = self.c
        p = tok.split(':')
        h = p[0]
        if h in ('done', 'status', 'result', 'sx', 'cancel'):
            return self.do_call(tok, top=True)
        if h == 'sr':
            v = int(p[1], 16)
            self.replaced_ok = True
            self.last_result = v
            c.set_result(v)
            return 'unit'
        if h == 'se':
            e = self.mk_exc(p[1], int(p[2], 16))
            if p[3] == '1':
                self.replaced_ok = True
                c.set_exception(e, override=True)
            else:
                c.set_exception(e)
            return 'unit'
        if h == 'ccs':
            flag = []
            c.announce_done = lambda: flag.append(1)
            try:
                c.cancel(msg_of(int(p[2], 16)), {'c': self.ex.CancelledError, 'f': self.ex.FatalError, 'o': OtherErr}[p[1]])
            finally:
                del c.announce_done
            return 'T' if flag else 'F'
        if h in ('q', 'r'):
            try:
                (c.set_status_to_queued if h == 'q' else c.set_status_to_running)()
                return 'unit'
            except RuntimeError:
                return 'rterr'
        if h == 'ann':
            c.announce_done()
            return 'unit'
        if h in ('ph1', 'ph2', 'ph3'):
            # the real announce_done with the other two phases stubbed out -- for
            # this (outermost) call only: an announce nested in a callback runs whole
            cls = type(c)
            N = self.N
            saved_event = self.ev
            rfc, rdc = N['run_failure_cleanups'], N['run_done_callbacks']
            if not (hasattr(cls, rfc) and hasattr(cls, rdc)):
                raise common.BuildBroken(f'TransferCoordinator.announce_done no longer calls two runner methods ({rfc}, {rdc}): '
                                         'the phase ops cannot be driven', '')
            depth = [0]

            def announce():
                depth[0] += 1
                try:
                    return cls.announce_done(c)
                finally:
                    depth[0] -= 1
            try:
                c.announce_done = announce
                if h != 'ph1':
                    setattr(c, rfc, lambda: None if depth[0] == 1 else getattr(cls, rfc)(c))
                if h != 'ph2':
                    setattr(c, N['done_event'], NullEvent(saved_event, depth))
                if h != 'ph3':
                    setattr(c, rdc, lambda: None if depth[0] == 1 else getattr(cls, rdc)(c))
                c.announce_done()
            finally:
                setattr(c, N['done_event'], saved_event)
                for a_ in ('announce_done', rfc, rdc):
                    c.__dict__.pop(a_, None)
            return 'unit'
        if h in ('adc', 'afc'):
            kind = 'C' if h == 'adc' else 'K'
            reg = Reg(kind, int(p[1], 16), len(self.regs[kind]))
            self.regs[kind].append(reg)
            (c.add_done_callback if h == 'adc' else c.add_failure_cleanup)(self._run_cb, reg)
            return 'unit'
        if h == 'exc':
            return 'exc:' + self.canon(c.exception)
        raise ValueError('bad op ' + tok)

    def pending(self, lst):
        try:
            ids = [getattr(fc, names.function_container(type(fc))['args'])[0].id for fc in lst]
        except Exception:
            return '?'
        return '.'.join(hx(i) for i in ids) if ids else '-'

    def observe_result(self):
        c = self.c
        try:
            is_set = self.ev.is_set()
        except Exception:
            return '?'
        if not is_set:
            return 'blocked'
        try:
            v = c.result() if self.real_locks else self.f.result()
            return 'ret:' + ('none' if v is None else hx(v) if isinstance(v, int) else '?')
        except WouldBlock:
            return 'blocked'
        except Exception as e:
            if e is not c.exception:
                self.viol.append(('agreement', f'result() raised {e!r} which is not the stored exception {c.exception!r}'))
            return 'raise:' + self.canon(e)

    def step(self, tok):
        """Execute one op; returns the observation string in the model driver's format."""
        c = self.c
        pre_done, pre_status, pre_exc, pre_result = c.done(), c.status, c.exception, self.res
        self.replaced_ok = False
        self.cur_op = tok
        self.pre_status = pre_status
        self.in_cb = None
        n0 = len(self.log)
        hung_in = None
        try:
            out = self.do_op(tok)
        except SelfDeadlock:
            out = 'DEADLOCK'
            hung_in = self.in_cb
        except WouldBlock:
            out = 'CBBLOCKED'
            hung_in = self.in_cb
        except Exception as e:      # noqa: an exception the operation does not document is its outcome
            out = 'EXC:' + type(e).__name__
        post_done, post_status, post_exc = c.done(), c.status, c.exception
        res_obs = self.observe_result()
        obs = '%s/%s,%s,%s,%s,%s,%s,%s,%s,%s' % (
            out, STATUS.get(post_status, '?' + str(post_status)), self.canon(post_exc),
            'none' if self.res is None else hx(self.res) if isinstance(self.res, int) else '?',
            '1' if self.ev.is_set() else '0',
            self.pending(c.failure_cleanups), self.pending(getattr(c, self.N['done_callbacks'])),
            '.'.join(self.log[n0:]) if len(self.log) > n0 else '-',
            'T' if post_done else 'F', res_obs)
        # ------------------------------------------------ the oracle
        V = self.viol.append
        head = tok.split(':')[0]
        if pre_done and not post_done:
            V(('done-monotone', f'done() was True before {tok} and False after it (status {pre_status} -> {post_status})'))
        if head in ('q', 'r') and pre_done and (out != 'rterr' or post_status != pre_status):
            V(('no-restart', f'{tok} on a done transfer ({pre_status}) gave {out}, status now {post_status}'))
        if pre_done and not self.replaced_ok and (post_status != pre_status or post_exc is not pre_exc
                                                  or self.res is not pre_result):
            V(('done-state-frozen', f'{tok} changed a done transfer from ({pre_status}, {self.canon(pre_exc)}, {pre_result}) to '
               f'({post_status}, {self.canon(post_exc)}, {self.res})'))
        if pre_exc is not None and post_exc is not pre_exc and not self.replaced_ok:
            V(('first-failure-kept', f'{tok} replaced the stored exception {self.canon(pre_exc)} by {self.canon(post_exc)}'))
        if (post_exc is not None) != (post_status in ('failed', 'cancelled')):
            V(('agreement', f'after {tok}: status {post_status} but stored exception {post_exc!r}'))
        if res_obs.startswith('ret:') and post_exc is not None:
            V(('agreement', f'after {tok}: result() returned although an exception is stored'))
        if post_status == 'success' and res_obs not in ('blocked', 'ret:' + hx(self.last_result if self.last_result is not None else 0)):
            V(('agreement', f'after {tok}: status success but result() gives {res_obs}, last set_result was {self.last_result}'))
        for kind, name in (('C', 'done callback'), ('K', 'failure cleanup')):
            for reg in self.regs[kind]:
                if reg.runs > 1:
                    V(('callbacks-once', f'{name} {reg.id} (registration #{reg.index}) has run {reg.runs} times after {tok}'))
            ro = self.run_order[kind]
            if not self.sched_mode and any(a >= b for a, b in zip(ro, ro[1:])):
                V(('callbacks-once', f'{name}s ran out of registration order / repeatedly: {ro}'))
        if out == 'DEADLOCK' and not (head in ANNOUNCE_OPS and not pre_done):
            V(('self-deadlock', f'{tok} (status {pre_status}) needs a coordinator lock its own thread holds'
               + (f' -- inside a {"done callback" if hung_in == "C" else "failure cleanup"} script' if hung_in else '')))
        if out == 'CBBLOCKED' and hung_in == 'C' and head in ('ann', 'cancel'):
            V(('result-in-on-done', f'result() called by a done callback during {tok} would block: the event is not set before the callbacks run'))
        return out, obs


def model_tok(tok):
    """The model's op for an implementation op (only 'cancel:x:m' differs: see do_call)."""
    if tok.startswith(('se:b:', 'sx:b:')):
        return tok[:3] + 'o' + tok[4:]         # an exception whose str() raises is an ordinary failure
    return 'status' if tok.startswith('cancel:x:') else tok


def run_impl(env, ops, real_locks=False):
    """-> (observation line, violations, executed op tokens)"""
    im = Impl(env, real_locks)
    obs, done_ops = [], []
    for tok in ops:
        out, o = im.step(tok)
        obs.append(o)
        done_ops.append(tok)
        if out in HANGS:
            break
    return ' '.join(obs), im.viol, done_ops


def run_threads_impl(env, prefix, programs, order):
    """Merge of thread programs: order is a list of thread indices.  A thread
    whose cancel critical section answers 'no announce' skips its phases."""
    im = Impl(env)
    pcs = [0] * len(programs)
    skip = [False] * len(programs)
    obs, done_ops = [], []
    seq = [(None, t) for t in prefix] + [(i, None) for i in order]
    for th, tok in seq:
        if th is not None:
            prog = programs[th]
            tok = prog[pcs[th]]
            pcs[th] += 1
            if skip[th] and tok in ('ph1', 'ph2', 'ph3'):
                continue
        out, o = im.step(tok)
        obs.append(o)
        done_ops.append(tok)
        if th is not None and tok.startswith('ccs:') and out == 'F':
            skip[th] = True
        if out in HANGS:
            break
    return ' '.join(obs), im.viol, done_ops


# ---------------------------------------------------------------- guarded execution

def guarded(fn, items, stall_s=4.0):
    """Run fn(item) for every item in a helper thread; if the thread makes no
    progress for stall_s seconds the current item is recorded as hung (None)
    and the rest continues in a fresh thread."""
    results = [None] * len(items)
    state = {'i': 0, 'gen': 0, 'err': None}

    def worker(gen, start):
        i = start
        while i < len(items) and state['gen'] == gen:
            try:
                r = fn(items[i])
            except common.BuildBroken as b:
                state['err'] = b
                return
            except Exception as e:        # a harness bug must not look like a hang
                state['err'] = e
                return
            if state['gen'] != gen:
                return
            results[i] = r
            i += 1
            state['i'] = i

    hung = []
    while state['i'] < len(items) and state['err'] is None:
        state['gen'] += 1
        t = threading.Thread(target=worker, args=(state['gen'], state['i']), daemon=True)
        t.start()
        last, idle = state['i'], 0.0
        while t.is_alive():
            t.join(0.25)
            if state['i'] != last:
                last, idle = state['i'], 0.0
            else:
                idle += 0.25
                if idle >= stall_s and t.is_alive():
                    hung.append(state['i'])
                    state['gen'] += 1          # abandon the stuck thread
                    state['i'] += 1
                    break
    if state['err'] is not None:
        raise state['err']
    return results, hung


# ---------------------------------------------------------------- case streams

ALPHABET = ['sr:7', 'se:o:1:0', 'se:o:2:0', 'se:o:1:1', 'cancel:c:0', 'cancel:f:3', 'q', 'r',
            'ann', 'adc:1', 'adc:2', 'afc:1', 'sx:o:2', 'ph3']
CORE = ['sr:7', 'se:o:1:0', 'se:o:1:1', 'cancel:c:0', 'q', 'ann', 'adc:1', 'sx:o:2']
ENV_CORE = 'cb1=sx:o:2,cancel:c:0,result'
ENV_PLAIN = ''
ENV_SCRIPTS = 'cb1=sx:o:2,done cb2=cancel:c:0,result,status cl1=cancel:c:0,done'

RANDOM_OPS = ALPHABET + ['cancel:x:1', 'cancel:x:1', 'se:b:1:0', 'se:b:2:1', 'se:b:1:0', 'sr:8', 'se:f:2:1', 'se:c:1:0', 'ccs:c:0', 'ccs:f:1', 'cancel:o:2', 'ph1', 'ph2', 'ph3',
                         'adc:3', 'afc:2', 'afc:3', 'exc', 'done', 'status', 'result', 'sx:c:1', 'sx:o:1',
                         'ann', 'ann', 'q', 'r']
RANDOM_CALLS = ['done', 'status', 'result', 'sx:o:1', 'sx:o:2', 'sx:f:1', 'cancel:c:0', 'cancel:c:0', 'cancel:f:2']


def random_env(rng):
    toks = []
    for name in ('cb1', 'cb2', 'cb3', 'cl1', 'cl2', 'cl3'):
        if rng.random() < 0.5:
            n = rng.choice([1, 1, 2, 3])
            calls = [rng.choice(RANDOM_CALLS) for _ in range(n)]
            if name.startswith('cl') and rng.random() < 0.6:
                calls = [c for c in calls if c != 'result']   # mostly keep cleanups from waiting on the result
            toks.append(name + '=' + ','.join(calls))
    return ' '.join(toks)


def random_case(rng):
    env = random_env(rng)
    n = rng.choice([3, 6, 10, 16, 25, 40])
    mode = rng.random()
    ops = []
    for _ in range(n):
        if mode < 0.4:
            # library-like: announces mostly after a completion
            tok = rng.choice(RANDOM_OPS)
            if tok in ('ann', 'ph1', 'ph3') and rng.random() < 0.8 and not any(
                    o.split(':')[0] in ('sr', 'se', 'cancel', 'ccs') for o in ops):
                tok = rng.choice(['se:o:1:0', 'sr:7', 'cancel:c:0'])
        else:
            tok = rng.choice(RANDOM_OPS)
        ops.append(tok)
    return (env, ops)


THREAD_SETUPS = [
    # (env, prefix, programs)
    (ENV_PLAIN, ['adc:1', 'afc:1', 'q', 'r'], [['sr:7', 'ph1', 'ph2', 'ph3'], ['se:o:1:0', 'ph1', 'ph2', 'ph3']]),
    (ENV_PLAIN, ['adc:1', 'afc:1'], [['ccs:c:0', 'ph1', 'ph2', 'ph3'], ['q', 'r', 'sr:7', 'ph1', 'ph2', 'ph3']]),
    (ENV_SCRIPTS, ['adc:1', 'adc:2', 'afc:1'], [['ccs:c:0', 'ph1', 'ph2', 'ph3'], ['q', 'r'], ['se:o:1:0', 'ph1', 'ph2', 'ph3']]),
    (ENV_SCRIPTS, ['adc:2', 'q', 'r'], [['se:o:1:0', 'ph1', 'ph2', 'ph3'], ['cancel:c:0'], ['adc:1', 'sx:o:2']]),
    (ENV_PLAIN, ['adc:1', 'q', 'r', 'se:o:1:0'], [['ph1', 'ph2', 'ph3'], ['ph1', 'ph2', 'ph3'], ['adc:2', 'sr:7']]),
    (ENV_SCRIPTS, ['afc:1', 'q'], [['sr:7', 'ph1', 'ph2', 'ph3'], ['ccs:f:3', 'ph1', 'ph2', 'ph3'], ['sx:o:2']]),
]


def merges(lengths):
    """all interleavings of threads with the given program lengths, as lists of thread indices"""
    total = sum(lengths)
    out = []

    def rec(rem, acc):
        if len(acc) == total:
            out.append(list(acc))
            return
        for i, r in enumerate(rem):
            if r:
                rem[i] -= 1
                acc.append(i)
                rec(rem, acc)
                acc.pop()
                rem[i] += 1
    rec(list(lengths), [])
    return out


# ---------------------------------------------------------------- real concurrency

class YLock:
    """The scheduler shim's Lock plus a yield point right AFTER every release,
    so that a write slipped out of the critical section is one step away from
    the other threads."""

    def __init__(self, inner, sched):
        self._l, self._s = inner, sched

    def acquire(self, *a, **k):
        return self._l.acquire(*a, **k)

    def release(self):
        self._l.release()
        self._s.yield_point('lock.release')

    def locked(self):
        return self._l.locked()

    def __enter__(self):
        self._l.acquire()
        return self

    def __exit__(self, *a):
        self.release()


class SchedNamespace:
    """what s3transfer.futures sees as `threading` while a coordinator is built"""

    def __init__(self, shim, sched):
        self._shim = shim
        self.sched = sched
        self.Lock = lambda: YLock(shim.Lock(), sched)

    def __getattr__(self, name):
        return getattr(self._shim, name)


class DfsChooser:
    """replays a prefix of choices, then always the first runnable thread;
    records how many threads were runnable at each step"""

    def __init__(self, prefix):
        self.prefix, self.widths, self.i = list(prefix), [], 0

    def choose(self, sched, runnable):
        self.widths.append(len(runnable))
        c = self.prefix[self.i] if self.i < len(self.prefix) else 0
        self.i += 1
        return min(c, len(runnable) - 1)


class DevChooser:
    """Default policy: keep running the thread that ran last while it can run,
    otherwise the first runnable one (no preemption).  `deviations` maps a step
    number to the name of the thread to run instead.  Records, per step, who
    was runnable and who ran, so that the caller can enumerate all schedules
    with at most K deviations (preemption-bounded search)."""

    def __init__(self, deviations):
        self.dev = dict(deviations)
        self.trace = []           # (runnable names, chosen name)
        self.widths = []
        self.last = None

    def choose(self, sched, runnable):
        names = [t.name for t in runnable]
        k = len(self.trace)
        pick = names.index(self.last) if self.last in names else 0
        want = self.dev.get(k)
        if want is not None and want in names:
            pick = names.index(want)
        self.last = names[pick]
        self.trace.append((names, names[pick]))
        self.widths.append(len(names))
        return pick


REPLACER_HEADS = ('sr', 'sx')


def is_replacer(tok):
    return tok is not None and (tok.split(':')[0] in REPLACER_HEADS or (tok.startswith('se:') and tok.endswith(':1')))


def run_concurrent(env, prefix, programs, chooser):
    """One real coordinator/future, the prefix run sequentially, then one managed
    thread per program under the cooperative scheduler.  Returns a dict:
    results (per thread, per op), final (observation after everything),
    log, viol [(clause, text)], choices, deadlock."""
    from harness.sched import core
    sched = core.Sched(chooser=chooser, max_steps=5000)
    ns = SchedNamespace(core.Shim(sched), sched)
    im = Impl(env, sched_ns=ns)
    c = im.c
    for tok in prefix:
        im.do_op(tok)
    results = [[] for _ in programs]
    current = [None] * len(programs)
    viol = []
    seen = {'done': c.done(), 'core': (c.status, c.exception, im.res)}

    def check(s=None):
        st, ex, rs = c.status, c.exception, im.res
        now_done = st in ('failed', 'cancelled', 'success')
        running = [tk for tk in current if tk is not None]
        if (ex is not None) != (st in ('failed', 'cancelled')):
            viol.append(('agreement', f'between critical sections: status {st} with stored exception {ex!r} (ops in flight: {running})'))
        if seen['done'] and not now_done:
            viol.append(('done-monotone', f'done() went back to False: status {seen["core"][0]} -> {st} (ops in flight: {running})'))
        if seen['done'] and (st, ex, rs) != seen['core'] and \
                not (st == seen['core'][0] and ex is seen['core'][1] and rs is seen['core'][2]) and \
                not any(is_replacer(tk) for tk in running) and not im.sx_inflight:
            viol.append(('done-state-frozen',
                         f'a done transfer changed from ({seen["core"][0]}, {im.canon(seen["core"][1])}, {seen["core"][2]}) to '
                         f'({st}, {im.canon(ex)}, {rs}) while only {running} were in flight'))
        seen['done'] = seen['done'] or now_done
        seen['core'] = (st, ex, rs)
    sched.on_step = check

    def body(ti):
        def run():
            for tok in programs[ti]:
                sched.yield_point('op')
                current[ti] = tok
                try:
                    out = im.do_op(tok)
                except core.Killed:
                    raise
                except Exception as e:
                    out = 'EXC:' + type(e).__name__
                results[ti].append(out)
                current[ti] = None
        return run
    for ti in range(len(programs)):
        sched.spawn(body(ti), f't{ti}')
    deadlock = None
    try:
        sched.run()
    except core.Deadlock as d:
        deadlock = 'deadlock: ' + str(d)
    except core.Livelock as d:
        deadlock = 'livelock: ' + str(d)
    for th in sched.threads:
        if th.exc is not None:
            viol.append(('thread-exception', f'{th.name}: {th.exc!r}'))
    final = None
    if deadlock is None:
        for reg in im.regs['C'] + im.regs['K']:
            if reg.runs > 1:
                viol.append(('callbacks-once', f'{"done callback" if reg.kind == "C" else "failure cleanup"} {reg.id} ran {reg.runs} times'))
        n0 = len(im.viol)
        _, final = im.step('done')         # sequential observation + the oracle on the final state
        viol += im.viol[n0:]
    # dedupe keeping order
    vv = []
    for v in viol + [x for x in im.viol if x not in viol]:
        if v[0] not in [a for a, _ in vv]:
            vv.append(v)
    return {'results': [list(r) for r in results], 'final': final, 'log': list(im.log), 'viol': vv,
            'choices': list(sched.choices), 'deadlock': deadlock,
            'widths': list(getattr(chooser, 'widths', []))}


def expand(tok, variant):
    """model steps of one thread op; variant chooses whether a cancel announces"""
    if tok == 'ann':
        return ['ph1', 'ph2', 'ph3']
    if tok.startswith('cancel:'):
        ccs = 'ccs:' + tok.split(':', 1)[1]
        return [ccs, 'ph1', 'ph2', 'ph3'] if variant else [ccs]
    return [tok]


def multinomial(ls):
    n, r = 0, 1
    for l in ls:
        for k in range(1, l + 1):
            n += 1
            r = r * n // k
    return r


def model_outcomes(env, prefix, programs, limit=60000):
    """Every outcome the extracted model allows for the programs run by
    concurrent threads: all merges (program order kept; announce_done as three
    separately interleavable phases; cancel as its critical section followed,
    when it says so, by the phases).  -> set of signatures, or None if too many."""
    cancel_pos = [(ti, oi) for ti, prog in enumerate(programs) for oi, tok in enumerate(prog) if tok.startswith('cancel:')]
    lines, metas = [], []
    total = 0
    for variant_bits in itertools.product((False, True), repeat=len(cancel_pos)):
        var = dict(zip(cancel_pos, variant_bits))
        steps = []      # per thread: [(op index, token, pos in op, len of op)]
        for ti, prog in enumerate(programs):
            st = []
            for oi, tok in enumerate(prog):
                ex = expand(tok, var.get((ti, oi), False))
                st += [(oi, mt, k, len(ex)) for k, mt in enumerate(ex)]
            steps.append(st)
        total += multinomial([len(s) for s in steps])
        if total > limit:
            return None
        for order in merges([len(s) for s in steps]):
            pcs = [0] * len(steps)
            seq, meta = [], []
            for ti in order:
                oi, mt, k, n = steps[ti][pcs[ti]]
                pcs[ti] += 1
                seq.append(mt)
                meta.append((ti, oi, k, n))
            lines.append(f'R | {env} | {" ".join(list(prefix) + seq + ["done"])}')
            metas.append((meta, var))
    outs = common.run_model('coord', lines)
    sigs = set()
    for (meta, var), out in zip(metas, outs):
        entries = out.split(' ')
        if len(entries) != len(prefix) + len(meta) + 1:
            continue                        # a thread hangs in this merge
        ok = True
        res = [[None] * len(p) for p in programs]
        log = []
        for e in entries:
            f = e.split('/', 1)[1].split(',')
            if f[6] != '-':
                log += f[6].split('.')
        for (ti, oi, k, n), e in zip(meta, entries[len(prefix):]):
            o = e.split('/')[0]
            tok = programs[ti][oi]
            if tok.startswith('cancel:'):
                if k == 0:
                    if (o == 'T') != var[(ti, oi)]:
                        ok = False
                        break
                elif o != 'unit':
                    ok = False
                    break
                res[ti][oi] = 'unit'
            elif tok == 'ann':
                if o != 'unit':
                    ok = False
                    break
                res[ti][oi] = 'unit'
            else:
                if tok == 'result' and o == 'blocked':
                    ok = False      # result() returns only after the event is set
                    break
                res[ti][oi] = o
        if ok:
            fin = entries[-1].split('/', 1)[1].split(',')
            sigs.add((tuple(tuple(r) for r in res), tuple(fin[:6] + fin[7:]), tuple(log)))
    return sigs


def real_signature(r):
    fin = r['final'].split('/', 1)[1].split(',')
    return (tuple(tuple(x) for x in r['results']), tuple(fin[:6] + fin[7:]), tuple(r['log']))


CONC_SETUPS = [
    # (env, sequential prefix, thread programs)
    (ENV_PLAIN, ['q', 'r'], [['cancel:c:0'], ['se:o:1:0']]),
    (ENV_PLAIN, ['q', 'r'], [['cancel:c:0'], ['se:o:1:0'], ['status']]),
    (ENV_PLAIN, ['q', 'r'], [['sr:7'], ['cancel:c:0']]),
    (ENV_PLAIN, ['q', 'r'], [['sr:7'], ['se:o:1:0'], ['exc']]),
    (ENV_PLAIN, ['adc:1', 'afc:1'], [['cancel:c:0'], ['q', 'r']]),
    (ENV_PLAIN, ['adc:1', 'afc:1'], [['cancel:c:0'], ['cancel:f:3'], ['q']]),
    (ENV_PLAIN, ['adc:1', 'afc:1', 'q', 'r'], [['se:o:1:0', 'ann'], ['cancel:f:3'], ['done', 'result']]),
    (ENV_PLAIN, ['adc:1', 'q', 'r'], [['sr:7', 'ann'], ['se:o:2:0', 'ann']]),
    (ENV_PLAIN, ['adc:1', 'q', 'r', 'se:o:1:0'], [['ann'], ['ann'], ['adc:2']]),
    ('cb1=sx:o:2,done', ['adc:1', 'q', 'r'], [['sr:7', 'ann'], ['cancel:c:0'], ['se:o:1:0']]),
    (ENV_PLAIN, ['q', 'r', 'sr:7'], [['sx:o:2'], ['se:o:1:0'], ['q']]),
    (ENV_PLAIN, ['q'], [['r', 'sr:7'], ['cancel:c:0'], ['se:o:1:1']]),
    # readers racing the legitimate replacers on a FINISHED transfer: done() must stay True
    (ENV_PLAIN, ['q', 'r', 'sr:7', 'ann'], [['done'], ['sx:o:2']]),
    (ENV_PLAIN, ['q', 'r', 'sr:7', 'ann'], [['done', 'done'], ['sx:o:2'], ['status']]),
    (ENV_PLAIN, ['q', 'r', 'se:o:1:0', 'ann'], [['done'], ['sr:7']]),
    (ENV_PLAIN, ['q', 'r', 'se:o:1:0', 'ann'], [['done', 'status'], ['se:o:2:1']]),
]

CONC_OPS = ['sr:7', 'se:o:1:0', 'se:o:2:0', 'se:o:1:1', 'cancel:c:0', 'cancel:f:3', 'q', 'r', 'ann',
            'done', 'status', 'exc', 'sx:o:2', 'adc:2']


def random_setup(rng):
    while True:
        prefix = rng.choice([[], ['q'], ['q', 'r'], ['adc:1', 'afc:1'], ['adc:1', 'afc:1', 'q', 'r']])
        nthreads = rng.choice([2, 2, 3])
        programs = [[rng.choice(CONC_OPS) for _ in range(rng.choice([1, 1, 2, 3]))] for _ in range(nthreads)]
        worst = multinomial([sum(len(expand(tk, True)) for tk in p) for p in programs])
        if worst <= 4000:
            return (rng.choice([ENV_PLAIN, ENV_PLAIN, 'cb1=sx:o:2,done']), prefix, programs)


def concurrent_stream(ctx, rep, thorough):
    """2-3 real threads on one coordinator under the cooperative scheduler;
    schedules enumerated exhaustively where the tree is small, random / PCT
    beyond; every run: C17 oracle at every scheduling point + linearizability
    against the extracted model."""
    from harness.sched import core
    rng = ctx.rng('conc')
    setups = list(CONC_SETUPS) + [random_setup(rng) for _ in range(60 if thorough else 14)]
    small_tree = 2000 if thorough else 260       # enumerate every schedule below this many
    max_dev = 3 if thorough else 2
    dev_cap = 6000 if thorough else 450
    rand_runs = 300 if thorough else 40
    bounded_sets = 0
    reported = set()
    exhaustive_sets = 0
    sigs_seen = 0
    for si, (env, prefix, programs) in enumerate(setups):
        sigs = model_outcomes(env, prefix, programs)
        if sigs is None:
            continue
        real_sigs = set()

        def one(chooser, tag):
            r = run_concurrent(env, prefix, programs, chooser)
            case = {'env': env, 'prefix': prefix, 'programs': programs, 'choices': r['choices']}
            ctx.count('coord-concurrent', 1, nontrivial_key=(env, tuple(prefix), tuple(map(tuple, programs)), tuple(r['choices'])),
                      explore=tag, threads=len(programs))
            problems = list(r['viol'])
            if r['deadlock']:
                problems.append(('hang', r['deadlock']))
            elif real_signature(r) not in sigs:
                problems.append(('not-linearizable',
                                 f'per-thread results {r["results"]}, final state {r["final"]}, callback log {r["log"]} '
                                 f'is the outcome of NO merge of the threads\' ops in the model ({len(sigs)} outcomes allowed)'))
            else:
                real_sigs.add(real_signature(r))
            for clause, text in problems:
                if clause in reported:
                    continue
                reported.add(clause)
                ctx.report(f'sched:{clause}:{env}|{prefix}|{programs}',
                           f'C17 {clause} under a real interleaving: {text}; callbacks "{env}", prefix {prefix}, '
                           f'thread programs {programs}, schedule (choice list) {r["choices"]}',
                           {'kind': 'schedule', 'component': 'coord', 'clause': clause, 'case': case})
            return r
        # how big is the schedule tree?  (steps per thread in the default run)
        probe = DevChooser({})
        one(probe, 'default')
        per_thread = {}
        for names, who in probe.trace:
            per_thread[who] = per_thread.get(who, 0) + 1
        n, complete = 1, False
        if multinomial(list(per_thread.values())) <= small_tree:
            # every schedule
            prefix_choices = []
            while True:
                ch = DfsChooser(prefix_choices)
                r = one(ch, 'all-schedules')
                n += 1
                choices, widths = r['choices'], ch.widths
                k = len(choices) - 1
                while k >= 0 and choices[k] + 1 >= widths[k]:
                    k -= 1
                if k < 0:
                    complete = True
                    break
                prefix_choices = choices[:k] + [choices[k] + 1]
        else:
            # every schedule with at most max_dev deviations from run-to-block
            queue = [([], probe.trace)]
            while queue and n < dev_cap:
                devs, trace = queue.pop(0)
                start = devs[-1][0] + 1 if devs else 0
                for s in range(start, len(trace)):
                    names, chosen = trace[s]
                    for alt in names:
                        if alt == chosen or n >= dev_cap:
                            continue
                        d2 = devs + [(s, alt)]
                        ch = DevChooser(d2)
                        one(ch, f'deviations<={max_dev}')
                        n += 1
                        if len(d2) < max_dev:
                            queue.append((d2, ch.trace))
            bounded_complete = not queue and n < dev_cap
            if bounded_complete:
                bounded_sets += 1
            for j in range(rand_runs):
                seed = f'{ctx.seed}:{si}:{j}'
                ch = core.RandomChooser(seed) if j % 2 == 0 else core.PCTChooser(seed, depth=3, horizon=40)
                one(ch, 'random' if j % 2 == 0 else 'pct')
        if complete:
            exhaustive_sets += 1
        sigs_seen += len(real_sigs)
        if si < 2:
            ctx.sample({'component': 'coord-concurrent', 'env': env, 'prefix': prefix, 'programs': programs,
                        'schedules_enumerated': n, 'schedule_tree_exhausted': complete,
                        'model_outcomes_allowed': len(sigs), 'distinct_real_outcomes': len(real_sigs)})
    comp = ctx.cov['components'].setdefault('coord-concurrent', {'cases': 0, 'hist': {}})
    comp['program_sets'] = len(setups)
    comp['program_sets_with_exhausted_schedule_tree'] = exhaustive_sets
    comp['program_sets_with_all_schedules_up_to_max_deviations'] = bounded_sets
    comp['max_deviations'] = max_dev
    comp['distinct_real_outcomes'] = sigs_seen


def replay_schedule(case):
    from harness.sched import core
    r = run_concurrent(case['env'], case['prefix'], case['programs'], core.ReplayChooser(case['choices']))
    problems = list(r['viol'])
    if r['deadlock']:
        problems.append(('hang', r['deadlock']))
    else:
        sigs = model_outcomes(case['env'], case['prefix'], case['programs'])
        if sigs is not None and real_signature(r) not in sigs:
            problems.append(('not-linearizable', f'{r["results"]} / {r["final"]}'))
    return r, problems


# ---------------------------------------------------------------- static check

def _static_names():
    from s3transfer.futures import TransferCoordinator
    N = names.coordinator(TransferCoordinator)
    A = names.ClassAst(TransferCoordinator)
    trans = set(A.self_calls('set_status_to_queued')) & set(A.self_calls('set_status_to_running'))
    state_attrs = (N['status'], N['exception'], N['result'])
    reads = ('done', 'status', 'exception') + state_attrs
    guarded = ('cancel', 'set_exception', 'set_result') + tuple(sorted(trans) or ['_transition_to_non_done_state'])
    return N['state_lock'], state_attrs, reads, guarded


def static_atomicity():
    """Every assignment to _status/_exception/_result of TransferCoordinator
    outside __init__ is inside `with self._lock:`, announce_done is never
    called inside it, and in cancel / set_exception / set_result /
    _transition_to_non_done_state no read of done()/status/exception happens
    outside the lock (a decision taken there would be stale by the time the
    write happens).  Returns a list of problems (fail closed)."""
    path = os.path.join(common.REPO, 's3transfer', 'futures.py')
    try:
        tree = ast.parse(open(path).read())
    except Exception as e:
        return [f'cannot parse {path}: {e}']
    cls = [n for n in tree.body if isinstance(n, ast.ClassDef) and n.name == 'TransferCoordinator']
    if len(cls) != 1:
        return ['class TransferCoordinator not found in futures.py']
    problems = []
    found_writes = 0
    call_sites = {}
    LOCK, STATE_ATTRS, STATE_READS, GUARDED_METHODS = _static_names()

    def is_self_lock(e):
        return isinstance(e, ast.Attribute) and e.attr == LOCK and isinstance(e.value, ast.Name) and e.value.id == 'self'

    def is_state_lock(w):
        return any(is_self_lock(item.context_expr) for item in w.items)

    def is_acquire(st):
        return isinstance(st, ast.Expr) and isinstance(st.value, ast.Call) and isinstance(st.value.func, ast.Attribute) \
            and st.value.func.attr == 'acquire' and is_self_lock(st.value.func.value)

    def visit_body(body, locked, fname):
        # `self.<lock>.acquire()` followed by try/finally is the same critical section as `with`
        prev_acquire = False
        for st in body:
            if prev_acquire and isinstance(st, ast.Try):
                for ch in st.body + st.orelse + [h for hd in st.handlers for h in hd.body]:
                    visit(ch, True, fname)
                for ch in st.finalbody:
                    visit(ch, locked, fname)
            else:
                visit(st, locked, fname)
            prev_acquire = is_acquire(st)

    def visit(node, locked, fname):
        nonlocal found_writes, call_sites
        if isinstance(node, ast.With):
            inner = locked or is_state_lock(node)
            visit_body(node.body, inner, fname)
            return
        if isinstance(node, (ast.If, ast.For, ast.While, ast.Try)) and not isinstance(node, ast.With):
            for fld in ('test', 'iter', 'target'):
                sub = getattr(node, fld, None)
                if sub is not None:
                    visit(sub, locked, fname)
            for fld in ('body', 'orelse', 'finalbody'):
                visit_body(getattr(node, fld, []) or [], locked, fname)
            for hd in getattr(node, 'handlers', []) or []:
                visit_body(hd.body, locked, fname)
            return
        if isinstance(node, (ast.Assign, ast.AugAssign, ast.AnnAssign)):
            targets = node.targets if isinstance(node, ast.Assign) else [node.target]
            for t in targets:
                for sub in ast.walk(t):
                    if isinstance(sub, ast.Attribute) and sub.attr in STATE_ATTRS:
                        found_writes += 1
                        if not locked:
                            problems.append(f'{fname}: write to self.{sub.attr} at line {node.lineno} is not inside `with self.{LOCK}`')
        if fname in GUARDED_METHODS and not locked and isinstance(node, ast.Attribute) and \
                isinstance(node.ctx, ast.Load) and node.attr in STATE_READS and \
                isinstance(node.value, ast.Name) and node.value.id == 'self':
            problems.append(f'{fname}: self.{node.attr} is read at line {node.lineno} outside `with self.{LOCK}` '
                            '(check-then-act: the decision can be stale when the write happens)')
        if isinstance(node, ast.Call) and isinstance(node.func, ast.Attribute) and isinstance(node.func.value, ast.Name) \
                and node.func.value.id == 'self':
            call_sites.setdefault(node.func.attr, []).append(locked)
        if isinstance(node, ast.Call) and isinstance(node.func, ast.Attribute) and node.func.attr == 'announce_done' and locked:
            problems.append(f'{fname}: announce_done() called at line {node.lineno} while holding self.{LOCK}')
        for ch in ast.iter_child_nodes(node):
            visit(ch, locked, fname)

    # A private helper that is called only with the state lock held ("_xyz_locked") is part of
    # its callers' critical sections: iterate until the set of such helpers is stable.
    methods = {fn.name: fn for fn in cls[0].body if isinstance(fn, ast.FunctionDef)}
    held = set()
    for _ in range(6):
        problems, found_writes, call_sites = [], 0, {}
        for name, fn in methods.items():
            if name != '__init__':
                visit_body(fn.body, name in held, name)
        new = {m for m, sites in call_sites.items()
               if m in methods and m.startswith('_') and not m.startswith('__') and sites and all(sites)}
        if new == held:
            break
        held = new
    if found_writes < 6:
        problems.append(f'only {found_writes} state writes recognised in TransferCoordinator (expected the 8 of set_result/set_exception/cancel/_transition): the static check no longer understands the class')
    return problems


# ---------------------------------------------------------------- reporting

def shrink(env, ops, clause):
    """greedy removal of ops while the same oracle clause still fails"""
    def fails(o):
        try:
            _, viol, _ = run_impl(env, o)
        except Exception:
            return False
        return any(c == clause for c, _ in viol)
    cur = list(ops)
    changed = True
    while changed and len(cur) > 1:
        changed = False
        for i in range(len(cur)):
            cand = cur[:i] + cur[i + 1:]
            if fails(cand):
                cur, changed = cand, True
                break
    # drop unused env entries
    env_toks = env.split()
    for tok in list(env_toks):
        rest = [t for t in env_toks if t != tok]
        try:
            _, viol, _ = run_impl(' '.join(rest), cur)
        except Exception:
            continue
        if any(c == clause for c, _ in viol):
            env_toks = rest
    return ' '.join(env_toks), cur


class Reporter:
    def __init__(self, ctx):
        self.ctx = ctx
        self.clauses = {}

    def oracle(self, env, ops, viol):
        for clause, text in viol:
            if clause in self.clauses:
                continue
            senv, sops = shrink(env, ops, clause)
            _, v2, _ = run_impl(senv, sops)
            text2 = next((t for c, t in v2 if c == clause), text)
            self.clauses[clause] = (senv, sops)
            self.ctx.report(f'oracle:{clause}:{senv}|{" ".join(sops)}',
                            f'C17 {clause}: {text2}; callbacks "{senv}", op sequence: {" ".join(sops)}',
                            {'kind': 'history', 'component': 'coord', 'clause': clause,
                             'case': {'env': senv, 'ops': sops}})


def hang_real(env, ops, timeout=0.6):
    """run with the genuine locks and event in a helper thread; True iff it does not finish"""
    def body():
        try:
            im = Impl(env, real_locks=True)
            for tok in ops:
                im.do_op(tok)
        except BaseException:
            pass
    t = threading.Thread(target=body, daemon=True)
    t.start()
    t.join(timeout)
    return t.is_alive()


# ---------------------------------------------------------------- the check

def nontrivial(obs_line):
    """A history exercises a clause of C17 when some op is executed in a done
    state (monotonicity / first-failure / no-restart / replacement are then
    really tested) or some callback / cleanup runs."""
    entries = obs_line.split(' ') if obs_line else []
    for k, e in enumerate(entries):
        f = e.split(',')
        if len(f) < 9:
            return True
        if f[6] != '-' or (f[7] == 'T' and k < len(entries) - 1):
            return True
    return False


def differential_stream(ctx, rep, name, cases, mism_out, keep_every=0, chunk=40000):
    """cases: iterable of (env, ops).  Runs impl (guarded) and model chunk by
    chunk; counts; collects mismatches.  Returns every keep_every-th (case,
    model output) for the genuine-lock confirmation."""
    def one(case):
        return run_impl(case[0], case[1])
    it = iter(cases)
    kept_pairs = []
    seen = 0
    first = True
    while True:
        block = list(itertools.islice(it, chunk))
        if not block:
            break
        results, hung = guarded(one, block)
        lines, impl_obs, kept = [], [], []
        for case, r in zip(block, results):
            env, ops = case
            if r is None:
                # the helper thread never came back: a hang the instrumented locks did not explain
                ctx.report(f'oracle:hang:{env}|{" ".join(ops)}',
                           f'C17/C04: the op sequence never returned (thread stuck > 4 s): callbacks "{env}", ops {" ".join(ops)}',
                           {'kind': 'history', 'component': 'coord', 'clause': 'hang', 'case': {'env': env, 'ops': ops}})
                continue
            obs, viol, done_ops = r
            if viol:
                rep.oracle(env, ops, viol)
            lines.append(f'R | {env} | {" ".join(model_tok(t) for t in ops)}')
            impl_obs.append(obs)
            kept.append(case)
        model = common.run_model('coord', lines) if lines else []
        for case, l, i, m in zip(kept, lines, impl_obs, model):
            entries = i.split(' ') if i else []
            hangs = any(e.split('/')[0] in HANGS for e in entries)
            last = entries[-1].split('/') if entries else []
            ctx.count('coord-' + name, 1, nontrivial_key=(l if nontrivial(i) else None),
                      stream=name, hang='yes' if hangs else 'no',
                      final=(last[1].split(',')[0] if len(last) > 1 else 'empty'))
            if i != m:
                mism_out.append((case, i, m))
            if keep_every and seen % keep_every == 0:
                kept_pairs.append((case, m))
            seen += 1
        if first and lines:
            k = len(lines) // 3
            ctx.sample({'component': 'coord-' + name, 'model_cmd': lines[k], 'impl_and_model_output': impl_obs[k]})
            first = False
    return kept_pairs


def thread_stream(ctx, rep, mism_out, thorough):
    cases = []
    for (env, prefix, programs) in THREAD_SETUPS:
        orders = merges([len(p) for p in programs])
        if not thorough and len(orders) > 1300:
            rng = ctx.rng('merge', env, len(orders))
            orders = rng.sample(orders, 1300)
        for order in orders:
            cases.append((env, prefix, programs, order))

    def one(case):
        return run_threads_impl(*case)
    results, hung = guarded(one, cases)
    lines, impl_obs, kept = [], [], []
    for case, r in zip(cases, results):
        if r is None:
            ctx.report(f'oracle:hang:threads:{case[0]}|{case[1]}|{case[2]}|{case[3]}',
                       f'an interleaving of thread programs {case[2]} never returned',
                       {'kind': 'schedule', 'component': 'coord', 'clause': 'hang',
                        'case': {'env': case[0], 'prefix': case[1], 'programs': case[2], 'order': case[3]}})
            continue
        obs, viol, done_ops = r
        if viol:
            rep.oracle(case[0], done_ops, viol)
        lines.append(f'R | {case[0]} | {" ".join(model_tok(t) for t in done_ops)}')
        impl_obs.append(obs)
        kept.append((case[0], done_ops))
    model = common.run_model('coord', lines) if lines else []
    for case, l, i, m in zip(kept, lines, impl_obs, model):
        ctx.count('coord-interleavings', 1, nontrivial_key=(l if nontrivial(i) else None), stream='interleavings')
        if i != m:
            mism_out.append((case, i, m))
    if lines:
        ctx.sample({'component': 'coord-interleavings', 'model_cmd': lines[len(lines) // 2],
                    'impl_and_model_output': impl_obs[len(lines) // 2]})


def corpus_cases():
    out = []
    for path in sorted(glob.glob(os.path.join(common.VERIF, 'corpus', 'coord', '*.json'))):
        d = json.load(open(path))
        out.append((d.get('env', ''), d['ops']))
    return out


def real_lock_confirmation(ctx, rep, cases_with_model):
    """The instrumented locks turn a self-deadlock into an outcome; confirm with
    the genuine threading.Lock / Event that predicted hangs hang and the rest return."""
    hang_cases = [(c, m) for c, m in cases_with_model if any(o.split('/')[0] in HANGS for o in m.split(' ') if o)]
    ok_cases = [(c, m) for c, m in cases_with_model if c[1] and not any(o.split('/')[0] in HANGS for o in m.split(' ') if o)]
    rng = ctx.rng('real-locks')
    for (env, ops), m in (rng.sample(hang_cases, min(5, len(hang_cases))) if hang_cases else []):
        n = len(m.split(' '))
        alive = hang_real(env, ops[:n], 0.5)
        ctx.count('coord-real-locks', 1, nontrivial_key=('hang', env, tuple(ops[:n])), predicted='hang')
        if not alive:
            ctx.report('corr:coord:predicted-hang-returns',
                       f'model and instrumented run predict a hang for callbacks "{env}", ops {" ".join(ops[:n])}, but with the genuine locks the thread returns',
                       {'kind': 'correspondence', 'theorem_or_correspondence': 'instrumented locks vs threading.Lock',
                        'case': {'env': env, 'ops': ops[:n]}}, no_input=True)
    sample = rng.sample(ok_cases, min(120, len(ok_cases))) if ok_cases else []

    def one(case):
        (env, ops), m = case
        im = Impl(env, real_locks=True)
        for tok in ops:
            im.do_op(tok)
        return (STATUS.get(im.c.status), im.canon(im.c.exception), list(im.log))
    results, hung = guarded(one, sample, stall_s=3.0)
    for ((env, ops), m), r in zip(sample, results):
        ctx.count('coord-real-locks', 1, nontrivial_key=('ok', env, tuple(ops)), predicted='returns')
        last = m.split(' ')[-1]
        want = last.split('/')[1].split(',')[:2]
        if r is None:
            rep.ctx.report(f'oracle:hang:{env}|{" ".join(ops)}',
                           f'C17/C04: with the genuine locks the op sequence never returns: callbacks "{env}", ops {" ".join(ops)}',
                           {'kind': 'history', 'component': 'coord', 'clause': 'hang-real', 'case': {'env': env, 'ops': ops}})
        elif [r[0], r[1]] != want and run_impl(env, ops)[1]:
            rep.oracle(env, ops, run_impl(env, ops)[1])
        elif [r[0], r[1]] != want:
            ctx.report('corr:coord:real-locks-differ',
                       f'run with genuine locks ends in {r[:2]} but the model in {want} for "{env}" / {" ".join(ops)}',
                       {'kind': 'correspondence', 'theorem_or_correspondence': 'instrumented locks vs threading.Lock',
                        'case': {'env': env, 'ops': ops}}, no_input=True)


def run(ctx):
    ok = common.proofs(ctx, ['C17', 'C17Sys'], EXTRACT, COMPONENTS)
    thorough = ctx.thorough()
    ctx.assumptions = [
        'exceptions given to set_exception are ordinary (truthy) exception instances; result values are not compared for truthiness',
        'the body of each of set_result / set_exception / cancel (first half) / _transition_to_non_done_state is one critical section under self._lock (state writes AND the reads that guard them inside it, announce_done not called inside it): checked statically on futures.py (ast) and dynamically by the scheduler-driven linearizability runs at lock-acquire/release granularity, not proved',
        'attribute reads (status, exception, done()) are atomic; callbacks run synchronously in the announcing thread',
        'failure cleanups and done callbacks only act on the coordinator through the TransferFuture API (done, status/meta, result, set_exception, cancel); a callback that lets an exception escape is a shorter script',
        'the coordinator is driven with instrumented lock/event objects (self-acquire -> outcome instead of a hang); a sample is re-run with the genuine threading primitives in a helper thread with a join timeout',
        'the extracted OCaml model and its line driver are trusted for the correspondence only',
    ]
    L = 5 if thorough else 4
    ctx.cov['rule'] = (
        f'cases: (a) corpus/coord; (b) EVERY sequence of length {L} over the 14-op alphabet {ALPHABET} (all shorter ones are its prefixes: '
        'the state is observed after every op), once with id-only callbacks and once with callback scripts '
        f'"{ENV_SCRIPTS}", plus every sequence of length {L + 1} over the 8-op core {CORE} with callbacks "{ENV_CORE}"; '
        '(c) random sequences of length 3..40 over a 36-op alphabet (cancel critical section and the three announce phases as separate ops) '
        'with random callback scripts; (d) every merge (or a seeded sample of 1300 per setup in quick) of 2-3 thread programs; '
        '(e) sample re-run with genuine locks; (f) REAL threads: 2-3 managed threads each running 1-3 ops on one coordinator under the '
        'cooperative scheduler (yield points: thread start, every op start, every Lock.acquire, after every Lock.release, Event.set/wait): '
        'all schedules when the tree is small, else all schedules with <= 2 (thorough 3) deviations from run-to-block plus random/PCT; '
        'checked: C17 oracle at every scheduling point and linearizability against the model (a concurrent case is distinct by '
        'programs + schedule choice list). Each sequential case: real TransferCoordinator/TransferFuture vs extracted Coq model, '
        'outcome of each op + status/exception/result/event/pending lists/callback log/done()/result() after each op. '
        'A case is distinct by its model command line (callback environment + op sequence); it is non-trivial when some op is executed in a '
        'done state or some callback/cleanup runs; distinct_nontrivial counts the distinct non-trivial ones.')
    rep = Reporter(ctx)
    mism = []

    for p in static_atomicity():
        ctx.report('corr:coord:atomicity:' + p.split(':')[0], 'static check of futures.py: ' + p,
                   {'kind': 'correspondence', 'theorem_or_correspondence': 'one op = one critical section', 'detail': p},
                   no_input=True)

    if ctx.broken is not None:
        search_after_break(ctx, rep)
        return

    # (a) corpus
    cc = corpus_cases()
    pairs = differential_stream(ctx, rep, 'corpus', cc, mism, keep_every=1)

    # (b) exhaustive
    def exhaustive():
        for env in (ENV_PLAIN, ENV_SCRIPTS):
            for seq in itertools.product(ALPHABET, repeat=L):
                yield (env, list(seq))
        for seq in itertools.product(CORE, repeat=L + 1):
            yield (ENV_CORE, list(seq))
    pairs += differential_stream(ctx, rep, 'exhaustive', exhaustive(), mism, keep_every=1009)
    ctx.cov['exhaustive'] = True
    # (c) random
    rng = ctx.rng('random')
    rcases = [random_case(rng) for _ in range(30000 if thorough else 6000)]
    pairs += differential_stream(ctx, rep, 'random', rcases, mism, keep_every=(20 if thorough else 3))
    # (d) interleavings
    thread_stream(ctx, rep, mism, thorough)
    # (e) genuine locks
    real_lock_confirmation(ctx, rep, pairs)
    # (f) real threads under the cooperative scheduler: oracle at every scheduling point + linearizability
    concurrent_stream(ctx, rep, thorough)
    # (g) system level: who may replace a recorded failure.  Real TransferManager runs in which a
    # request fails and a later request of the same transfer is interrupted (Ctrl-C), and runs with
    # faults / cancels under the scheduler: the first recorded failure stays the outcome.
    from harness.props import sysrun
    from harness.sched import monitors as M
    sys_specs = sysrun.specs_failure_then_interrupt(ctx, sysrun.KINDS[:: (1 if thorough else 2)])
    sys_specs += sysrun.specs_cancel(ctx, sysrun.KINDS[::4], ['future'], [4, 17, 33])
    sysrun.sub_runs(ctx, sys_specs, sys_mons())

    # mismatches: property violation on the implementation, or a broken correspondence
    for (case, i, m) in mism[:40]:
        env, ops = case
        _, viol, _ = run_impl(env, ops)
        if viol:
            rep.oracle(env, ops, viol)
        else:
            k = next((j for j, (a, b) in enumerate(zip(i.split(' '), m.split(' '))) if a != b),
                     min(len(i.split(' ')), len(m.split(' '))))
            ctx.report('corr:coord:' + (ops[k] if k < len(ops) else 'length'),
                       f'model and implementation disagree at op #{k} of callbacks "{env}", ops {" ".join(ops)}: '
                       f'impl={i.split(" ")[k] if k < len(i.split(" ")) else "<none>"} model={m.split(" ")[k] if k < len(m.split(" ")) else "<none>"}',
                       {'kind': 'correspondence', 'theorem_or_correspondence': 'differential coord (extracted Coord.step vs TransferCoordinator)',
                        'case': {'env': env, 'ops': ops}, 'impl': i, 'model': m}, no_input=True)
    ctx.cov['components'].setdefault('coord-exhaustive', {}).update({'mismatches_total_all_streams': len(mism)})


def search_after_break(ctx, rep):
    """The proof / build / extraction broke: search for a failing input with the oracle alone."""
    before = len(ctx.violations)
    cases = corpus_cases()
    for env in (ENV_PLAIN, ENV_SCRIPTS):
        for seq in itertools.product(ALPHABET, repeat=3):
            cases.append((env, list(seq)))
    rng = ctx.rng('random')
    cases += [random_case(rng) for _ in range(2000)]

    def one(case):
        return run_impl(case[0], case[1])
    results, hung = guarded(one, cases)
    for case, r in zip(cases, results):
        ctx.count('coord-oracle-only', 1, nontrivial_key=(case[0], tuple(case[1])))
        if r is None:
            ctx.report(f'oracle:hang:{case[0]}|{" ".join(case[1])}', f'the op sequence never returned: {case}',
                       {'kind': 'history', 'component': 'coord', 'clause': 'hang',
                        'case': {'env': case[0], 'ops': case[1]}, 'broken': ctx.broken.what})
        elif r[1]:
            rep.oracle(case[0], case[1], r[1])
    ctx.sample({'component': 'coord-oracle-only', 'case': {'env': cases[-1][0], 'ops': cases[-1][1]}})
    if len(ctx.violations) == before and not ctx.known_hits:
        ctx.report(f'broken:{ctx.broken.what}', ctx.broken.what,
                   {'kind': 'theorem', 'theorem_or_correspondence': ctx.broken.what, 'log': ctx.broken.log},
                   no_input=True)


def sys_mons():
    from harness.sched import monitors as M
    return [M.m_terminates, M.m_first_failure_kept]


def replay(ctx, data):
    case = data.get('case') or {}
    if isinstance(case, dict) and 'transfers' in case:
        from harness.props import sysrun
        return sysrun.replay_spec(ctx, data, sys_mons())
    if isinstance(case, dict) and 'ops' in case:
        env, ops = case.get('env', ''), case['ops']
        clause = data.get('clause')
        results, hung = guarded(lambda c: run_impl(c[0], c[1]), [(env, ops)], stall_s=5.0)
        if results[0] is None:
            print('oracle: the op sequence never returns')
            return True
        obs, viol, _ = results[0]
        print('impl:', obs)
        print('oracle:', viol)
        if clause == 'hang-real':
            return hang_real(env, ops, 2.0)
        return bool(viol)
    if isinstance(case, dict) and 'programs' in case and 'choices' in case:
        common.proofs(ctx, ['C17', 'C17Sys'], EXTRACT, COMPONENTS)
        r, problems = replay_schedule(case)
        print('results:', r['results'], 'final:', r['final'])
        print('problems:', problems)
        return bool(problems)
    if isinstance(case, dict) and 'programs' in case:
        results, hung = guarded(lambda c: run_threads_impl(c['env'], c['prefix'], c['programs'], c['order']), [case], stall_s=5.0)
        return results[0] is None or bool(results[0][1])
    run(ctx)
    return bool(ctx.violations)
