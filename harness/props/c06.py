"""C06 -- file downloads are published atomically and leave no temporary files."""
import os

from harness.props import sysrun
from harness.sched import monitors as M, library

PROP_FILE = ['C06', 'C06Legacy', 'C06Temp', 'C19']


def expect_paths(run):
    out = {}
    for lb, (kind, dst) in getattr(run, 'dests', {}).items():
        if kind == 'path' and lb in run.expect:
            old = b'OLD-CONTENT' if run.spec_preexisting.get(lb) else None
            out[lb] = (dst, old, run.expect[lb][2])
    return out


SAMPLER = M.make_fs_sampler(expect_paths)


def mons():
    return [M.m_terminates, M.m_files]


def specs(ctx):
    kinds = sysrun.PATH_DOWNLOADS + [dict(kind='download', dst='path', size=2, preexisting=True),
                                     dict(kind='download', dst='path', size=0)]
    s = sysrun.specs_faults(ctx, kinds, seeds=3 if ctx.thorough() else 2)
    pts = list(range(0, 150, 2 if ctx.thorough() else 6))
    s += sysrun.specs_cancel(ctx, kinds, ['future'], pts)
    s += sysrun.specs_cancel(ctx, kinds[:2], ['shutdown', 'exit_exc', 'exit_kbi'], pts[::3])
    # the request or the IO stage's pool refuses a task
    s += sysrun.specs_submit_fault(ctx, kinds, seeds=1)
    return s


def run(ctx):
    sysrun.run_specs(ctx, PROP_FILE, specs(ctx), mons(), sampler=SAMPLER,
                     rule='downloads to a path (single / ranged / pre-existing destination / empty object): faults in open, write, '
                          'close, rename and in every request, a cancel at every k-th scheduling point; the destination path is read at '
                          'EVERY scheduling point (each a potential crash point) and must be absent / previous content / the whole object; '
                          'the directory is listed when result() returns and at the end; distinct = distinct event trace. Legacy '
                          'S3Transfer.download_file: differential against the extracted Legacy model with a fault at every call position, '
                          'destination sampled at every call')
    if ctx.broken is None:
        from harness.props import legacy
        legacy.check_c06(ctx)
    # the temporary file's name (the scheduled runs use a fixed, readable naming scheme, so the
    # real OSUtils.get_temp_filename is tied to its own model here)
    from harness.props import c06temp, c19
    c06temp.check(ctx)
    c06temp.platform_rename(ctx)
    # the process-pool downloader: allocate temp, finalize by rename or remove (C19's machinery)
    if len(ctx.violations) < 5:
        c19.sub_check(ctx, 'faults')


def replay(ctx, data):
    if data.get('component') in ('temp-name', 'platform-rename'):
        from harness.props import c06temp
        return c06temp.replay(ctx, data)
    return sysrun.replay_any(ctx, data, mons(), sampler=SAMPLER)
