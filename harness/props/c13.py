"""C13 -- bandwidth limit respected without starving or over-throttling.

Proof: coq/props/C13.v over coq/model/Bandwidth.v (rational time, exact
moving average).  Tie: the real LeakyBucket / ConsumptionScheduler /
BandwidthRateTracker / BandwidthLimitedStream are driven under a VIRTUAL clock
(an injected time_utils; nothing ever sleeps) and compared, step by step, with
the extracted model: bucket histories (consume/cancel, disciplined and
malformed) and multi-stream histories (1..8 real streams, each blocked in its
real read()/close() loop on a worker thread that runs only while the
scheduler waits for it, so runs are deterministic).

Floats vs rationals: clock readings are dyadic rationals that binary64 holds
exactly; with max a power of two every wait is exact and is compared exactly
(otherwise to 1e-9 relative).  Grant/refuse decisions are compared unless the
model's exact projected rate is within max/2^30 of max (near ties: counted,
and the rest of that history is skipped when the two sides part there).  The
moving average itself is never compared.

Search oracle (implementation alone): the PROVED clauses monitored on the
real bucket -- immediate_grant_bound (1.25 = the statement's constant; the
source's alpha must be 4/5 for the proof to go through), wait_formula through
the returned retry_time, one_wait, abandoned token removed, failed transfer
raises without consuming.  The refuted 1.25 clause for mixed windows is NOT
searched (every variant of F10 would surface); F10 and F11 are replayed on the
real bucket as fixed witnesses and reported under fixed signatures.
"""
import threading
from fractions import Fraction

from harness import common
from harness.common import hx

EXTRACT = ['ExBandwidth']
COMPONENTS = ['bandwidth']

SIG_F10 = 'bw:rate125:F10-two-stream-witness'
SIG_F11 = 'bw:inf-poisoning:F11-witness'
K125 = Fraction(5, 4)           # the statement's smoothing allowance
TOL = Fraction(1, 2 ** 40)      # slack for binary64 rounding in the monitors


def impl():
    from s3transfer import bandwidth
    return bandwidth


# ---------------------------------------------------------------- numbers

def fq(x):
    """Fraction -> the driver's rational syntax"""
    x = Fraction(x)
    return hx(x.numerator) + '/' + hx(x.denominator)


def unfq(s):
    n, d = s.split('/')
    return Fraction(int(n, 16), int(d, 16))


def is_pow2(n):
    return n > 0 and n & (n - 1) == 0


def exact_float(x):
    """the clock reading actually handed out for the ideal reading x"""
    return Fraction(float(x))


# ---------------------------------------------------------------- virtual time

class Clock:
    """time_utils object handed to the real code."""

    def __init__(self):
        self.now = Fraction(0)

    def set(self, t):
        self.now = exact_float(t)

    def time(self):
        return float(self.now)

    def sleep(self, value):
        actor = getattr(threading.current_thread(), 'actor', None)
        if actor is None:
            raise RuntimeError('sleep() outside a stream actor')
        actor.park(value)


class HarnessStall(Exception):
    pass


class Actor:
    """A worker thread that runs only while the scheduler waits for it."""

    def __init__(self, idx):
        self.idx = idx
        self.go = threading.Semaphore(0)
        self.back = threading.Semaphore(0)
        self.fn = None
        self.msg = None
        self.thread = threading.Thread(target=self._loop, daemon=True)
        self.thread.actor = self
        self.thread.start()

    def _loop(self):
        while True:
            self.go.acquire()
            fn = self.fn
            if fn is None:
                return
            try:
                self.msg = ('ret', fn())
            except BaseException as e:      # noqa: the exception IS the observation
                self.msg = ('exc', e)
            self.back.release()

    def _wait(self):
        if not self.back.acquire(timeout=20):
            raise HarnessStall('stream actor did not come back')
        return self.msg

    def call(self, fn):
        self.fn = fn
        self.go.release()
        return self._wait()

    def resume(self):
        self.go.release()
        return self._wait()

    def park(self, w):      # worker side, from Clock.sleep
        self.msg = ('sleep', w)
        self.back.release()
        self.go.acquire()

    def stop(self):
        self.fn = None
        self.go.release()


_POOL = []


def actors(n):
    while len(_POOL) < n:
        _POOL.append(Actor(len(_POOL)))
    return _POOL[:n]


def stop_actors():
    for a in _POOL:
        a.stop()
    del _POOL[:]


# ---------------------------------------------------------------- monitor (search oracle)

class Monitor:
    """The proved clauses of C13 stated on what the real bucket answers.
    Keeps its own books from the calls it sees; reads no private state."""

    def __init__(self, mx, clock):
        self.mx = Fraction(mx)
        self.exact = is_pow2(int(mx)) if Fraction(mx).denominator == 1 else False
        self.clock = clock
        self.outstanding = {}        # token key -> amount scheduled
        self.last_grant = None
        self.all_under = True        # every request so far was under the limit
        self.fail = None             # (signature suffix, text)
        self.log = []                # ops seen, for the report
        self.consumes_by = {}        # token key -> number of consume calls
        self.last_amt = {}           # token key -> amount of its latest consume call
        self.off = False             # a negative amount was requested: outside every theorem's hypothesis

    def _bad(self, sig, text):
        if self.fail is None and not self.off:
            self.fail = (sig, text)

    def close_enough(self, got, want):
        got, want = Fraction(got), Fraction(want)
        if self.exact:
            return got == want
        return abs(got - want) <= Fraction(1, 10 ** 9) * max(abs(want), 1)     # binary64 residue of sums

    def on_consume(self, key, amt, granted, wait):
        t = self.clock.now
        self.consumes_by[key] = self.consumes_by.get(key, 0) + 1
        self.last_amt[key] = amt
        self.log.append(['c', amt, key, fq(t), 'G' if granted else 'R:' + fq(Fraction(wait))])
        if amt < 0:
            self.off = True
        margin = 1 if self.exact else 1 - TOL      # exact ties only where binary64 is exact
        under = amt >= 0 and (self.last_grant is None or
                              (t > self.last_grant and amt <= self.mx * (t - self.last_grant) * margin))
        if not under:
            self.all_under = False
        if key in self.outstanding:
            if not granted:
                self._bad('one-wait', f'token {key} was refused at {float(t)} although it had already '
                                      f'waited once for {self.outstanding[key]} bytes (one_wait)')
                return
            del self.outstanding[key]
            self.last_grant = t
            return
        if granted:
            if self.last_grant is not None and amt >= 0:
                dt = t - self.last_grant
                if dt <= 0 or amt > K125 * self.mx * dt * (1 + TOL):
                    self._bad('immediate-bound',
                              f'{amt} bytes granted by the rate test at {float(t)}, {float(dt)} s after the '
                              f'previous grant: more than 1.25*max*dt = {float(K125 * self.mx * dt)} '
                              f'(immediate_grant_bound)')
            self.last_grant = t
        else:
            if self.all_under and amt >= 0:
                self._bad('under-limit-refused',
                          f'request of {amt} bytes at {float(t)} refused although every request so far asked '
                          f'for at most max*(t - previous grant) (under_limit_never_refused)')
            want = (sum(self.outstanding.values()) + amt) / self.mx
            if not self.close_enough(wait, want):
                self._bad('wait-formula',
                          f'refused request of {amt} bytes at {float(t)} was told to wait {float(wait)} s; the '
                          f'reads currently waiting {sorted(self.outstanding.values())} plus its own need '
                          f'{float(want)} s at max={float(self.mx)} (wait_formula / abandoned_token_removed)')
            self.outstanding[key] = amt

    def on_cancel(self, key):
        self.log.append(['x', key])
        self.outstanding.pop(key, None)

    def abandoned(self, key):
        """the stream owning the token raised its transfer's error: it is no
        longer a live waiter"""
        self.outstanding.pop(key, None)


class MonitoredBucket:
    """Stands where the LeakyBucket stands for the real streams; forwards.
    Stream number i runs on actor i-1, which identifies the caller."""

    def __init__(self, bucket, monitor, exc_type):
        self._b = bucket
        self._m = monitor
        self._exc_type = exc_type
        self.last_refused = None

    @staticmethod
    def _key():
        return threading.current_thread().actor.idx + 1

    def consume(self, amt, token):
        try:
            r = self._b.consume(amt, token)
        except self._exc_type as e:
            self._m.on_consume(self._key(), amt, False, e.retry_time)
            self.last_refused = self._key()        # (reset by the driver before each call)
            raise
        self._m.on_consume(self._key(), amt, True, None)
        return r

    def cancel(self, token):
        self._m.on_cancel(self._key())
        return self._b.cancel(token)


# ---------------------------------------------------------------- bucket histories

MAXES_EXACT = [2 ** 10, 2 ** 13, 2 ** 16, 2 ** 20]
MAXES_INEXACT = [1000, 3 * 2 ** 10, 10 ** 6, 1234567]
GRID = Fraction(1, 2 ** 16)


def pick_amount(rng, mx, malformed=False):
    k, j = rng.randrange(1, 9), rng.randrange(0, 7)
    a = (k * mx) // (2 ** j) + rng.choice((-1, 0, 0, 1))
    if malformed and rng.random() < 0.1:
        return rng.choice((0, 0, 1, -1))
    return max(1, a)


def pick_think(rng, amt, mx):
    r = rng.random()
    base = Fraction(amt, mx)
    if r < 0.25:
        return Fraction(0)
    if r < 0.7:
        f = rng.choice((Fraction(1, 2), Fraction(5, 8), Fraction(3, 4), Fraction(4, 5), Fraction(1),
                        Fraction(5, 4), Fraction(2), Fraction(5)))
        d = rng.choice((0, 0, 0, -1, 1)) * GRID
        return max(Fraction(0), base * f + d)
    if r < 0.9:
        return rng.randrange(1, 64) * GRID * rng.choice((1, 16, 1024))
    return Fraction(rng.randrange(1, 20))


def pick_late(rng, w):
    r = rng.random()
    if r < 0.6:
        return Fraction(0)
    if r < 0.75:
        return GRID
    if r < 0.9:
        return Fraction(w) / 2
    return Fraction(rng.randrange(1, 5))


def run_bucket_history(rng, mx, n_tokens, n_ops, malformed, alpha=None):
    """Drive the real bucket; returns (ops for the model, impl answers, monitor)."""
    bw = impl()
    clock = Clock()
    kw = {}
    if alpha is not None:
        kw['rate_tracker'] = bw.BandwidthRateTracker(alpha=float(alpha))
    bucket = bw.LeakyBucket(mx, time_utils=clock, **kw)
    mon = Monitor(mx, clock)
    has_cancel = hasattr(bucket, 'cancel')
    toks = {k: bw.RequestToken() for k in range(1, n_tokens + 1)}
    # per token: None (idle) or (amt, earliest retry)
    waiting = {k: None for k in toks}
    nxt = {k: Fraction(0) for k in toks}
    planned = {k: pick_amount(rng, mx, malformed) for k in toks}
    ops, outs = [], []
    now = Fraction(0)
    for _ in range(n_ops):
        k = min(toks, key=lambda x: (nxt[x], x)) if rng.random() < 0.7 else rng.choice(sorted(toks))
        t = max(now, nxt[k])
        if malformed and rng.random() < 0.08:
            t = max(Fraction(0), now - rng.randrange(0, 4) * GRID)       # clock steps back / stands still
        if malformed and rng.random() < 0.1 and waiting[k] is not None:
            t = now                                                       # retry too early
        clock.set(t)
        now = clock.now
        w8 = waiting[k]
        if w8 is not None and has_cancel and rng.random() < 0.15:
            bucket.cancel(toks[k])
            mon.on_cancel(k)
            ops.append(('x', k))
            outs.append('X')
            waiting[k] = None
            planned[k] = pick_amount(rng, mx, malformed)
            nxt[k] = now + pick_think(rng, planned[k], mx)
            continue
        if w8 is None and has_cancel and malformed and rng.random() < 0.04:
            bucket.cancel(toks[k])                                        # cancel of an unscheduled token
            mon.on_cancel(k)
            ops.append(('x', k))
            outs.append('X')
            continue
        amt = planned[k]
        if w8 is not None:
            amt = w8[0]
            if malformed and rng.random() < 0.15:
                amt = pick_amount(rng, mx, True)
        try:
            bucket.consume(amt, toks[k])
            granted, wait = True, None
        except bw.RequestExceededException as e:
            granted, wait = False, e.retry_time
        mon.on_consume(k, amt, granted, wait)
        ops.append(('c', amt, k, now))
        if granted:
            outs.append('G')
            waiting[k] = None
            planned[k] = pick_amount(rng, mx, malformed)
            nxt[k] = now + pick_think(rng, planned[k], mx)
        else:
            outs.append(('R', Fraction(wait)))
            waiting[k] = (amt, now + Fraction(wait))
            nxt[k] = now + Fraction(wait) + pick_late(rng, wait)
    return ops, outs, mon


def bucket_line(mx, ops, alpha=None):
    parts = [f'B {fq(alpha) if alpha is not None else "-"} {fq(mx)}']
    for op in ops:
        if op[0] == 'c':
            parts.append(f'c {hx(op[1])} {hx(op[2])} {fq(op[3])}')
        else:
            parts.append(f'x {hx(op[1])}')
    return ' ; '.join(parts)


def compare(impl_outs, model_words, exact):
    """-> (verdict, index) with verdict in ok / tie-skip / mismatch"""
    if len(model_words) != len(impl_outs):
        return 'mismatch', 0
    for i, (o, m) in enumerate(zip(impl_outs, model_words)):
        head, _, val = m.partition(':')
        tie = head.endswith('~')
        head = head.rstrip('~')
        if isinstance(o, tuple):
            same = head == o[0]
            if same:
                want = unfq(val)
                if exact:
                    same = o[1] == want
                else:
                    same = abs(o[1] - want) <= Fraction(1, 10 ** 9) * max(abs(want), 1)
        else:
            same = head == o
        if not same:
            return ('tie-skip' if tie else 'mismatch'), i
    return 'ok', len(impl_outs)


# ---------------------------------------------------------------- stream histories

class Coord:
    """Stands for the transfer coordinator of a stream: `exception` is what the limiter reads.
    arm(k, e): the transfer fails with e at the (k+1)-th read of `exception` from now on (a
    failure landing in the middle of a call); the harness itself looks with peek()."""

    def __init__(self):
        self._exc = None
        self._armed = None

    @property
    def exception(self):
        if self._armed is not None:
            k, e = self._armed
            if k <= 0:
                self._exc, self._armed = e, None
            else:
                self._armed = (k - 1, e)
        return self._exc

    @exception.setter
    def exception(self, v):
        self._exc = v

    def peek(self):
        return self._exc

    def arm(self, k, e):
        self._armed = (k, e)

    def settle_arm(self):
        """the call is over (or parked in its sleep): a still pending failure lands now"""
        if self._armed is not None:
            self._exc, self._armed = self._armed[1], None


class Body:
    def __init__(self):
        self.closed = False

    def read(self, amount):
        return amount

    def close(self):
        self.closed = True


class TransferFailed(Exception):
    pass


def run_stream_history(rng, mx, thr, n_streams, n_events, use_default_thr=False):
    """Real streams on one real bucket under the virtual clock.
    -> (events for the model, impl answers, monitor)"""
    bw = impl()
    clock = Clock()
    real_bucket = bw.LeakyBucket(mx, time_utils=clock)
    mon = Monitor(mx, clock)
    bucket = MonitoredBucket(real_bucket, mon, bw.RequestExceededException)
    acts = actors(n_streams + 1)
    streams, coords, bodies = {}, {}, {}
    for sid in range(1, n_streams + 2):        # the last one is the probe
        coords[sid], bodies[sid] = Coord(), Body()
        if use_default_thr:
            streams[sid] = bw.BandwidthLimitedStream(bodies[sid], bucket, coords[sid], clock)
        else:
            streams[sid] = bw.BandwidthLimitedStream(bodies[sid], bucket, coords[sid], clock,
                                                     bytes_threshold=thr)
    state = {sid: 'idle' for sid in streams}
    nxt = {sid: Fraction(0) for sid in streams}
    seen = {sid: 0 for sid in streams}
    enabled = {sid: True for sid in streams}
    planned = {sid: 1 for sid in streams}
    cur_op = {}
    events, outs = [], []
    now = Fraction(0)
    probe = n_streams + 1

    def plan(sid):
        r = rng.random()
        if r < 0.35:
            a = rng.choice((1, max(1, thr // 4), max(1, thr // 2), max(1, thr - 1)))
        elif r < 0.6:
            a = rng.choice((thr, thr + 1, 2 * thr, 3 * thr - 1))
        else:
            a = pick_amount(rng, mx)
        planned[sid] = a
        nxt[sid] = now + pick_think(rng, seen[sid] + a, mx)

    def settle(sid, msg, kind):
        """book one answer of the implementation"""
        what = msg[0]
        if what == 'sleep':
            w = Fraction(msg[1])
            state[sid] = 'sleep'
            nxt[sid] = now + w + pick_late(rng, w)
            outs.append(('S', w))
            return
        if what == 'exc':
            e = msg[1]
            if isinstance(e, HarnessStall):
                raise e
            outs.append('E' if e is coords[sid].peek() else 'ERR:' + type(e).__name__)
            mon.abandoned(sid)
            state[sid] = 'idle' if rng.random() < 0.3 else 'dead'
            nxt[sid] = now + Fraction(rng.randrange(0, 3))
            return
        op = cur_op[sid]
        if op == 'read':
            outs.append('P')
            if enabled[sid] and seen[sid] >= thr:
                seen[sid] = 0
            state[sid] = 'idle'
            plan(sid)
        else:
            outs.append('C')
            state[sid] = 'closed'

    def do_event(sid, force=None):
        nonlocal now
        clock.set(max(now, nxt[sid]))
        now = clock.now
        exc = 1 if coords[sid].peek() is not None else 0
        before = mon.consumes_by.get(sid, 0)
        if state[sid] == 'sleep':
            events.append(('w', sid, exc, now))
            msg = acts[sid - 1].resume()
            loop = True
        else:
            r = rng.random() if force is None else force
            s = streams[sid]
            if r < 0.86:
                amt = planned[sid]
                cur_op[sid] = 'read'
                events.append(('r', sid, amt, exc, now))
                loop = enabled[sid] and seen[sid] + amt >= thr
                if enabled[sid]:
                    seen[sid] += amt
                if loop and not exc and rng.random() < 0.12:
                    # the transfer fails while this very read is inside the limiter: after the loop's
                    # check of the coordinator, before (or while) the bucket refuses the request
                    coords[sid].arm(1, TransferFailed(f'transfer of stream {sid} failed mid-read'))
                bucket.last_refused = None
                msg = acts[sid - 1].call(lambda: s.read(amt))
                coords[sid].settle_arm()
                if msg[0] not in ('sleep', 'exc') and bucket.last_refused == sid:
                    # the bucket refused this stream's request and the read handed out data all the same:
                    # neither waited for its slot nor raised the transfer's error (and the slot it was
                    # given stays booked: every later request waits for it)
                    mon._bad('refused-read-returned', f'stream {sid}: the bucket refused its request at {float(now)} '
                                                      f'(scheduled it), yet read() returned data without waiting and without '
                                                      f'raising the transfer\'s error; the scheduled slot is never given back')
            elif r < 0.9:
                cur_op[sid] = 'close'
                events.append(('z', sid, exc, now))
                loop = enabled[sid] and seen[sid] != 0
                msg = acts[sid - 1].call(s.close)
            else:
                en = rng.random() < 0.6
                events.append(('e' if en else 'd', sid))
                (s.enable_bandwidth_limiting if en else s.disable_bandwidth_limiting)()
                enabled[sid] = en
                outs.append('K')
                return
        if exc and loop:
            # failed_transfer_raises: raises that error, consumes nothing
            if msg[0] != 'exc' or msg[1] is not coords[sid].peek():
                mon._bad('failed-transfer', f'stream {sid} entered its loop at {float(now)} with the transfer\'s '
                                            f'exception set and did not raise it (answer {msg[0]})')
            if mon.consumes_by.get(sid, 0) != before:
                mon._bad('failed-transfer', f'stream {sid} consumed from the bucket at {float(now)} although its '
                                            f'transfer had already failed')
        if mon.consumes_by.get(sid, 0) != before and mon.last_amt.get(sid) != seen[sid]:
            # the bucket must be charged exactly the bytes read since the stream's last grant
            mon._bad('charge', f'stream {sid} charged the bucket {mon.last_amt.get(sid)} bytes at {float(now)} '
                               f'but {seen[sid]} bytes were read through it since its last grant')
        settle(sid, msg, events[-1][0])

    for sid in range(1, n_streams + 1):
        plan(sid)
    for _ in range(n_events):
        live = [sid for sid in range(1, n_streams + 1) if state[sid] in ('idle', 'sleep')]
        if not live:
            break
        if rng.random() < 0.07:
            v = rng.choice(live)
            if coords[v].peek() is None:
                coords[v].exception = TransferFailed(f'transfer of stream {v} failed')
        sid = min(live, key=lambda x: (nxt[x], x)) if rng.random() < 0.75 else rng.choice(live)
        do_event(sid)
        if mon.fail:
            break
    # probe: a fresh stream reads twice at one clock reading; the second read
    # (or the first) is refused and is told the wait for the LIVE waiters + itself
    if not mon.fail:
        planned[probe] = max(thr, mx // 4, 1)
        nxt[probe] = now
        do_event(probe, force=0.0)
        if state[probe] == 'idle':
            planned[probe] = max(thr, mx // 4, 1)
            nxt[probe] = now
            do_event(probe, force=0.0)
    # unwind every stream still asleep: its transfer fails, it must raise
    for sid in sorted(streams):
        if state[sid] == 'sleep' and not mon.fail:
            if coords[sid].exception is None:
                coords[sid].exception = TransferFailed(f'transfer of stream {sid} failed (end)')
            nxt[sid] = now
            do_event(sid)
        elif state[sid] == 'sleep':
            coords[sid].exception = coords[sid].exception or TransferFailed('unwind')
            acts[sid - 1].resume()
    return events, outs, mon


def stream_line(mx, thr, events, default_thr=False):
    parts = [f'S - {fq(mx)} {"-" if default_thr else hx(thr)}']
    for ev in events:
        if ev[0] == 'r':
            parts.append(f'r {hx(ev[1])} {hx(ev[2])} {ev[3]} {fq(ev[4])}')
        elif ev[0] in ('w', 'z'):
            parts.append(f'{ev[0]} {hx(ev[1])} {ev[2]} {fq(ev[3])}')
        else:
            parts.append(f'{ev[0]} {hx(ev[1])}')
    return ' ; '.join(parts)


# ---------------------------------------------------------------- witnesses of the known findings

def f10_ops(n):
    ops = [('c', 1000, 1, Fraction(0))]
    for k in range(n):
        ops += [('c', 1000, 1, Fraction(k)), ('c', 390, 2, Fraction(2 * k + 1, 2)),
                ('c', 1000, 1, Fraction(k + 1))]
    return ops


F11_PREFIX = [('c', 100, 1, Fraction(0)), ('c', 100, 1, Fraction(1, 1000)),
              ('c', 10, 2, Fraction(1001, 1000)), ('c', 100, 1, Fraction(1001, 1000))]


def replay_ops(mx, ops):
    """fixed bucket history on the real bucket -> answers"""
    bw = impl()
    clock = Clock()
    bucket = bw.LeakyBucket(mx, time_utils=clock)
    toks = {}
    outs = []
    for op in ops:
        if op[0] == 'x':
            bucket.cancel(toks.setdefault(op[1], bw.RequestToken()))
            outs.append('X')
            continue
        clock.now = Fraction(op[3])          # the witness times need not be dyadic
        try:
            bucket.consume(op[1], toks.setdefault(op[2], bw.RequestToken()))
            outs.append('G')
        except bw.RequestExceededException as e:
            outs.append(('R', Fraction(e.retry_time)))
    return outs


def known_findings(ctx):
    # F10
    n = 100
    ops = f10_ops(n)
    outs = replay_ops(1000, ops)
    total = sum(op[1] for op, o in zip(ops, outs) if o == 'G' and 0 <= op[3] <= n)
    i_refused = sum(1 for op, o in zip(ops, outs) if op[2] == 2 and o != 'G')
    bound = K125 * 1000 * n + 4 * 1000 * 2
    ctx.count('bandwidth-witness', 1, nontrivial_key='F10', witness='F10')
    if i_refused == 0 and total > bound:
        ctx.report(SIG_F10,
                   f'F10: max=1000, stream S re-requests 1000 B the moment it is granted, stream I requests 390 B in '
                   f'the middle of each of S\'s waits: {n} cycles move {total} B in {n} s (> 1.25*max*T + 4 maximal '
                   f'requests per stream = {int(bound)}), I is never refused',
                   {'kind': 'history', 'component': 'bandwidth', 'case': {'witness': 'F10', 'cycles': n}})
    # F11
    outs = replay_ops(1000, F11_PREFIX + [('c', 1, 3, Fraction(1000)), ('c', 1, 4, Fraction(10 ** 6))])
    ctx.count('bandwidth-witness', 1, nontrivial_key='F11', witness='F11')
    if outs[:4] == ['G', ('R', Fraction(0.1)), 'G', 'G'] and outs[4] != 'G' and outs[5] != 'G':
        ctx.report(SIG_F11,
                   'F11: max=1000, [consume 100 A @0 granted; 100 A @0.001 refused; 10 B @1.001 granted; 100 A @1.001 '
                   'released with time_delta=0] leaves the tracked rate at inf: consume 1 C @1000 and consume 1 D @1e6 '
                   'are both refused on an idle link',
                   {'kind': 'history', 'component': 'bandwidth', 'case': {'witness': 'F11'}})
    return outs


# ---------------------------------------------------------------- the check

def oracle_case(case):
    """Re-run one recorded case through the monitors on the current tree.
    -> failure text or None"""
    import random
    kind = case.get('kind')
    if kind == 'witness' or 'witness' in case:
        return None
    rng = random.Random(case['rng'])
    try:
        if kind == 'bucket':
            _, _, mon = run_bucket_history(rng, case['max'], case['tokens'], case['ops'], case['malformed'])
        else:
            _, _, mon = run_stream_history(rng, case['max'], case['thr'], case['streams'], case['events'],
                                           case.get('default_thr', False))
    finally:
        stop_actors()
    return mon.fail


def gen_cases(ctx, scale):
    """[(case dict)] -- a case is replayable from its own seed"""
    rng = ctx.rng('cases')
    cases = []
    for i in range(int(1000 * scale)):
        exact = rng.random() < 0.8
        cases.append({'kind': 'bucket', 'rng': f'{ctx.seed}:b:{i}',
                      'max': rng.choice(MAXES_EXACT if exact else MAXES_INEXACT),
                      'tokens': rng.randrange(1, 9), 'ops': rng.choice((10, 24, 48)),
                      'malformed': rng.random() < 0.3})
    for i in range(int(320 * scale)):
        exact = rng.random() < 0.85
        mx = rng.choice(MAXES_EXACT if exact else MAXES_INEXACT)
        dflt = rng.random() < 0.15
        if dflt:
            mx = rng.choice((2 ** 18, 2 ** 20, 2 ** 23))
        cases.append({'kind': 'stream', 'rng': f'{ctx.seed}:s:{i}', 'max': mx,
                      'thr': 262144 if dflt else rng.choice((1, 16, 1024, mx // 4, mx)),
                      'streams': rng.randrange(1, 9), 'events': rng.choice((12, 30, 60)),
                      'default_thr': dflt})
    return cases


def run_case(case):
    import random
    rng = random.Random(case['rng'])
    if case['kind'] == 'bucket':
        ops, outs, mon = run_bucket_history(rng, case['max'], case['tokens'], case['ops'], case['malformed'])
        return bucket_line(case['max'], ops), outs, mon
    evs, outs, mon = run_stream_history(rng, case['max'], case['thr'], case['streams'], case['events'],
                                        case.get('default_thr', False))
    return stream_line(case['max'], case['thr'], evs, case.get('default_thr', False)), outs, mon


def report_monitor(ctx, case, mon):
    sig, text = mon.fail
    ctx.report(f'bw:{sig}:{case["kind"]}', text,
               {'kind': 'history', 'component': 'bandwidth', 'case': case,
                'calls_seen_by_the_monitor': mon.log[-40:]})


def run(ctx):
    ok = common.proofs(ctx, 'C13', EXTRACT, COMPONENTS)
    ctx.assumptions = [
        'time is what the injected time_utils reports; real sleeps are at least as long as requested (virtual clock in the check)',
        'the bucket lock makes consume/cancel atomic (histories are sequences of whole calls)',
        'binary64 moving average vs exact rationals: decisions compared outside a 2^-30 relative band around max; '
        'waits exact for max a power of two',
        'the extracted OCaml model and its line driver are trusted for the correspondence only',
    ]
    ctx.cov['rule'] = (
        'cases: (1) bucket histories of 12-60 consume/cancel calls by 1-8 tokens on the real LeakyBucket under a virtual '
        'clock: amounts k*max/2^j +-1, think times 0 / amt/max*{1/2..5} +-2^-16 / idle, late wake-ups, equal clock '
        'readings, cancels at random points of a wait; 30% malformed (early retries, changed amounts, clock stepping '
        'back, zero/negative amounts, cancels of idle tokens); (2) 1-8 real BandwidthLimitedStreams blocked in their '
        'real read()/close() loops, transfers failed at random points, enable/disable, a probe stream reading twice at '
        'the last clock reading. Each history is replayed by the extracted Coq model and compared answer by answer; '
        'the monitors of the proved clauses run on every history. (3) 2-4 managed threads on one real bucket under the '
        'cooperative scheduler (lock acquisition is a yield point, virtual clock advanced by the programs): every '
        'schedule of 5 small program sets up to a budget, random/PCT schedules of random programs; clock readings '
        'reaching the tracker must be in lock order, monitors in lock order, lock-order linearisation replayed by the model. (4) wiring: real TransferManager transfers (uploads from path / seekable / non-seekable, single and multipart; downloads to a path and to a stream, single and ranged) with max_bandwidth set, against the fake S3 emulating botocore\'s life cycle (payload read by before-call handlers, signer reads, send; body optionally inside AwsChunkedWrapper) under a virtual clock: nothing charged / no sleep while nothing is on the wire, everything sent or received charged. A history is distinct/non-trivial by its full model '
        'command line and counts only if it contains at least one refusal.')
    bw = impl()
    near_ties = 0

    if ctx.broken is None:
        known_findings(ctx)
        # the witnesses through the model as well
        lines = [bucket_line(1000, f10_ops(100)),
                 bucket_line(1000, F11_PREFIX + [('c', 1, 3, Fraction(1000)), ('c', 1, 4, Fraction(10 ** 6))])]
        impl_outs = [replay_ops(1000, f10_ops(100)),
                     replay_ops(1000, F11_PREFIX + [('c', 1, 3, Fraction(1000)), ('c', 1, 4, Fraction(10 ** 6))])]
        for l, o, m in zip(lines, impl_outs, common.run_model('bandwidth', lines)):
            v, i = compare(o, m.split(), False)
            if v == 'mismatch':
                ctx.report('corr:bandwidth:witness', f'model and real bucket part at step {i} of a witness history',
                           {'kind': 'correspondence', 'theorem_or_correspondence': 'differential bandwidth/witness',
                            'model_cmd': l[:400], 'model': m[:400]}, no_input=True)

        cases = gen_cases(ctx, 4.0 if ctx.thorough() else 1.0)
        results = []
        try:
            for c in cases:
                results.append(run_case(c))
        finally:
            stop_actors()
        model = common.run_model('bandwidth', [r[0] for r in results])
        n_mis = 0
        for c, (line, outs, mon), m in zip(cases, results, model):
            exact = is_pow2(c['max'])
            words = m.split()
            if mon.fail is None:
                verdict, idx = compare(outs, words, exact)
            else:
                verdict, idx = 'monitor', 0
            refusals = sum(1 for o in outs if isinstance(o, tuple))
            ctx.count('bandwidth-' + c['kind'], 1,
                      nontrivial_key=(line if refusals else None),
                      kind=c['kind'] + ('-malformed' if c.get('malformed') else ''),
                      exact_waits=exact, streams=c.get('streams', c.get('tokens')),
                      verdict=verdict)
            ctx.cov['steps_compared'] = ctx.cov.get('steps_compared', 0) + idx
            near_ties += sum(1 for w in words[:idx] if '~' in w.split(':')[0])
            if verdict == 'tie-skip':
                ctx.cov['near_tie_histories_cut'] = ctx.cov.get('near_tie_histories_cut', 0) + 1
            if mon.fail is not None:
                report_monitor(ctx, c, mon)
            elif verdict == 'mismatch':
                n_mis += 1
                if n_mis <= 3:
                    ctx.report(f'corr:bandwidth:{c["kind"]}',
                               f'model and implementation part at step {idx} of a {c["kind"]} history: impl '
                               f'{outs[idx] if idx < len(outs) else "?"} model {words[idx] if idx < len(words) else "?"}; '
                               f'the monitors of the proved clauses hold on it',
                               {'kind': 'correspondence', 'theorem_or_correspondence': f'differential bandwidth/{c["kind"]}',
                                'case': c, 'model_cmd': line[:3000], 'impl': [str(o) for o in outs][:80],
                                'model': words[:80]}, no_input=True)
            ctx.sample({'component': 'bandwidth-' + c['kind'], 'case': c, 'model_cmd': line[:600],
                        'model_answers': m[:300]}, limit=2)
        ctx.cov['near_tie_steps_agreeing'] = near_ties
        # concurrent tie: managed threads on one real bucket, lock acquisition is a yield point
        from harness.props import c13conc
        c13conc.run(ctx)
        # (4) wiring: one shared bucket per manager, bodies and streams wrapped, limiting on only while on the wire
        from harness.props import c13wire
        c13wire.run(ctx)
        ctx.cov.setdefault('near_tie_histories_cut', 0)
        try:        # for the record only; the proof is tied to the source through gen/Tables.v
            ctx.cov['source_alpha'] = str(Fraction(bw.BandwidthRateTracker()._alpha).limit_denominator(10 ** 6))
        except AttributeError:
            ctx.cov['source_alpha'] = 'see BW_ALPHA in coq/gen/Tables.v'
    if ctx.broken is not None:
        search_after_break(ctx)


def search_after_break(ctx):
    """A proof obligation, the translator or the build broke: look for a
    history on which the implementation violates a proved clause."""
    found = False
    from harness.props import c13conc
    n0 = len(ctx.violations)
    try:
        c13conc.run(ctx, use_model=False)
    except common.BuildBroken:
        pass
    found = len(ctx.violations) > n0
    try:
        for c in ([] if found else gen_cases(ctx, 0.5)):
            try:
                _, _, mon = run_case(c)
            except HarnessStall:
                raise
            except Exception as e:       # the implementation itself fell over
                ctx.report(f'bw:crash:{c["kind"]}', f'{type(e).__name__}: {e} on a {c["kind"]} history',
                           {'kind': 'history', 'component': 'bandwidth', 'case': c, 'broken': ctx.broken.what})
                found = True
                break
            ctx.count('bandwidth-search', 1, nontrivial_key=c['rng'], kind=c['kind'])
            if mon.fail is not None:
                report_monitor(ctx, c, mon)
                found = True
                break
    finally:
        stop_actors()
    if not found:
        ctx.report(f'broken:{ctx.broken.what}', ctx.broken.what,
                   {'kind': 'theorem', 'theorem_or_correspondence': ctx.broken.what, 'log': ctx.broken.log},
                   no_input=True)


def replay(ctx, data):
    case = data.get('case') or {}
    if isinstance(case, dict) and case.get('kind') in ('bucket', 'stream'):
        r = oracle_case(case)
        print('oracle:', r)
        return r is not None
    if isinstance(case, dict) and 'life' in case:
        from harness.props import c13wire
        return c13wire.replay(ctx, data)
    if isinstance(case, dict) and case.get('kind') == 'sched':
        from harness.props import c13conc
        return c13conc.replay_case(case, use_model=data.get('kind') == 'correspondence')
    if isinstance(case, dict) and case.get('witness') in ('F10', 'F11'):
        class C:
            hits = []

            def count(self, *a, **k):
                pass

            def report(self, sig, what, *a, **k):
                C.hits.append(sig)
        known_findings(C())
        want = SIG_F10 if case['witness'] == 'F10' else SIG_F11
        print('witness:', C.hits)
        return want in C.hits
    run(ctx)
    return bool(ctx.violations)
