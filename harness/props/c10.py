"""C10 -- configured concurrency and queue limits are never exceeded."""
from harness.props import sysrun
from harness.sched import monitors as M

PROP_FILE = 'C10'


def cfg_of(run):
    c = getattr(run, 'requested', None) or (run.manager._config if hasattr(run, 'manager') else None)
    if c is None:
        from s3transfer.manager import TransferConfig
        c = TransferConfig(**run_cfg(run))
    return {k: getattr(c, k) for k in ('max_request_concurrency', 'max_submission_concurrency', 'max_in_memory_upload_chunks',
                                       'multipart_chunksize', 'multipart_threshold')}


def run_cfg(run):
    return {}


def make_sampler():
    cache = {}

    def cfg_for(run):
        k = id(run)
        if k not in cache:
            from s3transfer.manager import TransferConfig
            kw = dict(multipart_threshold=4, multipart_chunksize=4, io_chunksize=3)
            kw.update(getattr(run, 'cfg_kwargs', {}) or {})
            c = TransferConfig(**kw)
            cache.clear()
            cache[k] = {a: getattr(c, a) for a in ('max_request_concurrency', 'max_submission_concurrency',
                                                   'max_in_memory_upload_chunks', 'multipart_chunksize', 'multipart_threshold')}
        return cache[k]
    return M.make_limit_sampler(cfg_for)


SAMPLER = make_sampler()


def mons():
    return [M.m_terminates, M.m_limits, M.m_permits_restored, M.m_stream_order, M.m_success_means_all_ok,
            lambda r: M.m_download_window(r, r.requested.max_in_memory_download_chunks),
            lambda r: M.m_window_capacity(r, r.requested.max_in_memory_download_chunks)]


def specs(ctx):
    s = sysrun.specs_mixed(ctx, 500 if ctx.thorough() else 110, limits=(1, 2, 3), with_victims=True, tag='c10')
    # writes to one destination: one thread at a time, in queue order
    s += sysrun.specs_stream_order(ctx, 400 if ctx.thorough() else 120)
    s += sysrun.specs_shared_window(ctx, 500 if ctx.thorough() else 150)
    # the pool may run a task before submit() has returned to the submitter (monitors only: the log order
    # of 'enqueued' and 'task_start' is then not the model's)
    rng2 = ctx.rng('c10-submit-yield')
    for sp in sysrun.specs_mixed(ctx, 120 if ctx.thorough() else 30, limits=(1, 2), with_victims=False, tag='c10sy'):
        s.append(dict(sp, submit_yield=True, chooser={'kind': 'pct', 'seed': rng2.randrange(1 << 30), 'depth': 5}))
    return s


def run(ctx):
    sysrun.run_specs(ctx, PROP_FILE, specs(ctx), mons(), sampler=SAMPLER,
                     rule='2-4 concurrent transfers of mixed types with each of the three concurrency and three queue-size limits (and the two '
                          'in-memory limits) drawn from {1,2,3}; at EVERY scheduling point the fake S3 in-flight counters and the executors\' '
                          'queued+running counts are compared with the configured limits; distinct = distinct event trace')


def replay(ctx, data):
    return sysrun.replay_spec(ctx, data, mons(), sampler=SAMPLER)
