"""C12 -- semaphores: sliding-window semantics and permit conservation.

Proof: coq/props/C12.v over coq/model/Sema.v (sequential state machine of
SlidingWindowSemaphore / TaskSemaphore) and coq/model/SemaConc.v (waiters and
notify).  Tie: differential of the real classes against the extracted model --
results of every operation, final count and the per-tag bookkeeping -- on
exhaustive short histories, a structured mostly-valid random stream, a
malformed stream, a handful of real-thread blocking scenarios replayed through
SemaConc, scheduled real concurrency (harness/props/c12conc.py: managed threads
on one real semaphore under the cooperative scheduler, every observed
linearisation replayed through the extracted cstep, safety checks on the real
object after every scheduling step), and an end-to-end quiescence check on real
TransferManager runs.
Search oracle: the statement of C12 evaluated on the implementation alone.
"""
import io
import itertools
import os
import signal
import tempfile
import threading

from harness import common, names
from harness.common import hx, unhx
from harness.props import c12conc

EXTRACT = ['ExSema']
COMPONENTS = ['sema']

# finding F13 (fixed in /repo by 74b8319; seeded/revert-F13 reintroduces it)
EDGE_SIG = 'sw-release:never-issued-token-accepted:token==next==lowest'


def impl():
    from s3transfer import utils
    return utils


# ---------------------------------------------------------------- encoding
# op = ('a', tag) non-blocking acquire | ('b', tag) blocking acquire | ('r', tag, token)

def op_str(o):
    if o[0] == 'r':
        return f'r{hx(o[1])}:{hx(o[2])}'
    return o[0] + hx(o[1])


def op_parse(s):
    if s[0] == 'r':
        t, k = s[1:].split(':')
        return ('r', unhx(t), unhx(k))
    return (s[0], unhx(s[1:]))


def line_S(case):
    cap, ops = case
    return ' '.join(['S', hx(cap)] + [op_str(o) for o in ops])


def case_json(case):
    return {'kind': 'S', 'cap': case[0], 'ops': [op_str(o) for o in case[1]]}


class Hang(Exception):
    pass


def _alarm(signum, frame):
    raise Hang()


HANGS_SEEN = [0]
WAIT_LIMIT = 4.0           # seconds a call that never has to wait may take before it is counted as waiting
REAL_HANGS = []            # kinds of the calls that really ran into the alarm (as opposed to being taken to wait)
HANG_KINDS = {}


def guarded(fn, *a):
    """Call fn in this thread; a wait that should not happen is broken by SIGALRM."""
    old = signal.signal(signal.SIGALRM, _alarm)
    signal.setitimer(signal.ITIMER_REAL, WAIT_LIMIT)
    try:
        return fn(*a)
    finally:
        signal.setitimer(signal.ITIMER_REAL, 0)
        signal.signal(signal.SIGALRM, old)


class Safe:
    """The real semaphore behind a guard: every public call is bounded by the alarm.  A call
    that waited has left the object wedged (or would wait again): every later call on it is
    reported as waiting without being made.  Once the same kind of call -- same method, same
    flag, same outcome of the call before it -- has waited three times it is taken to wait
    again (3 s each would make the search and the shrinker crawl)."""

    def __init__(self, sem):
        self.sem, self.hung, self.last = sem, None, '-'

    def _call(self, kind, fn, *a):
        if self.hung:
            raise Hang()
        kind = f'{kind} after {self.last}'
        if HANG_KINDS.get(kind, 0) >= 3:
            self.hung = kind
            raise Hang()
        try:
            return guarded(fn, *a)
        except Hang:
            HANG_KINDS[kind] = HANG_KINDS.get(kind, 0) + 1
            HANGS_SEEN[0] += 1
            REAL_HANGS.append(kind)
            self.hung = kind
            raise

    def current_count(self):
        return self._call('current_count()', self.sem.current_count)

    def acquire(self, tag, blocking=True):
        return self._call(f'acquire(blocking={blocking!r}) at count {"0" if self.sem_count_zero else ">0"}',
                          self.sem.acquire, tag, blocking)

    def release(self, tag, token):
        return self._call('release()', self.sem.release, tag, token)

    sem_count_zero = False


def do_op(utils, sem, o):
    """One operation on the real object (behind Safe) -> result letter.  A blocking acquire
    at count 0 is not executed (it would wait): reported as 'B' from the
    public current_count(); the threaded scenarios check the real waiting."""
    try:
        r = _do_op(utils, sem, o)
    except Hang:
        r = 'HANG'
    sem.last = r[:1]
    return r


def _do_op(utils, sem, o):
    if o[0] in 'ab':
        blocking = o[0] == 'b'
        zero = sem.current_count() == 0
        if blocking and zero:
            return 'B'
        try:
            # non-blocking is requested with False or with the equally valid falsy 0 (as the plain
            # counting semaphore and threading.Semaphore accept it), alternating by tag
            nb = 0 if o[1] % 2 else False
            sem.sem_count_zero = zero
            # at count 0 a non-blocking acquire must raise at once; a buggy version would WAIT here
            k = sem.acquire(o[1], True if blocking else nb)
            return 'k' + hx(k) if isinstance(k, int) else f'k?{k!r}'
        except utils.NoResourcesAvailable:
            return 'N'
        except Hang:
            raise
        except Exception as e:       # noqa: an exception the interface does not document
            return 'E' + type(e).__name__
    try:
        sem.release(o[1], o[2])
        return 'O'
    except ValueError:
        return 'V'
    except Hang:
        raise
    except Exception as e:           # noqa: idem (e.g. a KeyError out of the bookkeeping)
        return 'E' + type(e).__name__


def count_of(sem):
    try:
        return sem.current_count()
    except Hang:
        return None


class Ghost:
    """History bookkeeping kept by the harness (not by the implementation)."""

    def __init__(self):
        self.granted = {}      # tag -> number of grants
        self.released = set()  # (tag, token) whose release was accepted
        self.wf = True

    def on(self, o, res):
        if o[0] in 'ab' and res.startswith('k'):
            self.granted[o[1]] = self.granted.get(o[1], 0) + 1
        elif o[0] == 'r' and res == 'O':
            if not (0 <= o[2] < self.granted.get(o[1], 0)) or (o[1], o[2]) in self.released:
                self.wf = False
            self.released.add((o[1], o[2]))

    def least_unreleased(self, tag):
        k = 0
        while (tag, k) in self.released:
            k += 1
        return k

    def outstanding(self):
        return sum(n - min(self.least_unreleased(t), n) for t, n in self.granted.items())

    def quiescent(self):
        return all((t, k) in self.released for t, n in self.granted.items() for k in range(n))


def dump_state(sem):
    st = names.sliding_window_state(sem)
    if st is None:
        return 'NA'                # bookkeeping restructured: only observable behaviour is compared
    nxt, low, pend = st
    try:
        return ' '.join(
            f'{hx(t)}:{hx(n)}:{hx(low[t])}:' + ','.join(hx(x) for x in pend.get(t, []))
            for t, n in nxt.items())
    except Exception:
        return 'NA'


def confirmed(fn):
    """A call that ran into the alarm is made once more on a fresh object (the whole history is
    run again): only a wait that repeats is reported -- a stall of the machine does not repeat."""
    def wrapper(*a, **k):
        n0 = len(REAL_HANGS)
        r = fn(*a, **k)
        if len(REAL_HANGS) == n0:
            return r
        first = REAL_HANGS[n0:]
        n1 = len(REAL_HANGS)
        r2 = fn(*a, **k)
        if len(REAL_HANGS) > n1 or any(HANG_KINDS.get(kd, 0) >= 3 for kd in first):
            return r2 if len(REAL_HANGS) > n1 else r      # it waited again (or is known to wait)
        for kd in first:                                  # transient: forget the first attempt
            HANG_KINDS[kd] = max(0, HANG_KINDS.get(kd, 0) - 1)
            HANGS_SEEN[0] = max(0, HANGS_SEEN[0] - 1)
        del REAL_HANGS[n0:]
        return r2
    return wrapper


def run_impl_S(case):
    return confirmed(_run_impl_S)(case)


def oracle(cap, ops, second_pass=True):
    return confirmed(_oracle)(cap, ops, second_pass)


def _run_impl_S(case):
    utils = impl()
    cap, ops = case
    if HANGS_SEEN[0] >= 3:
        return 'SKIPPED'       # three operations already waited where none may: reported; the stream ends here
    sem = Safe(utils.SlidingWindowSemaphore(cap))
    g = Ghost()
    out = []
    for o in ops:
        r = do_op(utils, sem, o)
        g.on(o, r)
        out.append(r)
    n = count_of(sem)
    return (' '.join(out) + ' | ' + ('HANG' if n is None else hx(n)) + ' | ' + dump_state(sem.sem) +
            f' | wf={int(g.wf)} q={int(g.quiescent())}')


NA_SEEN = []


def canon_S(i, m):
    """When the implementation's private bookkeeping could not be read ('NA'), the
    state component is left out of the comparison on both sides."""
    if i == 'SKIPPED':
        return i, i
    pi = i.split(' | ')
    if len(pi) >= 3 and pi[2] == 'NA':
        pm = m.split(' | ')
        if len(pm) >= 3:
            pm[2] = 'NA'
            if not NA_SEEN:
                NA_SEEN.append(1)
            return i, ' | '.join(pm)
    return i, m


# ---------------------------------------------------------------- oracle

def _oracle(cap, ops, second_pass=True):
    """C12 stated on the implementation's own behaviour for one history.
    Returns a list of (clause, text)."""
    utils = impl()
    sem = Safe(utils.SlidingWindowSemaphore(cap))
    g = Ghost()
    fails = []
    results = []

    def fail(clause, text):
        if clause not in [c for c, _ in fails]:
            fails.append((clause, text))

    for i, o in enumerate(ops):
        where = f'op {i} ({op_str(o)}) of cap={cap} [{" ".join(op_str(x) for x in ops)}]'
        before = count_of(sem)
        r = do_op(utils, sem, o) if before is not None else 'HANG'
        after = count_of(sem) if r != 'HANG' else None
        results.append(r)
        if before is None or (r != 'HANG' and after is None) or (r == 'HANG' and o[0] == 'r'):
            fail('operation-never-returns', f'{where}: {sem.hung} did not return (the semaphore is wedged: every later '
                                            f'operation on it waits for ever); results so far {results}')
            return fails
        if r == 'HANG':
            if o[0] == 'a':
                fail('nonblocking-acquire-waits', f'{where}: a NON-blocking acquire (flag {0 if o[1] % 2 else False!r}) waited at '
                                                  f'current_count()={before} instead of raising NoResourcesAvailable')
            else:
                fail('acquire-waits-with-capacity', f'{where}: blocking acquire waited although current_count()={before}')
            return fails
        if o[0] in 'ab':
            if before == 0 and r not in ('N', 'B'):
                fail('acquire-at-zero', f'{where}: acquire at count 0 returned {r}')
            if before != 0 and not r.startswith('k'):
                fail('acquire-with-capacity-refused', f'{where}: count {before} but acquire gave {r}')
            if r in ('N', 'B') and after != before:
                fail('rejected-op-changed-count', f'{where}: count {before}->{after} on a failed acquire')
            if r.startswith('k'):
                want = g.granted.get(o[1], 0)
                if r != 'k' + hx(want):
                    fail('token-order', f'{where}: grant number {want} of tag {o[1]} returned token {r[1:]}')
                if after != before - 1:
                    fail('acquire-count', f'{where}: count {before}->{after} on a grant')
        else:
            tag, k = o[1], o[2]
            n = g.granted.get(tag, 0)
            if r == 'V' and after != before:
                fail('rejected-op-changed-count', f'{where}: count {before}->{after} on a rejected release')
            if n == 0 and r == 'O':
                fail('unknown-tag-accepted', f'{where}: release for a tag never acquired was accepted')
            elif g.wf and not (0 <= k < n) and r == 'O':
                if n >= 1 and k == n and g.least_unreleased(tag) >= n:
                    fail(EDGE_SIG, f'{where}: token {k} of tag {tag} was never issued (tokens 0..{n - 1} issued, all '
                                   f'released) but release was accepted; count {before}->{after}, capacity {cap}')
                else:
                    fail('never-issued-accepted', f'{where}: token {k} of tag {tag} was never issued '
                                                  f'({n} issued) but release was accepted')
            elif g.wf and 0 <= k < n and (tag, k) not in g.released and r != 'O':
                fail('valid-release-rejected', f'{where}: first release of an issued token gave {r}')
        g.on(o, r)
        if g.wf:
            want = cap - g.outstanding()
            if after != want:
                fail('capacity-formula', f'{where}: current_count()={after}, capacity formula gives {want} '
                                         f'(granted {dict(g.granted)}, released {sorted(g.released)})')
            if g.quiescent() and after != cap:
                fail('quiescence', f'{where}: all issued tokens released but count {after} != {cap}')
    # rejected operations leave later behaviour unchanged: the history without them
    if second_pass and any(r in ('N', 'B', 'V') for r in results):
        keep = [j for j, r in enumerate(results) if r not in ('N', 'B', 'V')]
        sem2 = Safe(utils.SlidingWindowSemaphore(cap))
        res2 = [do_op(utils, sem2, ops[j]) for j in keep]
        if res2 != [results[j] for j in keep] or count_of(sem2) != count_of(sem):
            fail('rejected-op-later-behaviour',
                 f'cap={cap} [{" ".join(op_str(x) for x in ops)}]: results {results}; without the rejected '
                 f'operations the others give {res2}, final count {count_of(sem2)} vs {count_of(sem)}')
    return fails


def shrink(cap, ops, clause):
    """Delta-debugging: drop chunks (halving sizes down to single operations)
    while the same clause still fails."""
    ops = list(ops)

    def bad(c):
        return any(x == clause for x, _ in oracle(cap, c))
    size = max(1, len(ops) // 2)
    budget = 600
    while size >= 1 and budget > 0:
        i, changed = 0, False
        while i < len(ops) and budget > 0:
            cand = ops[:i] + ops[i + size:]
            budget -= 1
            if bad(cand):
                ops, changed = cand, True
            else:
                i += size
        if not changed or size > 1:
            size = size // 2 if size > 1 else (1 if changed else 0)
    return ops


def report_oracle(ctx, cap, ops, extra=None):
    """Run the oracle on a history; report every failing clause.  True if any."""
    fs = oracle(cap, ops)
    done = ctx.__dict__.setdefault('c12_reported', {})
    for clause, text in fs:
        # one report per clause class is shrunk; afterwards only distinct clauses are new information
        if done.get(clause, 0) >= (1 if clause == EDGE_SIG else 3):
            continue
        done[clause] = done.get(clause, 0) + 1
        small = shrink(cap, ops, clause)
        text2 = [t for c, t in oracle(cap, small) if c == clause]
        if clause == EDGE_SIG:
            sig = EDGE_SIG
        else:
            sig = f'sw:{clause}:cap={cap}:{" ".join(op_str(o) for o in small)}'
        rep = {'kind': 'history', 'component': 'SlidingWindowSemaphore', 'clause': clause,
               'case': case_json((cap, small)), 'found_in': case_json((cap, list(ops)))}
        if extra:
            rep.update(extra)
        ctx.report(sig, (text2 or [text])[0], rep)
    return bool(fs)


# ---------------------------------------------------------------- case streams

def exhaustive_cases(ctx):
    """All histories over tags {0,1}, tokens 0..3, capacities 1..3 (generator)."""
    base = [('a', 0), ('a', 1)] + [('r', t, k) for t in (0, 1) for k in range(4)]
    withb = base + [('b', 0), ('b', 1)]
    nmax = 6 if ctx.thorough() else 5
    for cap in (1, 2, 3):
        for n in range(0, nmax + 1):
            # blocking acquires double the alphabet's acquire part: enumerated one length shorter
            alpha = withb if n < nmax else base
            for seq in itertools.product(alpha, repeat=n):
                yield (cap, seq)


def chunks(it, n):
    buf = []
    for x in it:
        buf.append(x)
        if len(buf) == n:
            yield buf
            buf = []
    if buf:
        yield buf


def random_valid(ctx, rng, maxlen):
    cap = rng.choice([1, 2, 3, 3, 4, 5])
    tags = [rng.randrange(0, 40)]
    while len(tags) < 3:
        t = rng.randrange(0, 40)
        if t not in tags:
            tags.append(t)
    n = rng.randrange(1, maxlen + 1)
    nxt, released, outstanding = {}, set(), []
    ops = []

    def low(t):
        k = 0
        while (t, k) in released:
            k += 1
        return k

    def count():
        return cap - sum(nxt[t] - min(low(t), nxt[t]) for t in nxt)
    p_acq = rng.choice([0.35, 0.5, 0.65])
    p_ooo = rng.choice([0.0, 0.3, 0.6])
    while len(ops) < n:
        u = rng.random()
        if u < 0.04:      # a sprinkle of operations that must be rejected
            t = rng.choice(tags + [99])
            kind = rng.randrange(4)
            if kind == 0:
                ops.append(('r', 99, rng.randrange(0, 3)))            # unknown tag
            elif kind == 1:
                ops.append(('r', t, nxt.get(t, 0) + rng.randrange(1, 4)))   # never issued (above next)
            elif kind == 2:
                ops.append(('r', t, -rng.randrange(1, 3)))
            else:
                lo = low(t) if t in nxt else 0
                ops.append(('r', t, rng.randrange(0, lo)) if lo > 0 else ('r', 99, 0))  # already drained
            continue
        if u < p_acq or not outstanding:
            t = rng.choice(tags)
            b = 'b' if rng.random() < 0.25 else 'a'
            ops.append((b, t))
            if count() > 0:
                k = nxt.get(t, 0)
                nxt[t] = k + 1
                outstanding.append((t, k))
            continue
        if rng.random() < p_ooo:
            j = rng.randrange(len(outstanding))
        else:             # the lowest outstanding token of some tag
            t = rng.choice(sorted({t for t, _ in outstanding}))
            j = min((k, i) for i, (tt, k) in enumerate(outstanding) if tt == t)[1]
        t, k = outstanding.pop(j)
        released.add((t, k))
        ops.append(('r', t, k))
    if rng.random() < 0.7:    # drain to quiescence
        rng.shuffle(outstanding)
        for t, k in outstanding:
            ops.append(('r', t, k))
    return (cap, tuple(ops))


def random_malformed(ctx, rng, maxlen):
    cap = rng.choice([1, 2, 3, 4])
    tags = [0, 1, 2]
    n = rng.randrange(1, maxlen + 1)
    ops = []
    for _ in range(n):
        u = rng.random()
        if u < 0.4:
            ops.append((rng.choice('aab'), rng.choice(tags)))
        elif u < 0.5:
            ops.append(('r', rng.choice([7, 8, -1]), rng.randrange(-1, 3)))       # unknown tags
        elif u < 0.85:
            ops.append(('r', rng.choice(tags), rng.randrange(-1, 7)))             # any token, repeats likely
        else:
            prev = [o for o in ops if o[0] == 'r']
            ops.append(rng.choice(prev) if prev else ('r', 0, 0))                 # double release
    return (cap, tuple(ops))


def nontrivial_key(case, out):
    """Non-trivial: at least one grant and one accepted release."""
    head = out.split(' | ')[0].split()
    if 'O' in head and any(x.startswith('k') for x in head):
        return line_S(case)
    return None


def hist_S(stream):
    def h(case, out):
        parts = out.split(' | ')
        return {'stream': stream, 'wf': parts[-1].split()[0][3:] if parts[-1].startswith('wf=') else '?'}
    return h


# ---------------------------------------------------------------- TaskSemaphore

def run_impl_T(case):
    utils = impl()
    cap, ops = case
    sem = utils.TaskSemaphore(cap)
    out = []
    for o in ops:
        if o == 'r':
            sem.release('t', None)
            out.append('R')
        elif o == 'b' and names.semaphore_free(sem) == 0:
            out.append('B')
        else:
            try:
                r = guarded(sem.acquire, 't', True) if o == 'b' else sem.acquire('t', False)
                out.append('A' if r is None else f'A?{r!r}')
            except utils.NoResourcesAvailable:
                out.append('N')
            except Hang:
                out.append('HANG')
    return ' '.join(out) + ' | ' + hx(names.semaphore_free(sem))


def oracle_T(cap, ops):
    out = run_impl_T((cap, ops))
    res, val = out.split(' | ')
    res = res.split()
    v = cap
    for o, r in zip(ops, res):
        if o == 'r':
            v += 1
        elif v == 0:
            if r != ('B' if o == 'b' else 'N'):
                return f'TaskSemaphore({cap}) {"".join(ops)}: acquire at value 0 gave {r}'
        else:
            if r != 'A':
                return f'TaskSemaphore({cap}) {"".join(ops)}: acquire at value {v} gave {r}'
            v -= 1
    if unhx(val) != v:
        return f'TaskSemaphore({cap}) {"".join(ops)}: value {unhx(val)}, acquires/releases give {v}'
    return None


# ---------------------------------------------------------------- real threads

class Worker:
    def __init__(self, sem, tag):
        self.token = None
        self.exc = None
        self.sem, self.tag = sem, tag
        self.th = threading.Thread(target=self._run, daemon=True)

    def _run(self):
        try:
            self.token = self.sem.acquire(self.tag, True)
        except Exception as e:      # noqa
            self.exc = e

    def blocked(self, t=0.15):
        self.th.join(t)
        return self.th.is_alive()

    def done(self, t=5.0):
        self.th.join(t)
        return not self.th.is_alive()


THREAD_SCENARIOS = [
    # (name, capacity, script); script items:
    #  ('acq', tag)            main thread, non-blocking
    #  ('spawn', tid, tag)     helper thread calls acquire(tag, blocking=True); must be seen waiting
    #  ('rel', tag, k, wakes)  main releases; wakes: True if exactly one sleeping helper must finish
    #                          its acquire afterwards (whichever notify picks), False if none may
    ('one-waiter', 1, [('acq', 1), ('spawn', 10, 1), ('rel', 1, 0, True), ('rel', 1, 1, False)]),
    ('out-of-order-does-not-wake', 2,
     [('acq', 1), ('acq', 1), ('spawn', 10, 2), ('rel', 1, 1, False), ('rel', 1, 0, True), ('rel', 2, 0, False)]),
    ('single-notify-two-waiters', 2,
     [('acq', 1), ('acq', 1), ('spawn', 10, 2), ('spawn', 11, 2), ('rel', 1, 1, False),
      ('rel', 1, 0, True),          # frees two permits, one notify: the other thread sleeps on with count 1
      ('rel', 2, 0, True), ('rel', 2, 1, False)]),
    ('waiters-same-tag', 1, [('acq', 5), ('spawn', 10, 5), ('spawn', 11, 5), ('rel', 5, 0, True),
                             ('rel', 5, 1, True), ('rel', 5, 2, False)]),
    ('rejected-release-does-not-wake', 1,
     [('acq', 1), ('spawn', 10, 1), ('rel', 1, 5, False), ('rel', 9, 0, False), ('rel', 1, 0, True),
      ('rel', 1, 1, False)]),
]


class MainGuard:
    """The main thread's calls on the real semaphore, each bounded by the alarm (helper
    threads call the object itself: they are meant to wait)."""

    def __init__(self, sem):
        self.sem, self.doing = sem, None

    def _call(self, what, fn, *a):
        self.doing = what
        r = guarded(fn, *a)
        self.doing = None
        return r

    def acquire(self, tag, blocking=True):
        return self._call(f'acquire({tag}, {blocking})', self.sem.acquire, tag, blocking)

    def release(self, tag, token):
        return self._call(f'release({tag}, {token})', self.sem.release, tag, token)

    def current_count(self):
        return self._call('current_count()', self.sem.current_count)


def run_thread_scenario(ctx, name, cap, script, use_model=True):
    """Drive the real class with real threads; build the SemaConc schedule the
    observation corresponds to; compare.  Returns failure text or None."""
    utils = impl()
    for attempt in (0, 1):
        raw = utils.SlidingWindowSemaphore(cap)
        sem = MainGuard(raw)
        try:
            return _run_thread_scenario(ctx, name, cap, script, use_model, utils, raw, sem)
        except Hang:
            if attempt == 1:      # it waited on a fresh object again: not a stall of the machine
                return (f'{name}: {sem.doing} in the main thread did not return within {WAIT_LIMIT} s although it never '
                        f'has to wait (script {script})')


def _run_thread_scenario(ctx, name, cap, script, use_model, utils, raw, sem):
    import time
    workers = {}
    labels, obs = [], []

    def asleep():
        return [tid for tid, w in workers.items() if w.th.is_alive()]
    for st in script:
        if st[0] == 'acq':
            try:
                obs.append('k' + hx(sem.acquire(st[1], False)))
            except utils.NoResourcesAvailable:
                obs.append('N')
            labels.append(f'N0:{hx(st[1])}')
        elif st[0] == 'spawn':
            w = Worker(raw, st[2])
            workers[st[1]] = w
            w.th.start()
            if not w.blocked():
                return (f'{name}: blocking acquire at current_count()={sem.current_count()} returned '
                        f'{w.token!r} instead of waiting')
            obs.append('B')
            labels.append(f'A{hx(st[1])}:{hx(st[2])}')
        else:
            _, tag, k, wakes = st
            before = asleep()
            try:
                sem.release(tag, k)
                obs.append('O')
            except ValueError:
                obs.append('V')
            woke = []
            if wakes:
                t_end = time.time() + 5.0
                while time.time() < t_end and not woke:
                    woke = [tid for tid in before if not workers[tid].th.is_alive()]
                    if not woke:
                        time.sleep(0.005)
                if not woke:
                    return (f'{name}: threads {before} still blocked 5 s after release({tag},{k}) made '
                            f'current_count()={sem.current_count()} (lost wake-up)')
            time.sleep(0.1)      # anybody else who should have stayed asleep
            woke = [tid for tid in before if not workers[tid].th.is_alive()]
            if len(woke) != (1 if wakes else 0):
                return (f'{name}: after release({tag},{k}) threads {woke} finished their acquire; '
                        f'{"exactly one" if wakes else "none"} of {before} should (single notify in the lowest branch only)')
            if woke:
                w = workers[woke[0]]
                if w.exc is not None:
                    return f'{name}: blocked acquire raised {w.exc!r}'
                labels.append(f'R{hx(tag)}:{hx(k)}:{hx(woke[0])}')
                labels.append(f'W{hx(woke[0])}')
                obs.append('k' + hx(w.token))
            else:
                labels.append(f'R{hx(tag)}:{hx(k)}:-')
    still = sorted(asleep())
    line = ' '.join(['C', hx(cap)] + labels)
    got = [' '.join(obs), hx(sem.current_count()), ','.join(hx(t) for t in still), '', 'wf=1']
    if not use_model:       # oracle only: waiting at zero, exactly-one wake-up, no lost wake-up were checked above
        ctx.count('sema-threads', 1, nontrivial_key=line, scenario=name)
        if still or sem.current_count() != cap:
            return f'{name}: at the end threads {still} are blocked and current_count()={sem.current_count()} (capacity {cap})'
        return None
    model_raw = common.run_model('sema', [line])[0]
    model = [f.strip() for f in model_raw.split('|')]
    if len(model) == 5:
        model[2] = ','.join(hx(t) for t in sorted(unhx(x) for x in model[2].split(',') if x))
    ctx.count('sema-threads', 1, nontrivial_key=line, scenario=name)
    ctx.cov['traces_validated_against_impl'] = ctx.cov.get('traces_validated_against_impl', 0) + 1
    ctx.sample({'component': 'sema-threads', 'scenario': name, 'schedule': line, 'observed': ' | '.join(got),
                'model': model_raw})
    if got != model:
        return f'{name}: real threads observed "{" | ".join(got)}", SemaConc says "{model_raw}" for schedule "{line}"'
    return None


# ---------------------------------------------------------------- end to end

def manager_semaphores(m, cfg):
    """[(name, current value, configured value)] for every semaphore of the manager."""
    from s3transfer.manager import TransferManager  # noqa
    from s3transfer.utils import SlidingWindowSemaphore
    out = []

    def val(s):
        if isinstance(s, SlidingWindowSemaphore):
            return s.current_count()
        return names.semaphore_free(s)
    stages = names.manager_stages(m)
    out.append(('request', val(names.executor_semaphore(stages['req'])), cfg.max_request_queue_size))
    tags = names.executor_tag_semaphores(stages['req'])
    from s3transfer import manager as mg
    want = {mg.IN_MEMORY_UPLOAD_TAG: cfg.max_in_memory_upload_chunks,
            mg.IN_MEMORY_DOWNLOAD_TAG: cfg.max_in_memory_download_chunks}
    for k in sorted(tags, key=lambda t: t.name):
        s = tags[k]
        out.append(('tag:' + k.name, val(s), want.get(k)))
        if isinstance(s, SlidingWindowSemaphore):
            st = names.sliding_window_state(s)
            if st is not None:
                try:
                    nxt_, low_, pend_ = st
                    pend = sorted((t, list(v)) for t, v in pend_.items() if v)
                    lag = sorted(t for t, n in nxt_.items() if low_[t] != n)
                    out.append(('tag:' + k.name + ':pending+unreleased', (pend, lag), ([], [])))
                except Exception:
                    pass
    out.append(('submission', val(names.executor_semaphore(stages['sub'])), cfg.max_submission_queue_size))
    out.append(('io', val(names.executor_semaphore(stages['io'])), cfg.max_io_queue_size))
    return out


E2E_SCENARIOS = []
for _ex in ('nonthreaded', 'threaded'):
    for _kind in ('upload', 'download', 'copy', 'mixed'):
        for _fault in (None, 'fault', 'cancel'):
            E2E_SCENARIOS.append({'executor': _ex, 'transfer': _kind, 'disturb': _fault})


def run_e2e(sc, sizes=(0, 3, 9, 14)):
    """Run real transfers; return [(semaphore, value, configured)] that are off,
    or a text when the run did not finish."""
    from harness.fakes3 import FakeS3, FakeFault, NonSeekableReader, NonSeekableWriter
    from s3transfer.manager import TransferManager, TransferConfig
    from s3transfer.futures import NonThreadedExecutor
    cfg = TransferConfig(multipart_threshold=4, multipart_chunksize=2, io_chunksize=1,
                         max_request_concurrency=3, max_submission_concurrency=2,
                         max_request_queue_size=4, max_submission_queue_size=5, max_io_queue_size=3,
                         max_in_memory_upload_chunks=2, max_in_memory_download_chunks=6,   # all five capacities distinct
                         num_download_attempts=2)
    c = FakeS3()
    data = bytes(range(64))
    for s in sizes:
        c.objects[('sb', f'k{s}')] = data[:s]
    if sc['disturb'] == 'fault':
        def fault(rec, when):
            kw = rec['kwargs']
            if when == 'before' and (
                    (rec['op'] in ('UploadPart', 'UploadPartCopy') and kw.get('PartNumber') == 2) or
                    (rec['op'] == 'GetObject' and kw.get('Range', '').startswith('bytes=2-'))):
                return FakeFault('c12')
            return None
        c.fault = fault
    kw = {'executor_cls': NonThreadedExecutor} if sc['executor'] == 'nonthreaded' else {}
    result = {}

    def body():
        m = TransferManager(c, cfg, **kw)
        futs = []
        try:
            for s in sizes:
                kinds = ['upload', 'download', 'copy'] if sc['transfer'] == 'mixed' else [sc['transfer']]
                for kind in kinds:
                    try:
                        if kind == 'upload':
                            futs.append(m.upload(io.BytesIO(data[:s]), 'b', f'u{s}'))
                            futs.append(m.upload(NonSeekableReader(data[:s]), 'b', f'n{s}'))
                        elif kind == 'download':
                            futs.append(m.download('sb', f'k{s}', io.BytesIO()))
                            futs.append(m.download('sb', f'k{s}', NonSeekableWriter()))
                        else:
                            futs.append(m.copy({'Bucket': 'sb', 'Key': f'k{s}'}, 'b', f'c{s}'))
                    except Exception:   # submission of a failing transfer may raise in non-threaded mode
                        pass
                    if sc['disturb'] == 'cancel' and futs and len(futs) % 2 == 0:
                        futs[-1].cancel()
            for f in futs:
                try:
                    f.result()
                except BaseException:
                    pass
        finally:
            m.shutdown()
        result['n'] = len(futs)
        result['sems'] = manager_semaphores(m, cfg)

    th = threading.Thread(target=body, daemon=True)
    th.start()
    th.join(STUCK_S)
    if th.is_alive():
        return None, f'transfers did not finish within {STUCK_S} s: a thread is blocked for ever ({sc})'
    if 'sems' not in result:
        return None, f'manager run crashed ({sc})'
    return result, None


STUCK_S = 15


def e2e_child():
    """Child process: run the scenarios given on stdin, one JSON answer per line.
    (A stuck transfer leaves non-daemon pool threads behind: the child leaves with
    os._exit, the parent kills it on a time-out.)"""
    import json
    import sys
    common.setup_repo_path()
    stuck = 0
    for sc in json.load(sys.stdin):
        if stuck >= 2:      # each stuck run costs STUCK_S and leaves blocked threads behind
            print(json.dumps({'sc': sc, 'err': None, 'skipped': True, 'n': None, 'sems': None}), flush=True)
            continue
        try:
            res, err = run_e2e(sc)
        except BaseException as e:   # noqa
            res, err = None, f'manager run crashed: {e!r}'
        if err:
            stuck += 1
        print(json.dumps({'sc': sc, 'err': err, 'n': res['n'] if res else None,
                          'sems': [[n, repr(v), repr(w)] for n, v, w in res['sems']] if res else None}), flush=True)
    sys.stdout.flush()
    os._exit(0)


def run_e2e_isolated(scs):
    """-> [(scenario, result dict or None, error text or None)]"""
    import json
    import subprocess
    import sys
    out = []
    try:
        p = subprocess.run([sys.executable, '-c', 'from harness.props import c12; c12.e2e_child()'],
                           input=json.dumps(scs), stdout=subprocess.PIPE, stderr=subprocess.PIPE, text=True,
                           timeout=STUCK_S * len(scs) + 60, cwd=common.VERIF)
        lines, errtxt = p.stdout.splitlines(), p.stderr[-600:]
    except subprocess.TimeoutExpired as e:
        so = e.stdout or ''
        lines = (so.decode() if isinstance(so, bytes) else so).splitlines()
        errtxt = 'child timed out'
    answers = {}
    for l in lines:
        try:
            j = json.loads(l)
            answers[json.dumps(j['sc'], sort_keys=True)] = j
        except ValueError:
            pass
    for sc in scs:
        j = answers.get(json.dumps(sc, sort_keys=True))
        if j is None:
            out.append((sc, None, f'end-to-end child gave no answer for {sc}: {errtxt}'))
        elif j.get('skipped'):
            continue
        elif j['err']:
            out.append((sc, None, j['err']))
        else:
            out.append((sc, j, None))
    return out


def end_to_end(ctx):
    last = None
    for sc, res, err in run_e2e_isolated(E2E_SCENARIOS):
        name = f"{sc['executor']}/{sc['transfer']}/{sc['disturb'] or 'clean'}"
        if err:
            ctx.report(f'e2e:{name}:stuck', err, {'kind': 'schedule', 'component': 'TransferManager',
                                                  'case': dict(sc, kind='e2e')})
            continue
        off = [(n, v, w) for (n, v, w) in res['sems'] if v != w]
        ctx.count('sema-e2e', 1, nontrivial_key=name, executor=sc['executor'], disturb=sc['disturb'] or 'clean',
                  transfers=res['n'])
        last = (sc, res)
        if off:
            ctx.report(f'e2e:{name}:' + ','.join(n for n, _, _ in off),
                       f'after {res["n"]} transfers ({name}) and shutdown, semaphores not back at their configured '
                       f'value (name, value, configured): {off}',
                       {'kind': 'schedule', 'component': 'TransferManager', 'case': dict(sc, kind='e2e')})
    if last:
        ctx.sample({'component': 'sema-e2e', 'scenario': last[0], 'transfers': last[1]['n'],
                    'semaphores_after_shutdown (name, value, configured)': last[1]['sems']})


# ---------------------------------------------------------------- run

def streams(ctx):
    rng = ctx.rng('valid')
    nv = 20000 if ctx.thorough() else 1500
    valid = [random_valid(ctx, rng, 200) for _ in range(nv)]
    rng = ctx.rng('malformed')
    nm = 20000 if ctx.thorough() else 1500
    malformed = [random_malformed(ctx, rng, 60) for _ in range(nm)]
    return valid, malformed


def corpus_cases():
    out = []
    d = os.path.join(common.VERIF, 'corpus', 'sema')
    if os.path.isdir(d):
        import glob
        import json
        for p in sorted(glob.glob(os.path.join(d, '*.json'))):
            j = json.load(open(p))
            out.append((j['cap'], tuple(op_parse(s) for s in j['ops'])))
    return out


# used only when corpus/sema/ is missing
BUILTIN_CORPUS = [
    (2, (('a', 7), ('r', 7, 0), ('r', 7, 1))),                                     # F13: must be rejected
    (3, (('a', 1), ('a', 1), ('a', 1), ('r', 1, 2), ('r', 1, 1), ('r', 1, 0))),    # run of three drained at once
]


def run(ctx):
    ok = common.proofs(ctx, 'C12', EXTRACT, COMPONENTS)
    ctx.assumptions = [
        'every acquire/release body runs under the one lock of the semaphore (utils.py:699,723), so each is an atomic '
        'step of the model; threading.Condition.wait/notify have their documented semantics (notify wakes at most one '
        'waiter that is asleep; spurious wake-ups allowed in the model)',
        'well-formed histories for the window theorems: every accepted release names a token that was granted and whose '
        'release was not accepted before (checkable predicate wf in coq/model/Sema.v); the code does not defend against a '
        'double release of a pending token, the property does not ask it to',
        'a blocking acquire at count 0 is not executed in the mass differential (it would wait): the harness reads '
        'current_count()==0 and records "would block"; real waiting/waking is observed with real threads in '
        f'{len(THREAD_SCENARIOS)} fixed scenarios replayed through SemaConc (join time-outs 0.15 s / 5 s)',
        'scheduled concurrency: the scheduler\'s Lock/Condition stand in for threading\'s (s3transfer.utils.threading replaced '
        'while the semaphore is built); code between two lock operations of one thread is treated as one step (it touches '
        'only thread-local data unless a shared read is hoisted out of the lock, which the yield before Lock.acquire exposes)',
        'tags and tokens are integers (the executor passes transfer ids and the returned sequence numbers)',
        'the extracted OCaml model and its line driver are trusted for the correspondence only',
    ]
    ctx.cov['rule'] = ('histories = (capacity, list of acquire(tag, blocking)/release(tag, token)); exhaustive over 2 tags, '
                       'tokens 0..3, capacities 1..3 up to length 5 (quick; blocking variants up to 4) / 6 (thorough); random '
                       'mostly-valid histories up to length 200 over 3 tags (releases of outstanding tokens, lowest-first or '
                       'out of order, a sprinkle of must-reject operations, drained to quiescence); malformed histories '
                       '(unknown tags, never-issued and negative tokens, double releases).  Each is run on the real class and on '
                       'the extracted Coq model: results of every op, final count, per-tag next/lowest/pending, wf and '
                       'quiescence flags.  Distinct non-trivial = distinct history with at least one grant and one accepted '
                       'release.  TaskSemaphore: all a/b/r strings up to length 7 (thorough 10), capacities 0..3.  Threads: fixed scenarios. '
                       'Scheduler: 2-4 managed threads run acquire/release programs on one real semaphore whose Lock/Condition are '
                       'the cooperative scheduler\'s (every Lock.acquire, also the one inside Condition.wait, is a yield point); every '
                       'schedule of the small program sets (quick: those marked small; thorough: all), bounded DFS + random + PCT '
                       'schedules otherwise and for random programs; after every step 0 <= count and outstanding <= capacity on the '
                       'real object, no waiting inside a non-blocking acquire, the critical sections in lock order replayed through '
                       'SemaConc (results, final count, sleeping threads), quiescent deadlock = lost wake-up; distinct = distinct '
                       '(programs, linearisation).  '
                       'End to end: real TransferManager runs (threaded and non-threaded, with faults and cancels), every '
                       'semaphore compared with its configured value after shutdown.')
    utils = impl()
    mism = []

    if ctx.broken is None:
        # ---- A. corpus, exhaustive, random, malformed
        corp = corpus_cases() or BUILTIN_CORPUS
        mism += common.differential(ctx, 'sema', corp, line_S, run_impl_S, key=nontrivial_key, canon=canon_S, hist=hist_S('corpus'))
        n_ex = n_or = 0
        for cap, ops in corp:
            n_or += 1
            if oracle(cap, ops):
                report_oracle(ctx, cap, ops)
        step = 2 if ctx.thorough() else 6
        for ex in chunks(exhaustive_cases(ctx), 200000):
            mism += common.differential(ctx, 'sema', ex, line_S, run_impl_S, key=nontrivial_key, canon=canon_S,
                                        hist=hist_S('exhaustive'))[:40]
            # the oracle on the same histories (it may catch what the model agrees with)
            for j, (cap, ops) in enumerate(ex):
                if len(ops) <= 4 or (n_ex + j) % step == 0:
                    n_or += 1
                    if oracle(cap, ops):
                        report_oracle(ctx, cap, ops)
            n_ex += len(ex)
        ctx.cov['exhaustive_part'] = ('stream=exhaustive enumerates its bounded space completely '
                                      f'({n_ex} histories); the other streams are samples')
        valid, malformed = streams(ctx)
        mism += common.differential(ctx, 'sema', valid, line_S, run_impl_S, key=nontrivial_key, canon=canon_S, hist=hist_S('valid'))
        mism += common.differential(ctx, 'sema', malformed, line_S, run_impl_S, key=nontrivial_key, canon=canon_S,
                                    hist=hist_S('malformed'))
        ctx.sample({'component': 'sema', 'stream': 'valid', 'model_cmd': line_S(valid[0])[:400],
                    'impl_and_model_output': run_impl_S(valid[0])[:400]}, limit=4)
        # ---- B. TaskSemaphore
        tcases = [(cap, seq) for cap in (0, 1, 2, 3) for n in range(0, (10 if ctx.thorough() else 7) + 1)
                  for seq in itertools.product('abr', repeat=n)]
        tm = common.differential(ctx, 'sema', tcases, lambda c: ' '.join(['T', hx(c[0])] + list(c[1])),
                                 run_impl_T, key=lambda c, o: ('T', c) if 'A' in o and 'R' in o else None,
                                 hist=lambda c, o: {'stream': 'task-semaphore'})
        for c, i, m in tm[:20]:
            r = oracle_T(c[0], c[1])
            if r:
                ctx.report(f'task:{c[0]}:{"".join(c[1])}', r, {'kind': 'history', 'component': 'TaskSemaphore',
                                                             'case': {'kind': 'T', 'cap': c[0], 'ops': list(c[1])}})
            else:
                ctx.report('corr:sema-task', f'model and TaskSemaphore disagree for {c}: impl={i} model={m}',
                           {'kind': 'correspondence', 'theorem_or_correspondence': 'differential sema/TaskSemaphore',
                            'case': {'kind': 'T', 'cap': c[0], 'ops': list(c[1])}, 'impl': i, 'model': m}, no_input=True)
        for c in tcases[:: 7]:
            r = oracle_T(c[0], c[1])
            if r:
                ctx.report(f'task:{c[0]}:{"".join(c[1])}', r, {'kind': 'history', 'component': 'TaskSemaphore',
                                                             'case': {'kind': 'T', 'cap': c[0], 'ops': list(c[1])}})
        # ---- C. the oracle on the generated histories (it may catch what the model agrees with)
        for cap, ops in valid[::2] + malformed[::2]:
            n_or += 1
            if oracle(cap, ops, second_pass=(n_or % 3 == 0)):
                report_oracle(ctx, cap, ops)
        ctx.cov['oracle_evaluations'] = n_or
        # ---- D. real threads against SemaConc
        for name, cap, script in THREAD_SCENARIOS:
            r = run_thread_scenario(ctx, name, cap, script)
            if r:
                ctx.report(f'threads:{name}', r, {'kind': 'schedule', 'component': 'SlidingWindowSemaphore+threads',
                                                  'case': {'kind': 'threads', 'name': name}})
        # ---- E. real concurrency under the cooperative scheduler, linearisations replayed through SemaConc
        c12conc.explore(ctx)
        # ---- F. end to end
        end_to_end(ctx)
        # ---- G. quiescence under the cooperative scheduler: mixed transfers with failures, cancels and
        # the user leaving / being interrupted while work is in flight; every semaphore back at capacity
        scheduled_quiescence(ctx)

    # every mismatch: does the property fail on the implementation?
    for (case, i, m) in mism[:40]:
        cap, ops = case
        if not report_oracle(ctx, cap, ops, {'impl': i, 'model': m}):
            ctx.report('corr:sema:SlidingWindowSemaphore',
                       f'model and implementation disagree on [{line_S(case)}]: impl="{i}" model="{m}"',
                       {'kind': 'correspondence', 'theorem_or_correspondence': 'differential sema/SlidingWindowSemaphore',
                        'case': case_json(case), 'impl': i, 'model': m}, no_input=True)
    if ctx.broken is not None:
        search_after_break(ctx)


def search_after_break(ctx):
    """A proof obligation or the build broke: look for a concrete failing history."""
    before = len(ctx.violations)
    base = [('a', 0), ('a', 1)] + [('r', t, k) for t in (0, 1) for k in range(4)]
    n = 0
    for cap in (1, 2, 3):
        for ln in range(0, 5):
            for seq in itertools.product(base, repeat=ln):
                n += 1
                if oracle(cap, seq, second_pass=False):
                    report_oracle(ctx, cap, seq, {'broken': ctx.broken.what})
    rng = ctx.rng('search')
    for _ in range(400):
        cap, ops = random_valid(ctx, rng, 80)
        n += 1
        if oracle(cap, ops):
            report_oracle(ctx, cap, ops, {'broken': ctx.broken.what})
    for cap in (0, 1, 2):
        for ln in range(0, 7):
            for seq in itertools.product('abr', repeat=ln):
                r = oracle_T(cap, seq)
                if r:
                    ctx.report(f'task:{cap}:{"".join(seq)}', r, {'kind': 'history', 'component': 'TaskSemaphore',
                                                                'case': {'kind': 'T', 'cap': cap, 'ops': list(seq)}})
    for name, cap, script in THREAD_SCENARIOS:
        r = run_thread_scenario(ctx, name, cap, script, use_model=False)
        if r:
            ctx.report(f'threads:{name}', r, {'kind': 'schedule', 'component': 'SlidingWindowSemaphore+threads',
                                              'case': {'kind': 'threads', 'name': name}, 'broken': ctx.broken.what})
    c12conc.explore(ctx, use_model=False)
    for sc, res, err in run_e2e_isolated(E2E_SCENARIOS[::3]):
        off = [] if err else [(n_, v, w) for (n_, v, w) in res['sems'] if v != w]
        if err or off:
            nm = f"{sc['executor']}/{sc['transfer']}/{sc['disturb'] or 'clean'}"
            ctx.report(f'e2e:{nm}:' + ('stuck' if err else ','.join(x for x, _, _ in off)), err or
                       f'after shutdown semaphores not back at their configured value: {off}',
                       {'kind': 'schedule', 'component': 'TransferManager', 'case': dict(sc, kind='e2e'),
                        'broken': ctx.broken.what})
    ctx.count('sema-search', n, nontrivial_key=None)
    ctx.sample({'component': 'sema-search', 'note': 'oracle-only search after a broken build', 'histories': n})
    if len(ctx.violations) == before:
        ctx.report(f'broken:{ctx.broken.what}', ctx.broken.what,
                   {'kind': 'theorem', 'theorem_or_correspondence': ctx.broken.what, 'log': ctx.broken.log},
                   no_input=True)


def quiescence_mons():
    from harness.sched import monitors as M
    return [M.m_terminates, M.m_permits_restored]


def scheduled_quiescence(ctx):
    from harness.props import sysrun, c18
    specs = c18.specs(ctx)
    step = 2 if ctx.thorough() else 5
    # ... and transfers that fail because a stage's pool refuses a task (no new worker thread can be
    # started): the permit taken for the refused task has to come back as well
    faults = sysrun.specs_submit_fault(ctx, sysrun.KINDS[:: (1 if ctx.thorough() else 2)], seeds=1)
    sysrun.sub_runs(ctx, specs[::step] + faults, quiescence_mons())


def replay(ctx, data):
    case = data.get('case') or {}
    if isinstance(case, dict) and 'transfers' in case:
        from harness.props import sysrun
        return sysrun.replay_spec(ctx, data, quiescence_mons())
    kind = case.get('kind')
    if kind == 'S':
        ops = [op_parse(s) for s in case['ops']]
        fs = oracle(case['cap'], ops)
        for c, t in fs:
            print('oracle:', c, '--', t)
        want = data.get('clause')
        return any(c == want for c, _ in fs) if want else bool(fs)
    if kind == 'T':
        r = oracle_T(case['cap'], tuple(case['ops']))
        print('oracle:', r)
        return r is not None
    if kind == 'threads':
        have_model = common.proofs(ctx, 'C12', EXTRACT, COMPONENTS)
        for name, cap, script in THREAD_SCENARIOS:
            if name == case['name']:
                r = run_thread_scenario(ctx, name, cap, script, use_model=have_model)
                print('threads:', r)
                return r is not None
        return True
    if kind == 'conc':
        have_model = common.proofs(ctx, 'C12', EXTRACT, COMPONENTS)
        return c12conc.replay_case(ctx, case, use_model=have_model)
    if kind == 'e2e':
        sc = {k: case[k] for k in ('executor', 'transfer', 'disturb')}
        (_, res, err), = run_e2e_isolated([sc])
        if err:
            print(err)
            return True
        off = [(n, v, w) for (n, v, w) in res['sems'] if v != w]
        print('semaphores off:', off)
        return bool(off)
    # theorem/correspondence replays: re-run the quick check
    run(ctx)
    return bool(ctx.violations)
