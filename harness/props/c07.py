"""C07 -- cancellation is effective, clean and truthfully reported."""
from harness.props import sysrun
from harness.sched import monitors as M
from harness.props import c06

PROP_FILE = 'C07'


def mons():
    return [M.m_terminates, M.m_cancel, M.m_multipart_discipline, M.m_files, M.m_success_means_all_ok, M.m_callbacks]


def specs(ctx):
    pts = list(range(0, 140, 4 if ctx.thorough() else 10))
    hows = ['future', 'shutdown', 'exit_exc', 'exit_kbi', 'result_kbi', 'controller', 'exit_wait_kbi']
    s = sysrun.specs_cancel(ctx, sysrun.KINDS, hows, pts, seeds=2 if ctx.thorough() else 1)
    s += sysrun.specs_early_cancel(ctx, sysrun.KINDS[::2], seeds=2 if not ctx.thorough() else 4)
    s += sysrun.specs_torn_state(ctx, sysrun.MULTIPART + sysrun.KINDS[::4], seeds=1 if not ctx.thorough() else 3)
    # Ctrl-C while the shutdown wait is blocked on a second, still queued transfer
    rng = ctx.rng('c07-two')
    for i, ts in enumerate(sysrun.KINDS):
        for at in (3, 12, 30):
            s.append(dict(transfers=[ts, dict(sysrun.KINDS[(i + 3) % len(sysrun.KINDS)])],
                          cfg=dict(sysrun.CFG_SMALL, max_request_concurrency=1, max_submission_concurrency=1),
                          chooser=sysrun.chooser(rng, i), cancel=dict(how='exit_wait_kbi', at=at)))
    # a cancel whose clean-up itself meets a failure (every close() of the temp file raises): the remaining
    # clean-ups (the remove) and the other subscribers' on_done still run
    for ts in sysrun.PATH_DOWNLOADS:
        for at in (8, 20, 35, 50, 70):
            s.append(dict(transfers=[dict(ts, subs=[dict(raise_in=['done']), dict()])], cfg=sysrun.CFG_SMALL,
                          chooser=sysrun.chooser(rng, at), cancel=dict(how='shutdown', at=at, msg='stop it'),
                          fs_fault=dict(op='close', nth='all')))
    # serial mode (executor_cls=NonThreadedExecutor): Ctrl-C arrives inside a request made in the caller's own
    # thread; it must abort the call, never be parked in a task's future and followed by a reported success
    s += sysrun.specs_nonthreaded_interrupt(ctx, sysrun.KINDS[:: (1 if ctx.thorough() else 2)])
    return s


def run(ctx):
    sysrun.run_specs(ctx, PROP_FILE, specs(ctx), mons(), sampler=c06.SAMPLER,
                     rule='a cancel from each entry point (future.cancel, shutdown(cancel=True, cancel_msg), exception / Ctrl-C in the '
                          'with-block, Ctrl-C inside result(), controller) at every k-th scheduling point of every transfer type and mode; '
                          'checked: stored exception type and message, no S3 request when cancelled before start, cleanups (abort, temp file), '
                          'success only with a complete effect; distinct = distinct event trace')


def replay(ctx, data):
    return sysrun.replay_spec(ctx, data, mons(), sampler=c06.SAMPLER)
