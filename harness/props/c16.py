"""C16 -- streaming destinations are written strictly in order, each byte once.

Proof: coq/props/C16.v over coq/model/DeferQ.v (all consistent delivery
histories, no length bound).  Tie: differential of the real DeferQueue, of
GetObjectTask._handle_io -> DownloadNonSeekableOutputManager.queue_file_io_task
(recording FIFO IO executor + recording stream) and of
ImmediatelyWriteIOGetObjectTask._handle_io -> get_io_write_tasks against the
extracted model, on (a) every history of the statement's grammar in a small
scope, (b) random grammar histories, (c) a malformed stream (arbitrary offsets
and data); end-to-end TransferManager downloads to a non-seekable stream under
retryable faults.  Search oracle: the statement of C16 evaluated on what the
implementation writes, the contiguous frontier computed independently from the
delivered intervals.
"""
import concurrent.futures
import glob
import json
import os
import socket
import threading

from harness import common
from harness.common import hx

EXTRACT = ['ExDeferQ']
COMPONENTS = ['deferq']
LEVEL = 'proof'

PATHS = ('queue', 'mgr-queue', 'mgr-immediate')


# ---------------------------------------------------------------- formats

def tok(off, data):
    return f'{hx(off)}:{bytes(data).hex()}'


def model_line(hist, cmd='h'):
    return cmd + ''.join(' ' + tok(o, d) for o, d in hist)


def fmt(groups, nxt):
    return '|'.join(','.join(tok(o, d) for o, d in g) for g in groups) + '#' + hx(nxt)


def case_json(obj, hist, path):
    return {'obj': None if obj is None else bytes(obj).hex(),
            'history': [[o, bytes(d).hex()] for o, d in hist], 'path': path}


def case_from_json(c):
    obj = None if c.get('obj') is None else bytes.fromhex(c['obj'])
    hist = tuple((int(o), bytes.fromhex(d)) for o, d in c['history'])
    return obj, hist, c.get('path', 'queue')


# ---------------------------------------------------------------- running the implementation

# The model treats request_writes + submission as one atomic step.  In the code
# that is the manager's submit lock: probed on every call of the manager paths.
PROBE = {'request_writes_calls': 0, 'request_writes_without_lock': 0,
         'io_submits': 0, 'io_submits_without_lock': 0}


class FifoIO:
    """Stand-in for the IO executor: one worker, tasks run in submission order."""

    def __init__(self):
        self.q = []
        self.submitted = 0
        self.lock = None

    def submit(self, task, tag=None, block=True):
        from s3transfer.futures import ExecutorFuture
        if self.lock is not None:
            PROBE['io_submits'] += 1
            if not self.lock.locked():
                PROBE['io_submits_without_lock'] += 1
        cf = concurrent.futures.Future()
        self.q.append((task, cf))
        self.submitted += 1
        return ExecutorFuture(cf)

    def drain(self):
        while self.q:
            task, cf = self.q.pop(0)
            try:
                cf.set_result(task())
            except Exception as e:          # Task.__call__ already stores it on the coordinator
                cf.set_exception(e)


class Stream:
    """Recording non-seekable destination."""

    def __init__(self):
        self.chunks = []

    def write(self, d):
        self.chunks.append(bytes(d))


def exc_name(e):
    return 'EXC:' + type(e).__name__


def run_impl(hist, path, state=False):
    """Feed the history to the real code.  Returns (groups, next, extra) or an
    'EXC:<type>' string.  groups[i] = the writes caused by delivery i as
    (offset, data); for the manager paths the offset is the position at which
    the data landed in the stream."""
    from s3transfer import download
    if path == 'queue':
        dq = download.DeferQueue()
        groups = []
        try:
            for off, d in hist:
                ws = dq.request_writes(off, d)
                groups.append([(w['offset'], bytes(w['data'])) for w in ws])
        except Exception as e:
            return exc_name(e)
        nxt = getattr(dq, '_next_offset', None)
        if not isinstance(nxt, int):
            flat = [w for g in groups for w in g]
            nxt = flat[-1][0] + len(flat[-1][1]) if flat else 0
        extra = None
        if state:
            heap = getattr(dq, '_writes', None)
            pend = getattr(dq, '_pending_offsets', None)
            if isinstance(heap, list) and isinstance(pend, dict):
                try:
                    extra = ','.join(tok(o, d) for o, d in sorted(heap)) + '#' + \
                        ','.join(f'{hx(k)}={hx(v)}' for k, v in sorted(pend.items()))
                except Exception as e:
                    extra = exc_name(e)
            else:
                extra = 'STATE-SHAPE-CHANGED'
        return groups, nxt, extra
    from s3transfer.futures import TransferCoordinator
    from s3transfer.utils import OSUtils
    coord = TransferCoordinator()
    io_ex = FifoIO()
    mgr = download.DownloadNonSeekableOutputManager(OSUtils(), coord, io_ex)
    out = Stream()
    dq, lock = getattr(mgr, '_defer_queue', None), getattr(mgr, '_io_submit_lock', None)
    if dq is not None and hasattr(lock, 'locked'):
        io_ex.lock = lock
        orig = dq.request_writes

        def probed(offset, data):
            PROBE['request_writes_calls'] += 1
            if not lock.locked():
                PROBE['request_writes_without_lock'] += 1
            return orig(offset, data)
        dq.request_writes = probed
    cls = download.GetObjectTask if path == 'mgr-queue' else download.ImmediatelyWriteIOGetObjectTask
    task = cls(coord, main_kwargs={})
    counts = []
    try:
        for i, (off, d) in enumerate(hist):
            before = io_ex.submitted if path == 'mgr-queue' else len(out.chunks)
            task._handle_io(mgr, out, d, off)
            after = io_ex.submitted if path == 'mgr-queue' else len(out.chunks)
            counts.append(after - before)
            if path == 'mgr-queue' and (len(hist) + i) % 2:
                io_ex.drain()             # the IO worker may run at any time: order is what matters
        io_ex.drain()
    except Exception as e:
        return exc_name(e)
    if coord.exception is not None:
        return exc_name(coord.exception)
    groups, pos, k = [], 0, 0
    for n in counts:
        g = []
        for ch in out.chunks[k:k + n]:
            g.append((pos, ch))
            pos += len(ch)
        k += n
        groups.append(g)
    if k != len(out.chunks):
        return 'EXC:StreamWritesOutsideHandleIO'
    return groups, pos, None


def impl_out(hist, path):
    r = run_impl(hist, path)
    return r if isinstance(r, str) else fmt(r[0], r[1])


def impl_state_out(hist):
    r = run_impl(hist, 'queue', state=True)
    return r if isinstance(r, str) else fmt(r[0], r[1]) + '#' + str(r[2])


def state_visible():
    """The heap/pending comparison reads private attributes; if a refactor
    renamed them only the observable behaviour (writes per call) is compared."""
    r = run_impl(((1, b'x'),), 'queue', state=True)
    return not isinstance(r, str) and r[2] != 'STATE-SHAPE-CHANGED'


# ---------------------------------------------------------------- oracle

def frontier(intervals):
    """largest n with [0,n) covered by the union of [o, o+l)"""
    n = 0
    changed = True
    while changed:
        changed = False
        for o, l in intervals:
            if o <= n < o + l:
                n = o + l
                changed = True
    return n


def is_consistent(obj, hist):
    return obj is not None and all(0 <= o and o + len(d) <= len(obj) and obj[o:o + len(d)] == d
                                   for o, d in hist)


def oracle(obj, hist, path='queue'):
    """C16 on the implementation alone.  None if it holds on this history, else
    a description of the failure."""
    r = run_impl(hist, path)
    if isinstance(r, str):
        return f'{path}: delivering {short(hist)} raised {r[4:]}'
    groups, nxt, _ = r
    total = 0
    out = b''
    cons = is_consistent(obj, hist)
    for i, g in enumerate(groups):
        for (o, d) in g:
            if o != total:
                return (f'{path}: after delivery {i} of {short(hist)} a write is issued at offset {o} '
                        f'but {total} bytes have been written (gap, overlap or out of order)')
            total += len(d)
            out += d
        if cons:
            f = frontier([(o, len(d)) for o, d in hist[:i + 1]])
            if total < f:
                return (f'{path}: after delivery {i} of {short(hist)} bytes [0,{f}) have all been delivered '
                        f'but only {total} bytes were released (contiguous data withheld or lost)')
            if total > f:
                return (f'{path}: after delivery {i} of {short(hist)} {total} bytes were written but only '
                        f'[0,{f}) is contiguous (a byte written twice or released early)')
            if out != obj[:total]:
                return (f'{path}: after delivery {i} of {short(hist)} the stream holds {out!r}, '
                        f'the object starts with {obj[:total]!r}')
    return None


def short(hist):
    s = '[' + ', '.join(f'({o},{bytes(d)!r})' for o, d in hist[:12]) + (', ...' if len(hist) > 12 else '') + ']'
    return s


def single_get_shape(hist):
    """every attempt starts at byte 0 and delivers consecutive chunks (one GET for the whole object)"""
    pos = None
    for o, d in hist:
        if o != 0 and o != pos:
            return False
        pos = o + len(d)
    return True


def in_grammar(obj, hist):
    """Is this consistent history one the download loop can produce: is there a
    set of part starts such that every delivery either begins an attempt at its
    part's first byte or continues that part's current attempt, inside the part?
    (brute force over the delivered offsets; None = too many to decide)"""
    if not is_consistent(obj, hist):
        return False
    if len(obj) == 0 or not hist:
        return all(o == 0 for o, _ in hist)
    if any(len(d) == 0 for _, d in hist):
        return False                     # an empty chunk is only ever read from an empty body
    offs = sorted({o for o, _ in hist})
    if len(offs) > 12:
        return None
    first, rest = offs[0], offs[1:]      # the lowest delivered offset must begin an attempt
    for mask in range(1 << len(rest)):
        starts = [first] + [o for i, o in enumerate(rest) if mask >> i & 1]
        pos, ok = {}, True
        for o, d in hist:
            k = max(i for i, st in enumerate(starts) if st <= o)
            end = starts[k + 1] if k + 1 < len(starts) else len(obj)
            if o + len(d) > end:
                ok = False
            elif o == starts[k]:
                pos[k] = o + len(d)
            elif pos.get(k) == o:
                pos[k] = o + len(d)
            else:
                ok = False
            if not ok:
                break
        if ok:
            return True
    return False


def applicable(path, obj, hist):
    """Does C16's quantifier cover this history on this path?"""
    if path == 'mgr-immediate' and not single_get_shape(hist):
        return False                     # the immediate path serves one GET for the whole object
    return in_grammar(obj, hist) is not False


def shrink(obj, hist, path):
    """Shortest failing prefix, then greedy removal of deliveries while the
    history stays inside the statement's grammar and the oracle keeps failing."""
    hist = list(hist)
    for n in range(1, len(hist) + 1):
        if oracle(obj, hist[:n], path):
            hist = hist[:n]
            break
    i = 0
    while i < len(hist) and len(hist) > 1:
        cand = hist[:i] + hist[i + 1:]
        if (path != 'mgr-immediate' or single_get_shape(cand)) and in_grammar(obj, cand) \
                and oracle(obj, cand, path):
            hist = cand
        else:
            i += 1
    return tuple(hist)


def report_failure(ctx, obj, hist, path, why=None):
    n = ctx.__dict__.setdefault('c16_reported', {})
    if n.get(path, 0) >= 2:              # one cause, many histories: keep room for other paths
        return
    n[path] = n.get(path, 0) + 1
    small = shrink(obj, hist, path)
    what = oracle(obj, small, path) or why
    sig = f'oracle:{path}:' + ' '.join(tok(o, d) for o, d in small)
    ctx.report(sig, what, {'kind': 'history', 'component': 'deferq', 'case': case_json(obj, small, path)})


# ---------------------------------------------------------------- case generators

def compositions(n, max_parts):
    """ordered ways to cut n >= 1 into 1..max_parts positive pieces"""
    if n == 0:
        return
    if max_parts >= 1:
        yield (n,)
    if max_parts > 1:
        for first in range(1, n):
            for rest in compositions(n - first, max_parts - 1):
                yield (first,) + rest


def grammar_histories(obj, max_parts, max_attempts, max_len):
    """Every maximal history (length == max_len, or no move left) of the
    statement's grammar for this object: disjoint parts tiling the object; each
    attempt of a part delivers consecutive chunks from the part's first byte,
    cut anywhere, stopping anywhere; a new attempt of a part starts only after
    its previous one stopped; parts interleave arbitrarily.  Every shorter
    history is a prefix of one of these, and both the differential (per-call
    writes) and the oracle (after every call) look at every prefix."""
    size = len(obj)
    seen = set()
    if size == 0:
        # the empty object: each attempt delivers its single empty chunk
        for k in range(1, max_attempts + 1):
            seen.add(((0, b''),) * k)
        return sorted(seen)
    for comp in compositions(size, max_parts):
        parts, s = [], 0
        for n in comp:
            parts.append((s, n))
            s += n
        hist = []

        def dfs(state):
            # state: per part (attempts used, position in the current attempt or -1)
            moves = []
            if len(hist) < max_len:
                for pi, (start, n) in enumerate(parts):
                    used, pos = state[pi]
                    if pos >= 0:
                        for c in range(1, n - pos + 1):
                            moves.append((pi, used, pos, c))
                    if used < max_attempts:
                        for c in range(1, n + 1):
                            moves.append((pi, used + 1, 0, c))
            if not moves:
                seen.add(tuple(hist))
                return
            for (pi, used, pos, c) in moves:
                start, n = parts[pi]
                hist.append((start + pos, obj[start + pos:start + pos + c]))
                npos = pos + c
                st = list(state)
                st[pi] = (used, npos if npos < n else -1)
                dfs(tuple(st))
                hist.pop()
        dfs(tuple((0, -1) for _ in parts))
    return sorted(seen)


def random_grammar_history(rng, max_len=60):
    size = rng.randrange(1, 41)
    if rng.random() < 0.3:
        obj = bytes(rng.choice(b'ab') for _ in range(size))      # equal data at different offsets
    else:
        obj = bytes(rng.randrange(256) for _ in range(size))
    nparts = 1 if rng.random() < 0.25 else rng.randrange(1, min(4, size) + 1)
    cuts = sorted(rng.sample(range(1, size), nparts - 1)) if nparts > 1 else []
    bounds = [0] + cuts + [size]
    seqs = []
    for a, b in zip(bounds, bounds[1:]):
        seq = []
        nattempts = rng.randrange(1, 5)
        for k in range(nattempts):
            last = k == nattempts - 1
            stop = b if (last and rng.random() < 0.7) else rng.randrange(a, b + 1)
            pos = a
            maxchunk = rng.choice([1, 2, 3, 5, 8, 40])
            while pos < stop:
                c = min(rng.randrange(1, maxchunk + 1), stop - pos)
                seq.append((pos, obj[pos:pos + c]))
                pos += c
        seqs.append(seq)
    hist = []
    idx = [0] * len(seqs)
    while len(hist) < max_len:
        live = [i for i, s in enumerate(seqs) if idx[i] < len(s)]
        if not live:
            break
        # arrival order: sometimes strongly favour later parts (early data withheld)
        i = live[-1] if rng.random() < 0.35 else rng.choice(live)
        hist.append(seqs[i][idx[i]])
        idx[i] += 1
    return obj, tuple(hist)


def malformed_history(rng):
    alphabet = rng.choice([b'\x00\x01', b'\x00\x7f\x80\xff', b'abc'])
    n = rng.randrange(1, 13)
    hist = []
    for _ in range(n):
        off = rng.choice([rng.randrange(-3, 13), rng.randrange(0, 6), rng.randrange(0, 6)])
        d = bytes(rng.choice(alphabet) for _ in range(rng.randrange(0, 6)))
        hist.append((off, d))
    return None, tuple(hist)


def corpus_cases():
    cases = []
    for p in sorted(glob.glob(os.path.join(common.VERIF, 'corpus', 'deferq', '*.json'))):
        for c in json.load(open(p))['cases']:
            obj, hist, _ = case_from_json(c)
            cases.append(('corpus', obj, hist))
    return cases


def nontrivial_key(case, out):
    """distinct = by history; non-trivial = the queue had to do something: some
    delivery was withheld, trimmed, dropped or released later (the output is
    not 'every delivery written as it came')."""
    _, obj, hist = case
    naive = '|'.join(tok(o, d) for o, d in hist)
    return None if out.split('#')[0] == naive else hist


# ---------------------------------------------------------------- the check

def run(ctx):
    for k in PROBE:
        PROBE[k] = 0
    ok = common.proofs(ctx, 'C16', EXTRACT, COMPONENTS)
    ctx.assumptions = [
        'the heap of withheld writes is modelled as the list of its elements in heapq pop order (Python tuple order on '
        '(offset, bytes)); heappop returns a minimum and equal tuples are indistinguishable',
        'the IO executor runs the submitted write tasks one at a time in submission order (one IO worker: C17/C04 cover the executor); '
        'request_writes and the submission happen under the manager\'s submit lock (download.py queue_file_io_task / get_io_write_tasks)',
        'a delivery carries the object\'s bytes at its offset (GetObject returns the stored bytes of the requested range: FakeS3/S3Spec)',
        'the extracted OCaml model and its line driver are trusted for the correspondence only',
    ]
    ctx.cov['rule'] = (
        'a case is a delivery history [(offset, data)...] fed call by call to the real DeferQueue.request_writes, to '
        'GetObjectTask._handle_io -> DownloadNonSeekableOutputManager.queue_file_io_task (FIFO IO executor, recording stream) and to '
        'ImmediatelyWriteIOGetObjectTask._handle_io -> get_io_write_tasks, and to the extracted Coq model; compared: the writes caused by '
        'every call (offset, bytes) and the final next offset (raw queue also: heap and pending dict). Streams: corpus; ALL maximal histories '
        'of the statement\'s grammar in a small scope (exhaustive; every shorter history is a prefix and prefixes are compared call by call); '
        'random grammar histories up to length 60 over objects of 1-40 bytes; malformed histories (arbitrary offsets incl. negative, arbitrary '
        'data); end-to-end TransferManager downloads to a non-seekable stream with injected socket.timeout after k bytes. '
        'Distinct = by history; non-trivial = at least one delivery was withheld, trimmed, dropped or released late.')
    fails = []          # (path, obj, hist, impl, model)

    if ctx.broken is None:
        exh_sample, rnd_sample = [], []

        def streams():
            yield 'corpus', corpus_cases()
            # ---- exhaustive small scopes of the grammar: (object bytes, parts, attempts per part, deliveries)
            if ctx.thorough():
                scope = [(0, 3, 3, 3), (1, 3, 3, 7), (2, 3, 3, 7), (3, 3, 3, 7), (4, 3, 3, 7), (5, 3, 3, 6),
                         (6, 3, 3, 5), (7, 3, 2, 5)]
            else:
                scope = [(0, 3, 3, 3), (1, 3, 3, 7), (2, 3, 3, 7), (3, 3, 3, 7), (4, 3, 3, 6), (5, 3, 3, 5),
                         (6, 3, 2, 5), (7, 3, 2, 4)]
            for (size, mp, ma, ml) in scope:
                obj = bytes(range(0x61, 0x61 + size))
                hs = grammar_histories(obj, mp, ma, ml)
                ctx.cov.setdefault('exhaustive_scopes', []).append(
                    {'object_bytes': size, 'max_parts': mp, 'max_attempts_per_part': ma, 'max_deliveries': ml,
                     'maximal_histories': len(hs)})
                if size == 5:
                    exh_sample.append((obj, hs[len(hs) // 2]))
                yield 'exhaustive', [('exh', obj, h) for h in hs]
            # ---- random grammar histories
            rng = ctx.rng('grammar')
            rnd = []
            for _ in range(40000 if ctx.thorough() else 6000):
                obj, h = random_grammar_history(rng)
                rnd.append(('rand', obj, h))
            rnd_sample.append(rnd[0])
            yield 'random', rnd
            # ---- malformed stream
            rng = ctx.rng('malformed')
            mal = []
            for _ in range(40000 if ctx.thorough() else 8000):
                obj, h = malformed_history(rng)
                mal.append(('malformed', obj, h))
            yield 'malformed', mal

        for name, cases in streams():
            if not cases:
                continue
            for path in PATHS:
                sub = cases
                if path != 'queue' and name == 'exhaustive':
                    # manager paths: every k-th exhaustive history (they add plumbing, not queue logic)
                    k = 4 if ctx.thorough() else 10
                    sub = cases[::k]
                mism = common.differential(
                    ctx, 'deferq', sub,
                    lambda c: model_line(c[2]),
                    lambda c, path=path: impl_out(c[2], path),
                    key=nontrivial_key,
                    hist=lambda c, o, name=name, path=path: {'stream_path': f'{name}/{path}'})
                fails += [(path, c[1], c[2], i, m) for c, i, m in mism]
                if ctx.broken is not None:
                    break
            if ctx.broken is not None:
                break
            # state equivalence of the raw queue (heap + pending dict)
            sub = cases[::(3 if name == 'exhaustive' else 1)]
            if not state_visible():
                if name == 'corpus':
                    ctx.notes.append('DeferQueue._writes/_pending_offsets/_next_offset are not a list/dict/int any more: '
                                     'state comparison skipped, writes per call still compared on every history')
                sub = []
            if sub:
                mism = common.differential(
                    ctx, 'deferq', sub,
                    lambda c: model_line(c[2], 'hs'),
                    lambda c: impl_state_out(c[2]),
                    key=nontrivial_key,
                    hist=lambda c, o, name=name: {'stream_path': f'{name}/queue-state'})
                fails += [('queue', c[1], c[2], i, m) for c, i, m in mism]
            # oracle on the implementation alone (may catch what the model agrees with)
            step = 1 if name != 'exhaustive' else (2 if ctx.thorough() else 5)
            n_or = 0
            for c in cases[::step]:
                if name == 'malformed':
                    continue             # outside the statement's quantifier: plain model equivalence only
                for path in PATHS:
                    if path == 'mgr-immediate' and not single_get_shape(c[2]):
                        continue
                    if name == 'corpus' and not applicable(path, c[1], c[2]):
                        continue
                    r = oracle(c[1], c[2], path)
                    n_or += 1
                    if r:
                        report_failure(ctx, c[1], c[2], path, r)
            ctx.cov.setdefault('oracle_runs', {})[name] = ctx.cov.get('oracle_runs', {}).get(name, 0) + n_or
        ctx.cov['exhaustive'] = False   # exhaustive within the listed scopes only; the theorems are unbounded
        for obj, h in exh_sample:
            ctx.sample({'component': 'deferq-exhaustive', 'object': obj.hex(),
                        'history': [[o, d.hex()] for o, d in h], 'impl_and_model_output': impl_out(h, 'queue')})
        for (_, obj, h) in rnd_sample:
            ctx.sample({'component': 'deferq-random', 'object': obj.hex(),
                        'history': [[o, d.hex()] for o, d in h], 'impl_and_model_output': impl_out(h, 'queue')})

        ctx.cov['submit_lock_probe'] = dict(PROBE)
        if PROBE['request_writes_without_lock'] or PROBE['io_submits_without_lock']:
            ctx.report('assumption:submit-lock',
                       f'the manager called request_writes / submitted a released write to the IO executor without holding its '
                       f'submit lock ({PROBE}): with concurrent GetObject tasks two releases can interleave and reach the stream out of '
                       f'order; the atomic-step assumption of the model (coq/model/DeferQ.v manager_step) no longer mirrors the code',
                       {'kind': 'correspondence', 'theorem_or_correspondence': 'manager_step atomicity (download.py _io_submit_lock)',
                        'probe': dict(PROBE)}, no_input=True)
        elif not PROBE['request_writes_calls']:
            ctx.notes.append('submit-lock probe: DownloadNonSeekableOutputManager has no _defer_queue/_io_submit_lock attribute to probe')

        # ---- end to end
        if ctx.broken is None:
            end_to_end(ctx, fails)
            # the same under the cooperative scheduler: writes issued one at a time, in order, by one IO worker
            scheduled_streams(ctx)

    # every mismatch: is it a violation of C16 on the implementation?
    fails = sorted(fails, key=lambda f: len(f[2]))[:40]
    fails.sort(key=lambda f: (not applicable(f[0], f[1], f[2]), len(f[2])))
    for (path, obj, hist, i, m) in fails[:12]:
        r = oracle(obj, hist, path) if applicable(path, obj, hist) else None
        if r:
            report_failure(ctx, obj, hist, path, r)
        else:
            ctx.report(f'corr:deferq:{path}',
                       f'model and implementation disagree ({path}) on {short(hist)}: impl={i} model={m}; '
                       f'C16\'s oracle does not fail on this history (or the history is outside the statement\'s quantifier), '
                       f'so what is broken is the correspondence: the Coq model no longer mirrors the code',
                       {'kind': 'correspondence', 'theorem_or_correspondence': f'differential deferq/{path}',
                        'case': case_json(obj, hist, path), 'impl': i, 'model': m}, no_input=True)
    if ctx.broken is not None:
        search_after_break(ctx)


def search_after_break(ctx):
    """A proof obligation, the build or the model driver broke: search for a
    concrete failing history with the oracle alone."""
    found = False
    cases = corpus_cases()
    for size in (3, 4):
        obj = bytes(range(0x61, 0x61 + size))
        cases += [('exh', obj, h) for h in grammar_histories(obj, 2, 2, 4)]
    rng = ctx.rng('search')
    for _ in range(1500):
        obj, h = random_grammar_history(rng)
        cases.append(('rand', obj, h))
    for (_, obj, hist) in cases:
        for path in PATHS:
            if not applicable(path, obj, hist):
                continue
            r = oracle(obj, hist, path)
            ctx.count('deferq-oracle', 1, nontrivial_key=(path, hist), path=path)
            if r:
                report_failure(ctx, obj, hist, path, r)
                found = True
                break
        if found:
            break
    if not found:
        fails = []
        try:
            end_to_end(ctx, fails, with_model=False)
        except Exception as e:
            ctx.notes.append(f'end-to-end search crashed: {e!r}')
        found = bool(ctx.violations)
    if not found:
        ctx.report(f'broken:{ctx.broken.what}', ctx.broken.what,
                   {'kind': 'theorem', 'theorem_or_correspondence': ctx.broken.what, 'log': ctx.broken.log},
                   no_input=True)


# ---------------------------------------------------------------- end to end

class Tap:
    """Class-level wrapper around DeferQueue.request_writes logging deliveries
    and returned writes (no edit of /repo)."""

    def __enter__(self):
        from s3transfer import download
        self.cls = download.DeferQueue
        self.orig = self.cls.request_writes
        self.log = []
        tap = self

        def wrapped(dq, offset, data):
            ws = tap.orig(dq, offset, data)
            tap.log.append((offset, bytes(data), [(w['offset'], bytes(w['data'])) for w in ws]))
            return ws
        self.cls.request_writes = wrapped
        return self

    def __exit__(self, *a):
        self.cls.request_writes = self.orig


def e2e_scenarios(ctx):
    """(size, threshold, chunk, io_chunk, faults, threaded) -- faults: {part_index: [(read_sizes, fail_after), ...]}
    one entry per failed attempt of that part (the next attempt succeeds)."""
    sc = []
    # single GET (size < threshold): retry after k bytes, different read sizes each attempt
    for size in (0, 1, 7, 10):
        for k in sorted({0, 1, size // 2, max(size - 1, 0)}):
            if k > size:
                continue
            for rs in ([], [1], [3, 2], [2, 1, 4]):
                sc.append((size, 100, 100, 4, {0: [(rs, k)]}, False))
        sc.append((size, 100, 100, 3, {0: [([2], size // 2), ([1, 1], min(size, 3))]}, False))
    # ranged: F3's shape and neighbours
    sc.append((8, 1, 5, 5, {0: [([3], 3)]}, False))
    for size in (8, 11):
        for chunk in (3, 5):
            nparts = -(-size // chunk)
            for part in range(nparts):
                plen = min(chunk, size - part * chunk)
                for k in sorted({0, 1, plen - 1}):
                    for rs in ([], [1], [2, 1]):
                        sc.append((size, 1, chunk, 4, {part: [(rs, k)]}, False))
            sc.append((size, 1, chunk, 2, {p: [([1], 1), ([2], 2)] for p in range(nparts)}, False))
    # threaded, part 0 arrives last (data of later parts withheld), with a retry in part 0
    for size, chunk in ((9, 3), (10, 4)):
        sc.append((size, 1, chunk, 2, {0: [([1], 1)]}, True))
        sc.append((size, 1, chunk, 2, {}, True))
    if not ctx.thorough():
        sc = [s for i, s in enumerate(sc) if s[5] or i % 2 == 0 or s[:4] == (8, 1, 5, 5)]
    return sc


def run_e2e(scn, rng_bytes):
    from harness.fakes3 import FakeS3, NonSeekableWriter
    from s3transfer.manager import TransferManager, TransferConfig
    from s3transfer.futures import NonThreadedExecutor
    size, thr, chunk, io_chunk, faults, threaded = scn
    data = rng_bytes[:size]
    c = FakeS3()
    c.objects[('b', 'k')] = data
    nparts = max(1, -(-size // chunk)) if size >= thr else 1
    gate = threading.Event()

    def part_of(kwargs):
        r = kwargs.get('Range')
        return 0 if not r else int(r.split('=')[1].split('-')[0]) // chunk

    def script(kwargs, attempt):
        p = part_of(kwargs)
        fl = faults.get(p, [])
        d = {}
        if attempt < len(fl):
            rs, k = fl[attempt]
            d = {'read_sizes': list(rs), 'fail_after': k, 'exc': socket.timeout('injected')}
        elif attempt == len(fl) and fl:
            d = {'read_sizes': [io_chunk]}      # the successful attempt reads whole io chunks
        if threaded and p == 0:
            d['on_read'] = lambda: gate.wait(10)     # part 0 arrives last
        return d
    c.get_script = script
    cfg = TransferConfig(multipart_threshold=thr, multipart_chunksize=chunk, io_chunksize=io_chunk,
                         num_download_attempts=4, max_request_concurrency=4 if threaded else 1)
    out = NonSeekableWriter()
    err = None
    with Tap() as tap:
        if threaded:
            # release part 0 once every other part's deliveries have reached the queue
            def releaser():
                import time
                deadline = time.time() + 10
                want = size - min(chunk, size)
                while time.time() < deadline:
                    got = sum(len(d) for (o, d, _) in list(tap.log) if o >= chunk)
                    if got >= want:
                        break
                    time.sleep(0.002)
                gate.set()
            t = threading.Thread(target=releaser, daemon=True)
            t.start()
            mgr = TransferManager(c, cfg)
        else:
            mgr = TransferManager(c, cfg, executor_cls=NonThreadedExecutor)
        try:
            with mgr:
                mgr.download('b', 'k', out).result()
        except Exception as e:
            err = e
        finally:
            gate.set()
        log = list(tap.log)
    return data, out, err, log, nparts


def scheduled_specs(ctx):
    """Ranged downloads to non-seekable streams on the real TransferManager under the cooperative
    scheduler: 2-3 request threads, 2-3 submission threads, retryable stream faults, PCT schedules."""
    rng = ctx.rng('sched-streams')
    out = []
    for i in range(120 if ctx.thorough() else 30):
        cfg = dict(max_request_concurrency=rng.choice([2, 3]), max_submission_concurrency=rng.choice([2, 3]),
                   max_in_memory_download_chunks=rng.choice([2, 3]), max_io_queue_size=rng.choice([1, 2, 4]),
                   multipart_chunksize=rng.choice([3, 4]), multipart_threshold=4, io_chunksize=rng.choice([1, 2]),
                   num_download_attempts=3)
        sp = dict(transfers=[dict(kind='download', dst='nonseekable', size=rng.choice([9, 12, 14]))], cfg=cfg,
                  chooser={'kind': ['pct', 'random', 'pct'][i % 3], 'seed': rng.randrange(1 << 30), 'depth': 6})
        if i % 3 == 1:
            sp['get_fault'] = dict(range_idx=rng.randrange(3), attempts=rng.choice([1, 2]), after=rng.randrange(1, 3),
                                   exc='timeout', read_sizes=[2, 1, 3])
        out.append(sp)
    return out


def scheduled_mons():
    from harness.sched import monitors as M
    return [M.m_terminates, M.m_stream_order, M.m_success_means_all_ok]


def scheduled_streams(ctx):
    from harness.props import sysrun
    sysrun.sub_runs(ctx, scheduled_specs(ctx), scheduled_mons())


def end_to_end(ctx, fails, with_model=True):
    rng = ctx.rng('e2e')
    rng_bytes = bytes(rng.randrange(256) for _ in range(64))
    lines, logs = [], []
    for scn in e2e_scenarios(ctx):
        data, out, err, log, nparts = run_e2e(scn, rng_bytes)
        size, thr, chunk, io_chunk, faults, threaded = scn
        desc = {'size': size, 'multipart_threshold': thr, 'multipart_chunksize': chunk, 'io_chunksize': io_chunk,
                'faults': {str(k): [[list(rs), fa] for rs, fa in v] for k, v in faults.items()}, 'threaded': threaded}
        hist = tuple((o, d) for (o, d, _) in log)
        ctx.count('deferq-e2e', 1, nontrivial_key=(scn[:4], str(sorted(faults.items())), threaded),
                  mode='single-get' if size < thr else 'ranged', threaded=threaded,
                  retried=bool(faults))
        got = out.getvalue()
        problem = None
        if err is not None:
            problem = f'download raised {type(err).__name__}: {err}'
        elif got != data:
            problem = f'the stream received {got!r}, the object is {data!r}'
        if problem and ctx.__dict__.setdefault('c16_reported', {}).get('e2e', 0) < 2:
            ctx.c16_reported['e2e'] = ctx.c16_reported.get('e2e', 0) + 1
            ctx.report('e2e:' + json.dumps(desc, sort_keys=True),
                       f'download of a {size}-byte object to a non-seekable stream '
                       f'({"single GET" if size < thr else f"{nparts} ranged GETs"}, socket.timeout injected: {desc["faults"]}): {problem}; '
                       f'deliveries seen by the defer queue: {short(hist)}',
                       {'kind': 'history', 'component': 'e2e-download', 'case': {'e2e': desc, 'bytes_seed': rng_bytes.hex(),
                                                                                'observed': case_json(data, hist, 'queue')}})
        if faults and not threaded and not log and not problem:
            ctx.notes.append(f'e2e: no defer-queue call observed for {desc}')
        if with_model and log:
            lines.append(model_line(hist))
            logs.append((desc, data, hist, fmt([w for (_, _, w) in log], sum(len(d) for (_, _, w) in log for (_, d) in w))))
    det = [l for l in logs if not l[0]['threaded'] and l[0]['multipart_threshold'] == 1]
    if det:
        pick = det[len(det) // 2]
        ctx.sample({'component': 'deferq-e2e', 'scenario': pick[0],
                    'deliveries_seen': [[o, d.hex()] for o, d in pick[2]], 'writes': pick[3]})
    if with_model and lines:
        model = common.run_model('deferq', lines)
        for (desc, data, hist, o), m in zip(logs, model):
            if o != m:
                fails.append(('queue', data, hist, o, m))


# ---------------------------------------------------------------- replay

def replay(ctx, data):
    case = data.get('case') or {}
    if isinstance(case, dict) and 'transfers' in case:
        from harness.props import sysrun
        return sysrun.replay_spec(ctx, data, scheduled_mons())
    if isinstance(case, dict) and 'history' in case:
        obj, hist, path = case_from_json(case)
        r = oracle(obj if is_consistent(obj, hist) else None, hist, path)
        print('oracle:', r)
        return r is not None
    if isinstance(case, dict) and 'e2e' in case:
        d = case['e2e']
        scn = (d['size'], d['multipart_threshold'], d['multipart_chunksize'], d['io_chunksize'],
               {int(k): [(list(rs), fa) for rs, fa in v] for k, v in d['faults'].items()}, d['threaded'])
        obj, out, err, log, _ = run_e2e(scn, bytes.fromhex(case['bytes_seed']))
        bad = err is not None or out.getvalue() != obj
        print('e2e:', 'raised ' + repr(err) if err else out.getvalue(), 'object', obj)
        return bad
    # theorem/correspondence replays: re-run the quick check
    run(ctx)
    return bool(ctx.violations)
