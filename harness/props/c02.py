"""C02 -- downloads deliver exactly the object bytes, also across stream retries
(TransferManager front-end and the process-pool worker loop; the legacy
front-end is checked by harness/props/legacy.py check_c02, called at the end).

Proof: coq/props/C02.v over coq/model/DownloadDest.v (+ Retry.v, DeferQ.v,
Plan.v).  Tie: differential of real downloads against the extracted model
  (a) TransferManager, NonThreadedExecutor: all destination kinds, sizes around
      the threshold, chunk / io-chunk 1..5, per-request fault scripts and
      read-size scripts;
  (b) TransferManager with the IO executor deferred: the queued IOWriteTasks of
      up to 4 ranged parts are run in every completion order (and in random
      interleavings) -- real seek + write;
  (c) TransferManager under the cooperative scheduler (random / PCT choosers):
      the interleaving the run exhibited is handed to the model as its schedule;
  (d) the process pool in-process: real GetObjectSubmitter planning + allocate,
      real GetObjectWorker._do_get_object, jobs run in permuted orders and
      interleaved read by read with a baton.
Compared: what the future reports, the destination bytes, the sequence of
writes (offset, data) and the GetObject request log (Range, calls).
Search oracle: under the statement's fault hypothesis the download succeeds and
the destination bytes equal the object (streams: returned write offsets are the
running length); whenever it reports success the bytes equal the object.
"""
import concurrent.futures
import glob
import io
import itertools
import json
import os
import shutil
import socket
import tempfile
import threading

from harness import common
from harness.common import hx

EXTRACT = ['ExDownload']
COMPONENTS = ['download']
LEVEL = 'proof'

RETRYABLE = ['timeout', 'connection', 'readtimeout', 'incomplete', 'streaming']
NONRETRYABLE = ['value', 'fakefault', 'clienterror', 'key']
KINDS = ('path', 'seekable', 'stream')
KIND_TOK = {'path': 'p', 'seekable': 's', 'stream': 'n'}


def make_exc(name):
    from botocore.exceptions import (ReadTimeoutError, IncompleteReadError,
                                     ResponseStreamingError, ClientError)
    from harness.fakes3 import FakeFault
    return {
        'timeout': lambda: socket.timeout('scripted'),
        'connection': lambda: ConnectionError('scripted'),
        'readtimeout': lambda: ReadTimeoutError(endpoint_url='https://s3'),
        'incomplete': lambda: IncompleteReadError(actual_bytes=1, expected_bytes=2),
        'streaming': lambda: ResponseStreamingError(error='scripted'),
        'value': lambda: ValueError('scripted'),
        'fakefault': lambda: FakeFault('scripted'),
        'clienterror': lambda: ClientError({'Error': {'Code': 'InternalError', 'Message': 'x'}}, 'GetObject'),
        'key': lambda: KeyError('scripted'),
    }[name]()


# ---------------------------------------------------------------- cases
# case = {'front': 'mgr'|'pool', 'kind', 'init': hex, 'obj': hex, 'thr', 'chunk', 'io', 'att',
#         'faults': [[tok per attempt] per planned request], 'reads': [[[sizes] per attempt] per request],
#         'mode': 'plain'|'perm'|'sched'|'baton', 'order': [...] (perm/baton), 'chooser': {...} (sched), 'conc': n}
# fault tok: ['n'] | ['q', excname] | ['a', k, excname]

def obj_of(case):
    return bytes.fromhex(case['obj'])


def nparts_of(case):
    size = len(obj_of(case))
    if size < case['thr']:
        return 1
    return -(-size // case['chunk'])


def part_len(case, p):
    size = len(obj_of(case))
    if size < case['thr']:
        return size
    return max(0, min(case['chunk'], size - p * case['chunk']))


def part_of_offset(case, off):
    size = len(obj_of(case))
    if size < case['thr']:
        return 0
    return max(0, min(off // case['chunk'], nparts_of(case) - 1))


def fires(f, ln):
    return f[0] == 'q' or (f[0] == 'a' and f[1] <= ln)


def retryable(f):
    return f[0] == 'n' or f[-1] in RETRYABLE


def in_hypothesis(case):
    """The statement's quantifier: positive settings, fresh destination, fewer
    than `att` striking faults per request, all of them retryable."""
    att = 5 if case['att'] is None else case['att']
    if case['thr'] < 1 or case['chunk'] < 1 or case['io'] < 1 or att < 1:
        return False
    if len(bytes.fromhex(case.get('init') or '')) > len(obj_of(case)):
        return False
    if case['front'] == 'pool' and len(obj_of(case)) == 0:
        return False          # allocate(0) raises: the pool cannot fetch an empty object (reported as a deviation)
    for p in range(nparts_of(case)):
        fl = case['faults'][p] if p < len(case['faults']) else []
        ln = part_len(case, p)
        striking = [f for f in fl if fires(f, ln)]
        if any(not retryable(f) for f in striking) or len(striking) >= att:
            return False
    return True


def ftok(f):
    if f[0] == 'n':
        return 'n'
    if f[0] == 'q':
        return 'q' + ('1' if f[1] in RETRYABLE else '0')
    return 'a' + hx(f[1]) + ':' + ('1' if f[2] in RETRYABLE else '0')


def scripts_line(case):
    fs = ';'.join((','.join(ftok(f) for f in p) or '_') for p in case['faults']) or '-'
    rs = ';'.join(('/'.join((','.join(hx(s) for s in a) or '_') for a in p) or '_') for p in case['reads']) or '-'
    return fs, rs


def model_line(case, sched):
    fs, rs = scripts_line(case)
    sc = ','.join(hx(i) for i in sched) or '-'
    if case['front'] == 'pool':
        mx = '-' if case['att'] is None else hx(case['att'])
        return ' '.join(['p', mx, case['obj'] or '-', hx(case['thr']), hx(case['chunk']), hx(case['io']), fs, rs, sc])
    return ' '.join(['m', KIND_TOK[case['kind']], case.get('init') or '-', case['obj'] or '-', hx(case['thr']),
                     hx(case['chunk']), hx(case['io']), hx(case['att']), fs, rs, sc])


def fmt_result(outcome, content, writes, parts):
    if outcome != 'ok' and outcome != 'nofile':
        return 'failed'
    c = 'none' if content is None else '=' + bytes(content).hex()
    w = ','.join(hx(o) + ':' + bytes(d).hex() for o, d in writes)
    return f'{outcome} | {c} | {w} | {parts}'


def canon_model(line):
    return 'failed' if line.startswith('failed') else line


def fmt_parts(case, log):
    """GetObject request log -> '<range>=<calls>;...' in plan order."""
    counts = {}
    for r in log:
        if r['op'] != 'GetObject':
            continue
        counts[r['kwargs'].get('Range')] = counts.get(r['kwargs'].get('Range'), 0) + 1

    def key(rg):
        return -1 if rg is None else int(rg.split('=')[1].split('-')[0])
    out = []
    for rg in sorted(counts, key=key):
        if rg is None:
            name = 'none'
        else:
            s, e = rg.split('=')[1].split('-')
            name = hx(int(s)) + '-' + (hx(int(e)) if e else '')
        out.append(f'{name}={counts[rg]}')
    return ';'.join(out)


# ---------------------------------------------------------------- scripted environment

def install_scripts(client, case, on_read=None):
    """Per planned request a fault script and per attempt a read-size script,
    on the shared FakeS3 (request faults through its fault hook, stream faults
    and short reads through get_script)."""
    chunk, ranged = case['chunk'], len(obj_of(case)) >= case['thr']

    def part_of(kw):
        r = kw.get('Range')
        if not r or not ranged:
            return 0
        return int(r.split('=')[1].split('-')[0]) // chunk
    begun, passed = {}, {}

    def tok(p, i):
        fl = case['faults'][p] if p < len(case['faults']) else []
        return fl[i] if i < len(fl) else ['n']

    def fault(rec, when):
        if rec['op'] != 'GetObject' or when != 'before':
            return None
        p = part_of(rec['kwargs'])
        i = begun.get(p, 0)
        begun[p] = i + 1
        f = tok(p, i)
        if f[0] == 'q':
            return make_exc(f[1])
        passed.setdefault(p, []).append(i)
        return None

    def get_script(kw, att):
        p = part_of(kw)
        i = passed[p][att]
        f = tok(p, i)
        rl = case['reads'][p] if p < len(case['reads']) else []
        d = {'read_sizes': list(rl[i]) if i < len(rl) else []}
        if f[0] == 'a':
            d['fail_after'] = f[1]
            d['exc'] = make_exc(f[2])
        if on_read:
            d['on_read'] = lambda p=p: on_read(p)
        return d
    client.fault = fault
    client.get_script = get_script


class Taps:
    """Class-level wrappers (no edit of /repo) recording, in execution order,
    the offset-addressed writes, the streaming writes and the deliveries to the
    deferred-write queue."""

    def __enter__(self):
        from s3transfer import download
        self.download = download
        self.log = []
        self.saved = []
        tap = self

        def patch(cls, name, make):
            if cls is None or not hasattr(cls, name):
                return
            orig = getattr(cls, name)
            self.saved.append((cls, name, orig))
            setattr(cls, name, make(orig))

        def mk_w(orig):
            def _main(self_, fileobj, data, offset):
                tap.log.append(('w', offset, bytes(data)))
                return orig(self_, fileobj, data, offset)
            return _main

        def mk_s(orig):
            def _main(self_, fileobj, data):
                tap.log.append(('s', bytes(data)))
                return orig(self_, fileobj, data)
            return _main

        def mk_d(orig):
            def request_writes(self_, offset, data):
                ws = orig(self_, offset, data)
                tap.log.append(('d', offset, bytes(data), [(w['offset'], len(w['data'])) for w in ws]))
                return ws
            return request_writes
        patch(getattr(download, 'IOWriteTask', None), '_main', mk_w)
        patch(getattr(download, 'IOStreamingWriteTask', None), '_main', mk_s)
        patch(getattr(download, 'DeferQueue', None), 'request_writes', mk_d)
        return self

    def __exit__(self, *a):
        for cls, name, orig in reversed(self.saved):
            setattr(cls, name, orig)

    def writes(self, kind):
        if kind == 'stream':
            out, pos = [], 0
            for e in self.log:
                if e[0] == 's':
                    out.append((pos, e[1]))
                    pos += len(e[1])
            return out
        return [(e[1], e[2]) for e in self.log if e[0] == 'w']

    def schedule(self, case):
        """The interleaving the run exhibited: which request's delivery came next."""
        if case['kind'] == 'stream':
            return [part_of_offset(case, e[1]) for e in self.log if e[0] == 'd']
        return [part_of_offset(case, e[1]) for e in self.log if e[0] == 'w']

    def stream_offset_problem(self):
        """Offsets returned by the queue must be the running length of what was
        released (strictly increasing across non-empty writes)."""
        pos = 0
        for e in self.log:
            if e[0] != 'd':
                continue
            for off, n in e[3]:
                if off != pos:
                    return f'write released at offset {off} while {pos} bytes had been released'
                pos += n
        return None


def outcome_of(err):
    if err is None:
        return 'ok'
    if isinstance(err, FileNotFoundError):
        return 'nofile'
    return 'failed:' + type(err).__name__


class DeferredExecutor:
    """Stand-in for the IO executor's thread pool: collects the submitted tasks."""

    def __init__(self, max_workers=None):
        self.q = []

    def submit(self, fn, *args, **kwargs):
        f = concurrent.futures.Future()
        self.q.append((fn, args, kwargs, f))
        return f

    def shutdown(self, wait=True):
        pass


def run_queued(item):
    fn, args, kwargs, f = item
    try:
        f.set_result(fn(*args, **kwargs))
    except Exception as e:      # Task.__call__ stores failures on the coordinator itself
        f.set_exception(e)


def make_dest(case, tmpdir):
    from harness.fakes3 import NonSeekableWriter
    if case['kind'] == 'path':
        return os.path.join(tmpdir, 'dst')
    if case['kind'] == 'seekable':
        return io.BytesIO(bytes.fromhex(case.get('init') or ''))
    return NonSeekableWriter()


def read_dest(case, dst):
    if case['kind'] == 'path':
        return open(dst, 'rb').read() if os.path.exists(dst) else None
    return dst.getvalue()


def run_manager(case, tmpdir):
    """One real TransferManager download.  -> (result line, schedule, info)"""
    from harness.fakes3 import FakeS3
    from s3transfer.manager import TransferManager, TransferConfig
    from s3transfer.futures import NonThreadedExecutor
    obj = obj_of(case)
    client = FakeS3()
    client.objects[('b', 'k')] = obj
    install_scripts(client, case)
    cfg = TransferConfig(multipart_threshold=case['thr'], multipart_chunksize=case['chunk'],
                         io_chunksize=case['io'], num_download_attempts=case['att'])
    for f in glob.glob(os.path.join(tmpdir, '*')):
        os.remove(f)
    dst = make_dest(case, tmpdir)
    made = []

    def executor_cls(max_workers=None):
        made.append(DeferredExecutor() if (case['mode'] == 'perm' and len(made) == 2) else NonThreadedExecutor())
        return made[-1]
    err = None
    order_used = []
    with Taps() as taps:
        mgr = TransferManager(client, cfg, executor_cls=executor_cls)
        try:
            fut = mgr.download('b', 'k', dst)
            if case['mode'] == 'perm':
                ioq = made[2].q
                groups, final = {}, []
                for it in ioq:
                    task = it[0]
                    kw = getattr(task, '_main_kwargs', None) or {}
                    if type(task).__name__ == 'IOWriteTask' and 'offset' in kw:
                        groups.setdefault(part_of_offset(case, kw['offset']), []).append(it)
                    else:
                        final.append(it)
                for p in case['order']:
                    if groups.get(p):
                        run_queued(groups[p].pop(0))
                        order_used.append(p)
                for p in sorted(groups):
                    while groups[p]:
                        run_queued(groups[p].pop(0))
                        order_used.append(p)
                while True:               # the final task (and anything it queues)
                    rest = [it for it in made[2].q if not it[3].done()]
                    if not rest:
                        break
                    for it in rest:
                        run_queued(it)
            fut.result()
        except Exception as e:
            err = e
        try:
            mgr.shutdown()
        except Exception:
            pass
        writes = taps.writes(case['kind'])
        sched = taps.schedule(case)
        offprob = taps.stream_offset_problem()
    content = read_dest(case, dst)
    out = outcome_of(err)
    line = fmt_result(out, content, writes, fmt_parts(case, client.log))
    return line, sched, {'outcome': out, 'content': content, 'offsets': offprob, 'err': type(err).__name__ if err else None,
                         'order_used': order_used,
                         'max_calls': max([0] + [int(x.split('=')[1]) for x in fmt_parts(case, client.log).split(';') if x])}


def run_sched(case):
    """The same download with real executors' threads under the cooperative
    scheduler; the interleaving is the chooser's."""
    from harness.sched import scen, library
    obj = obj_of(case)
    holder = {}

    def scenario(env):
        env.client.objects[('b', 'k')] = obj
        install_scripts(env.client, case)
        dst = make_dest(case, env.tmpdir)
        holder['dst'] = dst
        with env.manager:
            f = env.manager.download('b', 'k', dst)
            env.futures['t0'] = f
            env.future_result('t0', f)

    def collect(run_, env):
        run_.content = read_dest(case, holder['dst'])
    with Taps() as taps:
        r = scen.run_scenario(scenario, chooser=library.make_chooser(case['chooser']),
                              config_kwargs=dict(multipart_threshold=case['thr'], multipart_chunksize=case['chunk'],
                                                 io_chunksize=case['io'], num_download_attempts=case['att'],
                                                 max_request_concurrency=case.get('conc', 3)),
                              max_steps=60000, collect=collect)
        writes = taps.writes(case['kind'])
        sched = taps.schedule(case)
        offprob = taps.stream_offset_problem()
    res = r.results.get('t0')
    if r.deadlock or r.livelock or res is None:
        out = 'failed:' + ('deadlock' if r.deadlock else 'livelock' if r.livelock else 'noresult')
    elif res[0] == 'ok':
        out = 'ok'
    else:
        out = 'nofile' if res[1] == 'FileNotFoundError' else 'failed:' + res[1]
    line = fmt_result(out, r.content, writes, fmt_parts(case, r.client.log))
    return line, sched, {'outcome': out, 'content': r.content, 'offsets': offprob,
                         'err': None if out == 'ok' else (res[1] if res else 'no result'),
                         'max_calls': max([0] + [int(x.split('=')[1]) for x in fmt_parts(case, r.client.log).split(';') if x])}


# ---------------------------------------------------------------- the process pool, in process

class _Monitor:
    def __init__(self):
        self.expected = None

    def notify_expected_jobs_to_complete(self, transfer_id, n):
        self.expected = n


class _Queue:
    def __init__(self):
        self.items = []

    def put(self, x):
        self.items.append(x)


class RecFile:
    def __init__(self, f, log):
        self.f, self.log = f, log

    def __getattr__(self, name):
        return getattr(self.f, name)

    def write(self, data):
        self.log.append((self.f.tell(), bytes(data)))
        r = self.f.write(data)
        self.f.flush()
        return r

    def __enter__(self):
        return self

    def __exit__(self, *a):
        self.f.close()


def run_pool(case, tmpdir):
    from harness.fakes3 import FakeS3
    from s3transfer import processpool
    from s3transfer.utils import OSUtils
    obj = obj_of(case)
    for f in glob.glob(os.path.join(tmpdir, '*')):
        os.remove(f)
    client = FakeS3()
    client.objects[('b', 'k')] = obj
    turn = {}
    back = threading.Semaphore(0)
    baton = case['mode'] == 'baton'

    def on_read(p):
        if baton and threading.current_thread() is not main_thread:
            back.release()
            turn[p].acquire(timeout=20)
    main_thread = threading.current_thread()
    install_scripts(client, case, on_read=on_read)
    wlog = []
    q, mon = _Queue(), _Monitor()
    cfg = processpool.ProcessTransferConfig(multipart_threshold=case['thr'], multipart_chunksize=case['chunk'])
    sub = processpool.GetObjectSubmitter(transfer_config=cfg, client_factory=None, transfer_monitor=mon,
                                         osutil=OSUtils(), download_request_queue=None, worker_queue=q)
    sub._client = client
    worker = processpool.GetObjectWorker(queue=None, client_factory=None, transfer_monitor=mon, osutil=OSUtils())
    worker._client = client
    worker._IO_CHUNKSIZE = case['io']
    if case['att'] is not None:
        worker._MAX_ATTEMPTS = case['att']
    final = os.path.join(tmpdir, 'dst')
    req = processpool.DownloadFileRequest(transfer_id=1, bucket='b', key='k', filename=final, extra_args={},
                                          expected_size=len(obj))
    errs = []
    picks_used = []
    temp = None
    had_open = hasattr(processpool, 'open')
    processpool.open = lambda fn, mode='r', *a, **k: RecFile(open(fn, mode, *a, **k), wlog) if '+' in mode else open(fn, mode, *a, **k)
    try:
        try:
            sub._submit_get_object_jobs(req)
        except Exception as e:
            errs.append(e)
        jobs = list(q.items)
        if jobs:
            temp = jobs[0].temp_filename

        def do(job):
            try:
                worker._do_get_object(bucket=job.bucket, key=job.key, temp_filename=job.temp_filename,
                                      extra_args=job.extra_args, offset=job.offset)
            except Exception as e:
                errs.append(e)
        if not errs and not baton:
            order = [p for p in case.get('order') or [] if p < len(jobs)]
            order += [p for p in range(len(jobs)) if p not in order]
            for p in order:
                do(jobs[p])
        elif not errs:
            done = {}
            threads = {}
            for p, job in enumerate(jobs):
                turn[p] = threading.Semaphore(0)

                def body(p=p, job=job):
                    turn[p].acquire(timeout=20)
                    try:
                        do(job)
                    finally:
                        done[p] = True
                        back.release()
                threads[p] = threading.Thread(target=body, daemon=True)
                threads[p].start()
            live = list(range(len(jobs)))
            picks = list(case.get('order') or [])
            while live:
                p = picks.pop(0) if picks else live[0]
                if p not in live:
                    continue
                picks_used.append(p)
                turn[p].release()
                if not back.acquire(timeout=20):
                    errs.append(RuntimeError('baton timeout'))
                    break
                if done.get(p):
                    threads[p].join(5)
                    live.remove(p)
    finally:
        if not had_open:
            del processpool.open
    content = None
    if temp and os.path.exists(temp):
        content = open(temp, 'rb').read()
    out = 'ok' if not errs else 'failed:' + type(errs[0]).__name__
    sched = [part_of_offset(case, o) for o, _ in wlog]
    line = fmt_result(out, content, wlog, fmt_parts(case, client.log))
    return line, sched, {'outcome': out, 'content': content, 'offsets': None,
                         'err': type(errs[0]).__name__ if errs else None, 'order_used': picks_used if baton else None,
                         'max_calls': max([0] + [int(x.split('=')[1]) for x in fmt_parts(case, client.log).split(';') if x])}


def run_impl(case, tmpdir):
    if case['front'] == 'pool':
        return run_pool(case, tmpdir)
    if case['mode'] == 'sched':
        return run_sched(case)
    return run_manager(case, tmpdir)


# ---------------------------------------------------------------- oracle

def oracle_info(case, info):
    """C02 on the implementation's behaviour alone."""
    obj = obj_of(case)
    att = case['att'] if case['att'] is not None else 5
    if info['max_calls'] > max(att, 0):
        return f'{info["max_calls"]} GetObject calls for one request with {att} attempts allowed'
    if info['outcome'] == 'ok':
        if len(bytes.fromhex(case.get('init') or '')) > len(obj):
            return None
        if info['content'] != obj:
            got = None if info['content'] is None else info['content'].hex()
            return f'the download reported success but the destination holds {got}, the object is {obj.hex()}'
        if info['offsets']:
            return 'the download reported success but on the stream a ' + info['offsets']
        return None
    if in_hypothesis(case):
        return (f'no fault beyond the statement\'s hypothesis was injected, yet the download did not deliver the object: '
                f'{info["outcome"]} ({info["err"]})')
    return None


def oracle(case, tmpdir):
    _, _, info = run_impl(case, tmpdir)
    return oracle_info(case, info)


def sig(case):
    c = {k: case[k] for k in sorted(case) if k != 'shape'}
    return 'c02:' + json.dumps(c, sort_keys=True)


def short(case):
    where = case['front'] + ('/' + case['kind'] if case['front'] == 'mgr' else '') + '/' + case['mode']
    return (f'{where} object {len(obj_of(case))} bytes, threshold {case["thr"]}, chunk {case["chunk"]}, io chunk {case["io"]}, '
            f'attempts {case["att"]}, faults {case["faults"]}, reads {case["reads"]}'
            + (f', order {case["order"]}' if case.get('order') else '')
            + (f', chooser {case["chooser"]}' if case.get('chooser') else ''))


def shrink(case, tmpdir):
    """Greedy: drop read scripts, fault entries, bytes of the object."""
    best = case
    changed = True
    budget = 60
    while changed and budget > 0:
        changed = False
        cands = []
        if any(best['reads']):
            cands.append(dict(best, reads=[]))
        for p in range(len(best['faults'])):
            for i in range(len(best['faults'][p])):
                fs = [list(x) for x in best['faults']]
                del fs[p][i]
                cands.append(dict(best, faults=fs))
        if len(best['obj']) > 2:
            cands.append(dict(best, obj=best['obj'][:-2]))
        if best.get('init'):
            cands.append(dict(best, init=''))
        for c in cands:
            budget -= 1
            try:
                if in_hypothesis(c) == in_hypothesis(best) and oracle(c, tmpdir):
                    best, changed = c, True
                    break
            except Exception:
                pass
            if budget <= 0:
                break
    return best


def report_failure(ctx, case, why, tmpdir):
    n = ctx.__dict__.setdefault('c02_reported', 0)
    if n >= 4:
        return
    ctx.c02_reported = n + 1
    if case['mode'] in ('perm', 'baton'):
        # the order actually used (the generated one is longer than needed)
        _, _, info = run_impl(case, tmpdir)
        c2 = dict(case, order=info.get('order_used') or case.get('order'))
        if oracle(c2, tmpdir):
            case = c2
    small = shrink(case, tmpdir) if case['mode'] != 'sched' else case
    why2 = oracle(small, tmpdir) or why
    ctx.report(sig(small), f'download ({short(small)}): {why2}',
               {'kind': 'schedule' if small['mode'] in ('sched', 'perm', 'baton') else 'input', 'case': small})


# ---------------------------------------------------------------- generators

def gen_scripts(rng, case, malformed):
    faults, reads = [], []
    for p in range(nparts_of(case)):
        ln = part_len(case, p)
        fl = []
        if rng.random() < (0.6 if nparts_of(case) <= 2 else 0.35):
            n = rng.randrange(0, case['att'] + (2 if malformed else 0))
            if not malformed:
                n = min(n, case['att'] - 1)
            for _ in range(n):
                nm = rng.choice(RETRYABLE if (not malformed or rng.random() < 0.7) else NONRETRYABLE)
                k = rng.random()
                if k < 0.2:
                    fl.append(['q', nm])
                elif k < 0.3 and malformed:
                    fl.append(['n'])
                else:
                    fl.append(['a', rng.randrange(0, ln + (4 if malformed else 1)), nm])
        faults.append(fl)
        rl = []
        for _ in range(rng.randrange(0, case['att'] + 1)):
            rl.append([rng.randrange(0 if malformed else 1, 7) for _ in range(rng.randrange(0, 5))])
        reads.append(rl)
    while faults and not faults[-1]:
        faults.pop()
    while reads and not reads[-1]:
        reads.pop()
    case['faults'], case['reads'] = faults, reads


def gen_base(rng, malformed, max_parts=None):
    thr = rng.choice([1, 2, 3, 4, 5, 6, 8])
    chunk = rng.randrange(1, 6)
    which = rng.random()
    if which < 0.12:
        size = 0
    elif which < 0.3:
        size = rng.randrange(0, thr)
    elif which < 0.42:
        size = thr
    elif which < 0.6:
        size = thr + rng.randrange(1, 2 * chunk + 2)
    else:
        size = rng.randrange(thr, thr + 12)
        if size % chunk == 0 and rng.random() < 0.7:
            size += rng.randrange(1, chunk) if chunk > 1 else 0
    if max_parts and size >= thr:
        size = min(size, max(thr, max_parts * chunk))
        if -(-size // chunk) > max_parts:
            size = max_parts * chunk
        if size < thr:
            thr = max(1, size)
    obj = bytes(rng.randrange(256) for _ in range(size))
    case = {'front': 'mgr', 'kind': rng.choice(KINDS), 'init': '', 'obj': obj.hex(), 'thr': thr, 'chunk': chunk,
            'io': rng.randrange(1, 6), 'att': rng.choice([1, 2, 3, 3, 4]), 'mode': 'plain',
            'shape': 'malformed' if malformed else 'structured'}
    if case['kind'] == 'seekable' and rng.random() < 0.3:
        n = rng.randrange(0, size + (4 if malformed else 1))
        case['init'] = bytes(rng.randrange(256) for _ in range(n)).hex()
    gen_scripts(rng, case, malformed)
    return case


def plain_cases(ctx):
    n1, n2 = (40000, 10000) if ctx.thorough() else (6000, 1600)
    rng = ctx.rng('plain', 'structured')
    cases = [gen_base(rng, False) for _ in range(n1)]
    rng = ctx.rng('plain', 'malformed')
    cases += [gen_base(rng, True) for _ in range(n2)]
    return cases


def grid_cases():
    """Deterministic grid: sizes {0, <t, =t, >t, non-multiples} x chunk 1..5 x io 1..5 x kinds, one mid-stream
    retry in the first and in the last request."""
    out = []
    thr = 4
    for size in (0, 1, 3, 4, 5, 7, 9, 10, 11):
        for chunk in range(1, 6):
            for io_ in range(1, 6):
                for kind in KINDS:
                    obj = bytes((7 * i + 3) % 251 for i in range(size))
                    c = {'front': 'mgr', 'kind': kind, 'init': '', 'obj': obj.hex(), 'thr': thr, 'chunk': chunk,
                         'io': io_, 'att': 3, 'mode': 'plain', 'shape': 'grid', 'faults': [], 'reads': []}
                    n = nparts_of(c)
                    first = part_len(c, 0)
                    last = part_len(c, n - 1)
                    faults = [[] for _ in range(n)]
                    reads = [[] for _ in range(n)]
                    faults[0] = [['a', (first + 1) // 2, 'timeout']]
                    reads[0] = [[1, 2], [3]]
                    if n > 1:
                        faults[n - 1] = [['q', 'connection'], ['a', max(last - 1, 0), 'incomplete']]
                        reads[n - 1] = [[], [2], [1]]
                    c['faults'], c['reads'] = faults, reads
                    out.append(c)
    return out


def perm_cases(ctx):
    """Every completion order of <= 4 ranged parts (blocks of a part's writes in the permuted order), and random
    interleavings respecting each part's own order; seekable kinds only (a stream's IO tasks are FIFO)."""
    rng = ctx.rng('perm')
    out = []
    nbase = 16 if ctx.thorough() else 7
    for nparts in (2, 3, 4):
        for _ in range(nbase):
            c = gen_base(rng, False, max_parts=nparts)
            c['kind'] = rng.choice(['path', 'seekable'])
            c['init'] = ''
            chunk = c['chunk']
            size = rng.randrange((nparts - 1) * chunk + 1, nparts * chunk + 1)
            c['thr'] = rng.randrange(1, size + 1)
            c['obj'] = bytes(rng.randrange(256) for _ in range(size)).hex()
            gen_scripts(rng, c, False)
            c['mode'] = 'perm'
            c['shape'] = 'perm'
            for perm in itertools.permutations(range(nparts)):
                order = [p for p in perm for _ in range(64)]
                out.append(dict(c, order=order))
            for _ in range(6):
                out.append(dict(c, order=[rng.randrange(nparts) for _ in range(40)]))
    return out


def sched_cases(ctx):
    rng = ctx.rng('sched')
    out = []
    n = 900 if ctx.thorough() else 220
    for i in range(n):
        c = gen_base(rng, False, max_parts=5)
        c['mode'] = 'sched'
        c['shape'] = 'sched'
        c['conc'] = rng.randrange(1, 5)
        if i % 2:
            c['chooser'] = {'kind': 'random', 'seed': rng.randrange(1 << 30)}
        else:
            c['chooser'] = {'kind': 'pct', 'seed': rng.randrange(1 << 30), 'depth': rng.randrange(1, 4), 'horizon': 300}
        out.append(c)
    # targeted: a ranged download to a stream whose LATER part is re-delivered with different chunk
    # boundaries (attempt 1: a short first chunk, then a retryable fault; attempt 2: full chunks) while
    # the first part is slow -- the re-delivered data overlaps what is still withheld
    for i in range(160 if ctx.thorough() else 40):
        chunk = rng.choice([4, 5, 6])
        io_ = rng.choice([3, 4])
        nparts = rng.choice([2, 3])
        size = chunk * nparts - rng.randrange(0, 2)
        obj = bytes(rng.randrange(256) for _ in range(size))
        victim = rng.randrange(1, nparts)
        faults = [[] for _ in range(nparts)]
        reads = [[] for _ in range(nparts)]
        short = rng.randrange(1, io_)
        faults[victim] = [['a', short, rng.choice(['timeout', 'incomplete', 'streaming'])]]
        reads[victim] = [[short], []]
        c = {'front': 'mgr', 'kind': 'stream', 'init': '', 'obj': obj.hex(), 'thr': chunk, 'chunk': chunk, 'io': io_,
             'att': 3, 'mode': 'sched', 'shape': 'sched-redelivery', 'conc': rng.choice([2, 3]), 'faults': faults, 'reads': reads,
             'chooser': {'kind': 'pct', 'seed': rng.randrange(1 << 30), 'depth': rng.randrange(1, 4), 'horizon': 200}}
        out.append(c)
    return out


def pool_cases(ctx):
    rng = ctx.rng('pool')
    out = []
    n = 8000 if ctx.thorough() else 1500
    for i in range(n):
        malformed = i % 6 == 5
        c = gen_base(rng, malformed, max_parts=5)
        c['front'] = 'pool'
        c['kind'] = 'path'
        c['init'] = ''
        if c['thr'] < 1:
            c['thr'] = 1
        if rng.random() < 0.3:
            c['att'] = None               # the worker's own _MAX_ATTEMPTS
            c2 = dict(c, att=5)
            gen_scripts(rng, c2, malformed)
            c['faults'], c['reads'] = c2['faults'], c2['reads']
        npt = nparts_of(c)
        if i % 2:
            c['mode'] = 'baton'
            c['order'] = [rng.randrange(npt) for _ in range(60)]
        else:
            c['mode'] = 'order'
            order = list(range(npt))
            rng.shuffle(order)
            c['order'] = order
        c['shape'] = 'pool-' + c['mode'] + ('-malformed' if malformed else '')
        out.append(c)
    return out


def corpus_cases():
    out = []
    for fn in sorted(glob.glob(os.path.join(common.VERIF, 'corpus', 'download', '*.json'))):
        c = json.load(open(fn))
        c.setdefault('shape', 'corpus')
        out.append(c)
    return out


def nontrivial(case, line):
    """retried at least once, or more than one planned request, or an empty object"""
    retried = any(int(x.split('=')[1]) > 1 for x in line.split(' | ')[-1].split(';') if '=' in x) if ' | ' in line else False
    return retried or nparts_of(case) > 1 or not case['obj']


# ---------------------------------------------------------------- library.run scenarios

def library_runs(ctx, fails, tmpdir):
    """harness/sched/library.run specs (one faulted range, random / PCT choosers), translated afterwards into a
    case of the model from what the run did."""
    from harness.sched import library
    rng = ctx.rng('library')
    n = 400 if ctx.thorough() else 90
    lines, impls, cases = [], [], []
    for i in range(n):
        size = rng.choice([0, 2, 4, 5, 7, 9, 10, 11, 13])
        thr, chunk, io_ = rng.choice([3, 4, 6]), rng.randrange(1, 5), rng.randrange(1, 5)
        kind = KINDS[i % 3]
        att = rng.choice([2, 3, 4])
        gf = None
        if rng.random() < 0.8:
            gf = dict(range_idx=rng.randrange(0, 3), attempts=rng.randrange(1, att), after=rng.randrange(0, chunk + 1),
                      exc='timeout', read_sizes=[rng.randrange(1, 4) for _ in range(rng.randrange(0, 3))])
        ch = ({'kind': 'random', 'seed': rng.randrange(1 << 30)} if i % 2 else
              {'kind': 'pct', 'seed': rng.randrange(1 << 30), 'depth': rng.randrange(1, 4), 'horizon': 300})
        spec = dict(transfers=[dict(kind='download', dst={'path': 'path', 'seekable': 'seekable', 'stream': 'nonseekable'}[kind],
                                    size=size)],
                    cfg=dict(multipart_threshold=thr, multipart_chunksize=chunk, io_chunksize=io_,
                             num_download_attempts=att, max_request_concurrency=rng.randrange(1, 5)),
                    chooser=ch, get_fault=gf)
        with Taps() as taps:
            r = library.run(spec)
            obj = library.payload(size, 0)
            case = {'front': 'mgr', 'kind': kind, 'init': '', 'obj': obj.hex(), 'thr': thr, 'chunk': chunk, 'io': io_,
                    'att': att, 'mode': 'sched', 'shape': 'library', 'chooser': ch, 'faults': [], 'reads': [],
                    'library_spec': spec}
            npt = nparts_of(case)
            if gf:
                # the faulted range is the range_idx-th one to reach get_script, which depends on the schedule: a striking
                # fault shows as a repeated request for that Range (a fault that does not strike has no effect at all)
                counts = {}
                for rec in r.client.log:
                    if rec['op'] == 'GetObject':
                        counts[rec['kwargs'].get('Range')] = counts.get(rec['kwargs'].get('Range'), 0) + 1
                faults = [[] for _ in range(npt)]
                for rg, n_ in counts.items():
                    if n_ > 1:
                        p = 0 if rg is None or size < thr else int(rg.split('=')[1].split('-')[0]) // chunk
                        faults[p] = [['a', gf['after'], 'timeout']] * gf['attempts']
                case['faults'] = faults
                case['reads'] = [[list(gf['read_sizes'])] * att for _ in range(npt)]
            writes = taps.writes(kind)
            sched = taps.schedule(case)
            offprob = taps.stream_offset_problem()
        res = r.results.get('t0')
        out = 'ok' if res and res[0] == 'ok' else 'failed:' + str(res[1] if res else ('deadlock' if r.deadlock else 'none'))
        content = r.dest_bytes.get('t0')
        parts = fmt_parts(case, r.client.log)
        info = {'outcome': out, 'content': content, 'offsets': offprob, 'err': res[1] if res and res[0] != 'ok' else None,
                'max_calls': max([0] + [int(x.split('=')[1]) for x in parts.split(';') if x])}
        line = fmt_result(out, content, writes, parts)
        ctx.count('download-library-run', 1, nontrivial_key=(model_line(case, sched)) if nontrivial(case, line) else None,
                  kind=kind, chooser=ch['kind'], mode='single' if size < thr else 'ranged')
        why = oracle_info(case, info)
        if why:
            ctx.report('c02:library:' + json.dumps(spec, sort_keys=True),
                       f'scheduled download (library.run spec {json.dumps(spec, sort_keys=True)}): {why}',
                       {'kind': 'schedule', 'case': {'library_spec': spec}})
        lines.append(model_line(case, sched))
        impls.append(line)
        cases.append(case)
    model = [canon_model(m) for m in common.run_model('download', lines)]
    ctx.cov['components'].setdefault('download-library-run', {'cases': 0, 'hist': {}})['mismatches'] = 0
    for c, l, i, m in zip(cases, lines, impls, model):
        if i != m:
            ctx.cov['components']['download-library-run']['mismatches'] += 1
            fails.append((c, l, i, m))
    if cases:
        ctx.sample({'component': 'download-library-run', 'spec': cases[0]['library_spec'], 'model_cmd': lines[0],
                    'impl_and_model_output': impls[0]})


# ---------------------------------------------------------------- the check

def differential(ctx, component, cases, tmpdir, fails):
    lines, impls, infos = [], [], []
    for c in cases:
        line, sched, info = run_impl(c, tmpdir)
        lines.append(model_line(c, sched))
        impls.append(line)
        infos.append(info)
    try:
        model = [canon_model(m) for m in common.run_model('download', lines)]
    except common.BuildBroken as b:
        ctx.broken = b
        return
    comp = ctx.cov['components'].setdefault(component, {'cases': 0, 'hist': {}})
    comp.setdefault('mismatches', 0)
    for c, l, i, m, info in zip(cases, lines, impls, model, infos):
        ctx.count(component, 1, nontrivial_key=l if nontrivial(c, i) else None,
                  shape=c.get('shape', '?'), kind=c['kind'] if c['front'] == 'mgr' else 'pool',
                  mode='single' if len(obj_of(c)) < c['thr'] else 'ranged', outcome=i.split(' | ')[0])
        why = oracle_info(c, info)
        if why:
            report_failure(ctx, c, why, tmpdir)
        elif i != m:
            comp['mismatches'] += 1
            fails.append((c, l, i, m))
    for c, l, i in list(zip(cases, lines, impls))[:2]:
        ctx.sample({'component': component, 'case': {k: v for k, v in c.items() if k != 'order'}, 'model_cmd': l,
                    'impl_and_model_output': i}, limit=2)


def pool_empty_object_note(ctx, tmpdir):
    """Deviation record: the pool cannot download an empty object (allocate(0))."""
    c = {'front': 'pool', 'kind': 'path', 'init': '', 'obj': '', 'thr': 4, 'chunk': 3, 'io': 2, 'att': None,
         'faults': [], 'reads': [], 'mode': 'order', 'order': []}
    line, _, info = run_pool(c, tmpdir)
    ctx.notes.append(f'process pool, empty object: {info["outcome"]} -- not a success, hence outside C02; '
                     f'model: pool_allocate 0 = None')


def run(ctx):
    ok = common.proofs(ctx, ['C02', 'C02Legacy'], EXTRACT, COMPONENTS)
    ctx.assumptions = [
        'GetObject returns the stored bytes of the requested range (FakeS3 / S3Spec); the body raises its scripted error on the first '
        'read issued once k bytes were returned',
        'a request task is sequential: its deliveries reach the output manager in the order it produced them (attempt after attempt); '
        'tasks of different ranges interleave arbitrarily (all interleavings are quantified over in the theorems)',
        'offset-addressed destinations: seek(o); write(d) overwrites [o, o+len d), zero-fills a gap past the end, write(b"") changes nothing '
        '(os files, io.BytesIO); the destination initially holds no more bytes than the object (a temp file is new; a seekable stream '
        'longer than the object keeps its tail: Example C02_stale_tail_remains)',
        'non-seekable destination: the IO executor runs the released writes in submission order and request_writes + submission are '
        'atomic under the manager\'s submit lock (C16\'s assumptions; C17/C04 for the executor)',
        'success of the future means every request task returned normally and the final IO task ran after all queued writes '
        '(one IO worker, FIFO; C03/C08 state this about the coordinator)',
        'process pool: multiprocessing, queues and the monitor are not run (C05/C06/C07 pool protocol); the real submitter planning, '
        'allocate and worker loop are run in one process, concurrent workers emulated by threads handing over at every body read',
        'the extracted OCaml model and its line driver are trusted for the correspondence only',
    ]
    ctx.cov['rule'] = (
        'a case = (front-end, destination kind, object bytes, threshold, chunk, io chunk, attempts, per planned request a fault script '
        '[request raises | body raises after k bytes; retryable or not] and per attempt a read-size script, how the run is driven). '
        'Streams: corpus; a deterministic grid sizes {0,1,3,4,5,7,9,10,11} x threshold 4 x chunk 1..5 x io chunk 1..5 x 3 kinds with '
        'retries in the first and last request; random structured cases (fewer than attempts retryable faults per request) and malformed '
        'cases (too many / non-retryable / out-of-range faults, zero read sizes, destination longer than the object) through '
        'TransferManager(executor_cls=NonThreadedExecutor); every completion order of 2..4 ranged parts plus random interleavings with '
        'the IO executor deferred and the real IOWriteTasks run in that order; scheduled multi-threaded runs (harness/sched: random and '
        'PCT choosers, own scripts and library.run specs) whose exhibited interleaving becomes the model\'s schedule; the process-pool '
        'submitter + worker loop in process (job orders, read-by-read baton interleavings). Compared with the extracted Coq model: '
        'outcome, destination bytes, sequence of (offset, data) writes, GetObject calls per Range. Distinct = by model command; '
        'non-trivial = some request was retried, or more than one planned request, or the empty object.')
    tmpdir = tempfile.mkdtemp(prefix='c02-')
    fails = []
    try:
        if not ok:
            search_after_break(ctx, tmpdir)
            return
        streams = [('download-manager', corpus_cases() + grid_cases() + plain_cases(ctx)),
                   ('download-completion-orders', perm_cases(ctx)),
                   ('download-scheduled', sched_cases(ctx)),
                   ('download-pool', pool_cases(ctx))]
        for name, cases in streams:
            differential(ctx, name, cases, tmpdir, fails)
            if ctx.broken is not None:
                break
        if ctx.broken is None:
            library_runs(ctx, fails, tmpdir)
            pool_empty_object_note(ctx, tmpdir)
        # mismatches whose oracle did not fail: the correspondence is what broke
        seen = set()
        for (c, l, i, m) in sorted(fails, key=lambda f: len(f[1]))[:12]:
            key = (c['front'], c.get('kind'), c['mode'])
            if key in seen:
                continue
            seen.add(key)
            ctx.report(f'corr:download:{c["front"]}:{c.get("kind")}:{c["mode"]}',
                       f'model and implementation disagree on {l}: impl={i} model={m}; C02\'s oracle does not fail on this case, so '
                       f'what is broken is the correspondence: coq/model/DownloadDest.v no longer mirrors the code',
                       {'kind': 'correspondence', 'theorem_or_correspondence': f'differential download ({c["front"]}/{c["mode"]})',
                        'case': c, 'impl': i, 'model': m}, no_input=True)
        if ctx.broken is not None:
            search_after_break(ctx, tmpdir)
    finally:
        shutil.rmtree(tmpdir, ignore_errors=True)
    try:
        from harness.props import legacy
        legacy.check_c02(ctx)
    except (ImportError, AttributeError) as e:
        ctx.notes.append(f'legacy front-end (legacy.check_c02) not available yet: {e!r}')


def search_after_break(ctx, tmpdir):
    """A proof obligation, the build or the model driver broke: search for a
    concrete failing input with the oracle alone."""
    found = False
    rng = ctx.rng('search')
    cases = corpus_cases() + grid_cases()[::3] + [gen_base(rng, False) for _ in range(600)]
    prm = perm_cases(ctx)
    cases += prm[::max(1, len(prm) // 150)]
    cases += pool_cases(ctx)[:200]
    for c in cases:
        try:
            why = oracle(c, tmpdir)
        except Exception as e:
            why = None
            ctx.notes.append(f'oracle crashed on {short(c)}: {e!r}')
        ctx.count('download-oracle', 1, nontrivial_key=sig(c), front=c['front'])
        if why:
            report_failure(ctx, c, why, tmpdir)
            found = True
            break
    if not found:
        ctx.report('broken:' + ctx.broken.what, ctx.broken.what,
                   {'kind': 'theorem', 'theorem_or_correspondence': ctx.broken.what, 'log': ctx.broken.log}, no_input=True)


def replay(ctx, data):
    case = data.get('case') or {}
    tmpdir = tempfile.mkdtemp(prefix='c02-replay-')
    try:
        if isinstance(case, dict) and 'library_spec' in case and 'front' not in case:
            from harness.sched import library
            spec = case['library_spec']
            with Taps() as taps:
                r = library.run(spec)
                offprob = taps.stream_offset_problem()
            size = spec['transfers'][0]['size']
            obj = library.payload(size, 0)
            res = r.results.get('t0')
            bad = not (res and res[0] == 'ok') or r.dest_bytes.get('t0') != obj or bool(offprob)
            print('library run:', res, r.dest_bytes.get('t0'), 'object', obj)
            return bad
        if isinstance(case, dict) and 'front' in case:
            why = oracle(case, tmpdir)
            print('oracle:', why)
            return why is not None
    finally:
        shutil.rmtree(tmpdir, ignore_errors=True)
    run(ctx)
    return bool(ctx.violations)
