"""C06: OSUtils.get_temp_filename against coq/model/TempName.v.

The real method is run on destination names of every interesting length around
the file-name limit and around limit - |suffix|, with the random extension
replaced by chosen ones (including extensions the name already ends with); the
model's answer is computed inside Coq (one coqc call, vm_compute) on the same
inputs and compared; the oracle judges the implementation alone."""
import os
import re
import shutil
import subprocess
import tempfile

from harness import common


def cases():
    out = []
    exts = ['DEADBEEF', '0aF39c11', 'A']
    for ext in exts:
        for n in (0, 1, 8, 9, 10, 100, 244, 245, 246, 247, 253, 254, 255, 256, 300):
            for tail in ('', '.' + ext):
                name = ('n' * n)
                if tail:
                    if n < len(tail):
                        continue
                    name = name[:n - len(tail)] + tail
                for d in ('', 'some/dir'):
                    out.append({'dir': d, 'name': name, 'ext': ext})
    return out


def run_impl(c):
    from s3transfer import utils
    saved = utils.random_file_extension
    utils.random_file_extension = lambda num_digits=8: c['ext']
    try:
        osu = utils.OSUtils()
        L = getattr(osu, '_MAX_FILENAME_LEN', None)
        r = osu.get_temp_filename(os.path.join(c['dir'], c['name']) if c['dir'] else c['name'])
    finally:
        utils.random_file_extension = saved
    return L, r


def oracle(c, L, r):
    suffix = os.extsep + c['ext']
    base, d = os.path.basename(r), os.path.dirname(r)
    if d != c['dir']:
        return f'the temporary file is not a sibling of the destination: {r!r}'
    if base == c['name']:
        if not (len(c['name']) == (L or 255) and c['name'].endswith(suffix)):
            return (f'the temporary name EQUALS the destination name ({len(c["name"])} characters, suffix {suffix!r}): '
                    'the download would write in place and the failure cleanup would delete the destination')
    if len(c['name']) <= (L or 255) and len(base) > (L or 255):
        return f'temporary name of {len(base)} characters for a legal destination name of {len(c["name"])} (limit {L})'
    if not base.endswith(suffix):
        return f'the temporary name {base[-20:]!r} does not end with the drawn suffix {suffix!r}'
    return None


def coq_list(s):
    return '[' + '; '.join(str(ord(ch)) for ch in s) + ']'


def model_answers(items):
    """items: [(L, name, suffix, impl_basename)] -> [bool] (model == impl), computed in Coq."""
    d = tempfile.mkdtemp(prefix='verif-c06temp-')
    try:
        lines = ['From Coq Require Import List Arith.', 'From S3V Require Import model.TempName.', 'Import ListNotations.',
                 'Definition cases : list (nat * list nat * list nat * list nat) := [']
        lines.append(';\n'.join(f'  ({L}, {coq_list(n)}, {coq_list(s)}, {coq_list(r)})' for (L, n, s, r) in items))
        lines += ['].', 'Eval vm_compute in map (fun c => match c with (L, n, s, r) => list_nat_eqb (temp_name L n s) r end) cases.']
        p = os.path.join(d, 'TempCases.v')
        open(p, 'w').write('\n'.join(lines) + '\n')
        rc, out = common.sh(['timeout', '300', 'coqc', '-Q', common.COQ, 'S3V', p], 320, cwd=d)
        if rc != 0:
            raise common.BuildBroken('coq/model/TempName.v: the generated cases file does not evaluate', out[-2000:])
        return [t == 'true' for t in re.findall(r'\b(true|false)\b', out)]
    finally:
        shutil.rmtree(d, ignore_errors=True)


def check(ctx):
    try:
        with common.Lock():
            common.coq_make(['props/C06Temp.vo'])
    except common.BuildBroken as b:
        if ctx.broken is None:
            ctx.broken = b
        return
    cs = cases()
    items, keep = [], []
    for c in cs:
        try:
            L, r = run_impl(c)
        except Exception as e:      # noqa
            ctx.report(f'temp:crash:{len(c["name"])}:{c["ext"]}', f'get_temp_filename raised {e!r} for a name of {len(c["name"])} characters',
                       {'kind': 'input', 'component': 'temp-name', 'case': c})
            continue
        ctx.count('temp-name', 1, nontrivial_key=(c['dir'], len(c['name']), c['name'][-10:], c['ext']),
                  length='>=limit-suffix' if len(c['name']) > 240 else 'short', ends_with_suffix=str(c['name'].endswith('.' + c['ext'])))
        why = oracle(c, L, r)
        if why:
            ctx.report(f'temp:{len(c["name"])}:{c["ext"]}:{c["name"].endswith("." + c["ext"])}',
                       f'OSUtils.get_temp_filename, destination name of {len(c["name"])} characters, extension {c["ext"]!r}: {why}',
                       {'kind': 'input', 'component': 'temp-name', 'case': c})
            continue
        if isinstance(L, int):
            items.append((L, c['name'], os.extsep + c['ext'], os.path.basename(r)))
            keep.append(c)
    if not items:
        ctx.report('corr:temp-name:limit', 'OSUtils._MAX_FILENAME_LEN is not readable: the model cannot be instantiated',
                   {'kind': 'correspondence', 'theorem_or_correspondence': 'TempName.temp_name vs OSUtils.get_temp_filename'}, no_input=True)
        return
    try:
        ans = model_answers(items)
    except common.BuildBroken as b:
        if ctx.broken is None:
            ctx.broken = b
        return
    if len(ans) != len(items):
        ctx.report('corr:temp-name:driver', f'{len(ans)} answers for {len(items)} cases from the Coq evaluation',
                   {'kind': 'correspondence', 'theorem_or_correspondence': 'TempName.temp_name vs OSUtils.get_temp_filename'}, no_input=True)
        return
    for c, ok, it in zip(keep, ans, items):
        if not ok:
            ctx.report(f'corr:temp-name:{len(c["name"])}',
                       f'model temp_name and OSUtils.get_temp_filename disagree for a name of {len(c["name"])} characters, '
                       f'extension {c["ext"]!r}: impl={it[3][-24:]!r} (the oracle does not fail on it)',
                       {'kind': 'correspondence', 'theorem_or_correspondence': 'TempName.temp_name vs OSUtils.get_temp_filename',
                        'case': c}, no_input=True)
    ctx.cov.setdefault('sub_checks', []).append({'component': 'temp-name', 'cases': len(items),
                                                 'model_evaluated_by': 'coqc + vm_compute on a generated cases file'})
    ctx.sample({'component': 'temp-name', 'case': {k: (v if k != 'name' else f'{len(v)} chars ...{v[-12:]}') for k, v in keep[-1].items()},
                'impl': items[-1][3][-24:], 'model_agrees': ans[-1]})


def platform_rename(ctx):
    """The protocol models take the final rename as ONE atomic step that replaces the destination.
    s3transfer.compat selects a remove-then-rename strategy for Windows only; on every other
    platform name the destination must never be removed first (a crash in between would lose
    the previous content).  The module is re-imported under several platform names."""
    import importlib
    import sys
    compat = importlib.import_module('s3transfer.compat')
    saved = sys.platform
    d = tempfile.mkdtemp(prefix='verif-c06plat-')
    try:
        for plat in ('linux', 'darwin', 'cygwin', 'freebsd14', 'sunos5', 'aix'):
            sys.platform = plat
            try:
                mod = importlib.reload(compat)
            except Exception as e:      # noqa
                ctx.notes.append(f'platform check: s3transfer.compat does not import under sys.platform={plat!r}: {e!r}')
                continue
            src, dst = os.path.join(d, 'src'), os.path.join(d, 'dst')
            open(src, 'wb').write(b'NEW')
            open(dst, 'wb').write(b'OLD')
            removed = []
            real_remove = os.remove

            def spy(path, *a, **k):
                removed.append(os.path.basename(str(path)))
                return real_remove(path, *a, **k)
            os.remove = spy
            try:
                mod.rename_file(src, dst)
            finally:
                os.remove = real_remove
            ctx.count('platform-rename', 1, nontrivial_key=plat, platform=plat)
            if 'dst' in removed:
                ctx.report(f'platform-rename:{plat}',
                           f's3transfer.compat.rename_file under sys.platform={plat!r} REMOVES the destination before renaming the '
                           'temporary file onto it: between the two steps the destination does not exist (not an atomic publish)',
                           {'kind': 'input', 'component': 'platform-rename', 'case': {'platform': plat}})
            elif open(dst, 'rb').read() != b'NEW':
                ctx.report(f'platform-rename:content:{plat}', f'rename_file under sys.platform={plat!r} did not publish the new content',
                           {'kind': 'input', 'component': 'platform-rename', 'case': {'platform': plat}})
    finally:
        sys.platform = saved
        importlib.reload(compat)
        shutil.rmtree(d, ignore_errors=True)


def replay(ctx, data):
    if data.get('component') == 'platform-rename':
        n0 = len(ctx.violations)
        platform_rename(ctx)
        return len(ctx.violations) > n0
    c = data.get('case')
    L, r = run_impl(c)
    why = oracle(c, L, r)
    print('temp-name oracle:', why)
    return why is not None
