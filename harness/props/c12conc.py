"""C12, real concurrency: several managed threads run short programs of
acquire/release on ONE real SlidingWindowSemaphore under the cooperative
deterministic scheduler (harness/sched/core.py).

`s3transfer.utils.threading` is replaced by the scheduler's shim while the
semaphore is constructed, so its Lock and Condition are the scheduler's: every
Lock.acquire is a yield point (also the re-acquisition inside Condition.wait),
Condition.wait releases the lock, blocks until notified and re-acquires through
that yield point -- other threads can run in between.

Observed per run: the critical sections in lock-acquisition order (who, inside
which call, how it ended: token / NoResources / went to wait / released /
ValueError, whom notify() picked).  Checked
  * on the real object after every scheduling step: 0 <= _count, outstanding
    tokens (sum of next - lowest, and tokens handed out minus releases accepted)
    <= capacity;
  * a thread inside acquire(blocking=False) never waits on the condition;
  * tokens of a tag come out 0,1,2,... in critical-section order;
  * the observed linearisation, translated to SemaConc labels, replayed through
    the extracted `cstep`: every result, the final count and the set of sleeping
    threads must be what the model says;
  * a deadlock with every handed-out token released and a thread asleep is a
    lost wake-up.
"""
import itertools

from harness import common, names
from harness.common import hx, unhx


def impl():
    from s3transfer import utils
    return utils


# program op: ('a', tag) acquire(blocking=False) | ('b', tag) acquire(blocking=True)
#           | ('r', i) release the i-th token this thread acquired (skipped if that acquire failed)
#           | ('x', tag, k) release(tag, k) literally

def prog_str(p):
    out = []
    for o in p:
        if o[0] in 'ab':
            out.append(o[0] + hx(o[1]))
        elif o[0] == 'r':
            out.append(f'r#{o[1]}')
        else:
            out.append(f'x{hx(o[1])}:{hx(o[2])}')
    return ' '.join(out)


def prog_parse(s):
    out = []
    for w in s.split():
        if w[0] in 'ab':
            out.append((w[0], unhx(w[1:])))
        elif w[0] == 'r':
            out.append(('r', int(w[2:])))
        else:
            t, k = w[1:].split(':')
            out.append(('x', unhx(t), unhx(k)))
    return tuple(out)


def case_str(cap, programs):
    return f'cap={cap} ' + ' | '.join(f't{i}: {prog_str(p)}' for i, p in enumerate(programs))


class DfsChooser:
    """replays a prefix of choices, then always the first runnable thread;
    records how many threads were runnable at each step"""

    def __init__(self, prefix):
        self.prefix, self.widths, self.i = list(prefix), [], 0

    def choose(self, sched, runnable):
        self.widths.append(len(runnable))
        c = self.prefix[self.i] if self.i < len(self.prefix) else 0
        self.i += 1
        return min(c, len(runnable) - 1)


def tid_of(i):
    return 10 + i


def run_conc(cap, programs, chooser, max_steps=3000):
    """One run.  -> dict(viol=[(clause, text)], labels, observed, final, deadlock, choices, schedule)"""
    from harness.sched import core
    utils = impl()
    sched = core.Sched(chooser=chooser, max_steps=max_steps)
    shim = core.Shim(sched)
    log = []          # critical sections, in lock-acquisition order
    cur = {}          # thread name -> {'i','op','entries','waiting','ticket'}
    viol = []
    flags = {'on': True}

    def add_viol(clause, text):
        if clause not in [c for c, _ in viol]:
            viol.append((clause, text))

    def new_entry(me, lockfree=False):
        st = cur.get(me.name) if me is not None else None
        if st is None or not flags['on']:
            return None
        e = {'thread': st['i'], 'op': st['op'], 'nth': len(st['entries']), 'res': None, 'woken': [],
             'lockfree': lockfree, 'step': sched.step}
        st['entries'].append(e)
        log.append(e)
        return e

    class LLock:
        def __init__(self_):
            self_._l = shim.Lock()

        def acquire(self_, *a, **k):
            r = self_._l.acquire(*a, **k)
            if r:
                new_entry(sched.me())
            return r

        def release(self_):
            if sched.killing:       # a thread unwound out of wait() runs the caller's finally: release()
                if self_._l.locked():
                    self_._l.release()
                return
            self_._l.release()

        def locked(self_):
            return self_._l.locked()

        def __enter__(self_):
            self_.acquire()
            return self_

        def __exit__(self_, *a):
            self_.release()

    class LCondition(shim.Condition):
        def wait(self_, timeout=None):
            me = sched.me()
            st = cur.get(me.name) if me is not None else None
            ticket = {'notified': False, 'owner': st['i'] if st else None}
            if st is not None:
                if st['entries']:
                    st['entries'][-1]['res'] = 'B'
                if st['op'][0] == 'a':
                    add_viol('nonblocking-acquire-waits',
                             f'thread t{st["i"]} is inside acquire({st["op"][1]}, blocking=False) and waits on the '
                             f'condition (count {names.semaphore_free(sem)})')
                st['waiting'], st['ticket'] = True, ticket
            self_.waiters.append(ticket)
            self_.lock.release()
            sched.block_until(lambda: ticket['notified'], 'condition')
            if st is not None:
                st['waiting'] = False
            self_.lock.acquire()
            return True

        def notify(self_, n=1):
            me = sched.me()
            st = cur.get(me.name) if me is not None else None
            if st is not None and st['entries']:
                st['entries'][-1]['woken'] += [tk.get('owner') for tk in self_.waiters[:n]]
            shim.Condition.notify(self_, n)

    class NS:
        Lock = LLock
        Condition = LCondition

        def __getattr__(self_, name):
            return getattr(shim, name)

    saved = utils.threading
    utils.threading = NS()
    try:
        sem = utils.SlidingWindowSemaphore(cap)
    finally:
        utils.threading = saved
    ghost = {'granted': {}, 'released': set(), 'held': 0}

    def check_step(s=None):
        c = names.semaphore_free(sem)
        if c is not None and c < 0:
            add_viol('count-negative', f'_count = {c} after step {sched.step}')
        try:
            nxt_, low_, _pend = names.sliding_window_state(sem)
            out = sum(n - low_[t] for t, n in nxt_.items())
            if out > cap:
                add_viol('more-outstanding-than-capacity',
                         f'{out} tokens outstanding (sum of next - lowest) with capacity {cap} after step {sched.step}')
        except Exception:
            pass
        if ghost['held'] > cap:
            add_viol('more-outstanding-than-capacity',
                     f'{ghost["held"]} tokens handed out and not released with capacity {cap} after step {sched.step}')
    sched.on_step = check_step

    def body(i):
        def run():
            st = cur[f't{i}']
            got = []
            for o in programs[i]:
                if o[0] == 'r':
                    if o[1] >= len(got) or got[o[1]] is None:
                        continue
                    op = ('x',) + got[o[1]]
                else:
                    op = o
                st['op'], st['entries'] = op, []
                try:
                    if op[0] in 'ab':
                        k = sem.acquire(op[1], op[0] == 'b')
                        res = 'k' + hx(k) if isinstance(k, int) else f'k?{k!r}'
                        got.append((op[1], k))
                        n = ghost['granted'].get(op[1], 0)
                        if k != n:
                            add_viol('token-order', f'grant number {n} of tag {op[1]} returned token {k!r}')
                        ghost['granted'][op[1]] = n + 1
                        ghost['held'] += 1
                    else:
                        sem.release(op[1], op[2])
                        res = 'O'
                        if (op[1], op[2]) not in ghost['released'] and 0 <= op[2] < ghost['granted'].get(op[1], 0):
                            ghost['held'] -= 1
                        ghost['released'].add((op[1], op[2]))
                except core.Killed:
                    raise
                except utils.NoResourcesAvailable:
                    res = 'N'
                    got.append(None)
                except ValueError:
                    res = 'V'
                if not st['entries']:          # the call never took the lock
                    new_entry(sched.me(), lockfree=True)
                st['entries'][-1]['res'] = res
                check_step()
            st['op'] = None
        return run

    for i in range(len(programs)):
        cur[f't{i}'] = {'i': i, 'op': None, 'entries': [], 'waiting': False, 'ticket': None}
        sched.spawn(body(i), f't{i}')
    deadlock = None
    try:
        sched.run()
    except core.Deadlock as d:
        deadlock = 'deadlock: ' + str(d)
    except core.Livelock as d:
        deadlock = 'livelock: ' + str(d)
    flags['on'] = False
    for th in sched.threads:
        if th.exc is not None:
            add_viol('thread-exception', f'{th.name}: {th.exc!r}')
    asleep = sorted(st['i'] for st in cur.values() if st['waiting'] and not st['ticket']['notified'])
    quiescent = all((t, k) in ghost['released'] for t, n in ghost['granted'].items() for k in range(n))
    if deadlock and asleep and quiescent:
        add_viol('lost-wakeup', f'{deadlock}: threads {["t%d" % i for i in asleep]} sleep on the condition although '
                                f'every handed-out token has been released (count {names.semaphore_free(sem)})')
    # translate to SemaConc labels
    labels, observed = [], []
    for e in log:
        op, tid = e['op'], hx(tid_of(e['thread']))
        if op[0] in 'ab':
            if e['nth'] == 0:
                labels.append(('A' if op[0] == 'b' else 'N') + f'{tid}:{hx(op[1])}')
            else:
                labels.append(f'W{tid}')
        else:
            w = e['woken']
            labels.append(f'R{hx(op[1])}:{hx(op[2])}:' + (hx(tid_of(w[0])) if w and w[0] is not None else '-'))
        observed.append(e['res'] if e['res'] is not None else '?')
    final = {'count': names.semaphore_free(sem), 'asleep': asleep}
    schedule = [f't{e["thread"]}:{labels[j]}->{observed[j]}' for j, e in enumerate(log)]
    return {'viol': viol, 'labels': labels, 'observed': observed, 'final': final, 'deadlock': deadlock,
            'choices': list(sched.choices), 'schedule': schedule, 'quiescent': quiescent}


def model_lines(cap, runs):
    return [' '.join(['C', hx(cap)] + r['labels']) for r in runs]


def compare_with_model(cap, r, model_out):
    """-> text of the disagreement or None"""
    f = [x.strip() for x in model_out.split('|')]
    if len(f) != 5:
        return f'model driver answered "{model_out}"'
    res = f[0].split()
    want_asleep = sorted(unhx(x) - 10 for x in f[2].split(',') if x)
    noti = [x for x in f[3].split(',') if x]
    if res != r['observed']:
        j = next((i for i, (a, b) in enumerate(zip(res, r['observed'])) if a != b), min(len(res), len(r['observed'])))
        return (f'critical section {j} ({r["schedule"][j] if j < len(r["schedule"]) else "?"}): the implementation '
                f'gave {r["observed"][j] if j < len(r["observed"]) else "nothing"}, SemaConc gives '
                f'{res[j] if j < len(res) else "nothing"}')
    if r['final']['count'] is not None and unhx(f[1]) != r['final']['count']:
        return f'final count {r["final"]["count"]}, SemaConc gives {unhx(f[1])}'
    if want_asleep != r['final']['asleep'] or noti:
        return (f'threads asleep at the end {r["final"]["asleep"]}, SemaConc: asleep {want_asleep}, '
                f'notified {noti}')
    return None


# ---------------------------------------------------------------- program sets

def B(t):
    return ('b', t)


def A(t):
    return ('a', t)


def R(i):
    return ('r', i)


SMALL_SETS = [
    # (capacity, programs, schedule tree small enough for the quick tier); thorough: every schedule of all of them
    (1, ((B(0), R(0)), (B(0), R(0)), (B(0), R(0))), True),                 # waiter / releaser / barger
    (1, ((B(0), R(0), B(0), R(1)), (B(0), R(0))), True),                   # the releaser itself barges
    (1, ((B(0), R(0)), (A(0), R(0)), (A(1), R(0))), True),                 # non-blocking losers
    (1, ((A(0), R(0), A(0), R(1)), (A(0), R(0)), (B(1), R(0))), False),
    (2, ((B(0), B(0), R(1), R(0)), (B(1), R(0)), (B(1), R(0))), False),    # out-of-order release, one notify, two permits
    (2, ((B(0), R(0)), (B(0), R(0)), (B(1), R(0)), (A(1), R(0))), False),
    (1, ((B(0), ('x', 0, 5), ('x', 0, 1), R(0)), (B(0), ('x', 1, 0), R(0))), True),   # rejected releases wake nobody
    (2, ((B(0), B(1), R(0), R(1)), (B(1), B(0), R(1), R(0))), True),       # program-level deadlocks, explained by the model
]


def random_programs(rng):
    cap = rng.choice([1, 1, 2])
    nth = rng.choice([2, 3, 3, 4])
    tags = [0] if rng.random() < 0.5 else [0, 1]
    progs = []
    for _ in range(nth):
        p, held = [], []
        nacq = 0
        for _ in range(rng.randrange(2, 6)):
            if held and rng.random() < 0.5:
                j = rng.randrange(len(held))
                p.append(R(held.pop(j)))
            elif rng.random() < 0.08:
                p.append(('x', rng.choice(tags + [3]), rng.randrange(0, 4)))
            else:
                p.append((rng.choice('abb'), rng.choice(tags)))
                held.append(nacq)
                nacq += 1
        rng.shuffle(held)
        p += [R(j) for j in held]
        progs.append(tuple(p))
    return cap, tuple(progs)


# ---------------------------------------------------------------- driver

def explore(ctx, use_model=True):
    """Runs the program sets; reports violations.  Returns counters."""
    from harness.sched import core
    thorough = ctx.thorough()
    dfs_cap = 60000 if thorough else 2500
    n_random_sets = 400 if thorough else 40
    runs_per_set = 40 if thorough else 16
    stats = {'runs': 0, 'sets': 0, 'exhausted': 0, 'steps': 0, 'deadlocks': 0, 'distinct': set()}
    reported = set()

    def handle(cap, programs, batch):
        """batch: list of run dicts of one program set"""
        outs = None
        if use_model and ctx.broken is None:
            try:
                outs = common.run_model('sema', model_lines(cap, batch))
            except common.BuildBroken as b:
                ctx.broken = b
        for j, r in enumerate(batch):
            stats['runs'] += 1
            ctx.count('sema-sched', 1, nontrivial_key=(cap, programs, tuple(r['labels'])),
                      outcome='deadlock' if r['deadlock'] else 'all-threads-finished')
            stats['steps'] += len(r['choices'])
            stats['deadlocks'] += 1 if r['deadlock'] else 0
            stats['distinct'].add((cap, programs, tuple(r['labels'])))
            problems = list(r['viol'])
            if not problems and outs is not None:
                d = compare_with_model(cap, r, outs[j])
                if d:
                    problems.append(('corr', d))
            if r['deadlock'] and r['deadlock'].startswith('livelock'):
                problems.append(('livelock', r['deadlock']))
            for clause, text in problems:
                if clause in reported:
                    continue
                reported.add(clause)
                case = {'kind': 'conc', 'cap': cap, 'programs': [prog_str(p) for p in programs],
                        'choices': r['choices']}
                msg = (f'{clause} under a real interleaving: {text}; {case_str(cap, programs)}; critical sections in '
                       f'lock order: {" ".join(r["schedule"])}; scheduler choices {r["choices"]}')
                if clause == 'corr':
                    ctx.report('corr:sema:SemaConc-linearisation', msg,
                               {'kind': 'correspondence', 'theorem_or_correspondence': 'SemaConc replay of scheduled runs',
                                'case': case}, no_input=True)
                else:
                    ctx.report(f'conc:{clause}:{case_str(cap, programs)}', msg,
                               {'kind': 'schedule', 'component': 'SlidingWindowSemaphore+scheduler', 'clause': clause,
                                'case': case})

    # every schedule of the small sets
    for si, (cap, programs, small) in enumerate(SMALL_SETS):
        stats['sets'] += 1
        prefix, n, complete, batch = [], 0, False, []
        while n < (dfs_cap if small or thorough else 150):
            ch = DfsChooser(prefix)
            r = run_conc(cap, programs, ch)
            batch.append(r)
            n += 1
            choices, widths = r['choices'], ch.widths
            k = len(choices) - 1
            while k >= 0 and choices[k] + 1 >= widths[k]:
                k -= 1
            if k < 0:
                complete = True
                break
            prefix = choices[:k] + [choices[k] + 1]
            if len(batch) >= 2000:
                handle(cap, programs, batch)
                batch = []
        handle(cap, programs, batch)
        if not complete:      # the tree is bigger than the budget: add random and PCT schedules
            batch = []
            for j in range(runs_per_set * 5):
                seed = f'{ctx.seed}:c12conc:{si}:{j}'
                ch = core.RandomChooser(seed) if j % 2 == 0 else core.PCTChooser(seed, depth=3, horizon=30)
                batch.append(run_conc(cap, programs, ch))
            handle(cap, programs, batch)
        stats['exhausted'] += 1 if complete else 0
        if si < 2:
            ctx.sample({'component': 'sema-sched', 'case': case_str(cap, programs), 'schedules': n,
                        'schedule_tree_exhausted': complete, 'one_run_critical_sections': batch[-1]['schedule'] if batch else None})
    # random programs, random / PCT schedules
    rng = ctx.rng('conc-programs')
    for si in range(n_random_sets):
        cap, programs = random_programs(rng)
        stats['sets'] += 1
        batch = []
        for j in range(runs_per_set):
            seed = f'{ctx.seed}:c12conc:r{si}:{j}'
            ch = core.RandomChooser(seed) if j % 2 == 0 else core.PCTChooser(seed, depth=3, horizon=30)
            batch.append(run_conc(cap, programs, ch))
        handle(cap, programs, batch)
    comp = ctx.cov['components'].setdefault('sema-sched', {'cases': 0, 'hist': {}})
    comp['program_sets'] = stats['sets']
    comp['program_sets_with_exhausted_schedule_tree'] = stats['exhausted']
    comp['scheduling_steps'] = stats['steps']
    comp['distinct_linearisations'] = len(stats['distinct'])
    ctx.cov['transitions'] = ctx.cov.get('transitions', 0) + stats['steps']
    ctx.cov['traces_validated_against_impl'] = ctx.cov.get('traces_validated_against_impl', 0) + \
        (stats['runs'] if use_model else 0)
    return stats


def replay_case(ctx, case, use_model=True):
    from harness.sched import core
    cap = case['cap']
    programs = tuple(prog_parse(s) for s in case['programs'])
    r = run_conc(cap, programs, core.ReplayChooser(case['choices']))
    problems = list(r['viol'])
    if not problems and use_model:
        d = compare_with_model(cap, r, common.run_model('sema', model_lines(cap, [r]))[0])
        if d:
            problems.append(('corr', d))
    print('schedule:', ' '.join(r['schedule']))
    for c, t in problems:
        print('conc:', c, '--', t)
    return bool(problems)
