"""C13, wiring of the limiter into transfers (one shared bucket per manager,
upload bodies and download streams wrapped, limiting switched on only while a
body is on the wire).

Real TransferManager (NonThreadedExecutor) with max_bandwidth set, the fake S3
emulating botocore's request life cycle -- payload read by before-call handlers
BEFORE any request-created event (header checksums), signer reads between the
first and last request-created handlers, then the send, with the request body
optionally wrapped in botocore's AwsChunkedWrapper (trailer checksums) -- and a
virtual clock.  The bucket's consume() is observed through a class-level
wrapper that also records the life-cycle phase.

Oracle (implementation only):
  W1  nothing is charged to the bucket and no sleep is requested while no body
      is on the wire (phases 'pre' and 'sign'): traffic is throttled, hashing
      and signing are not ("traffic whose demand stays below the limit is never
      delayed");
  W2  what is sent / received IS charged: for every transfer moving more than
      two read-thresholds, the amounts charged while sending / receiving are at
      least the bytes moved minus one threshold per body (the limit applies to
      every transfer of the manager, whatever wraps the body).
"""
import io
import os
import shutil
import tempfile

from harness import common

MB = 1024 * 1024
THRESHOLD = 256 * 1024


class VClock:
    def __init__(self):
        self.now = 0.0
        self.sleeps = []
        self.phase = lambda: 'idle'

    def time(self):
        return self.now

    def sleep(self, v):
        self.sleeps.append((self.phase(), v))
        self.now += max(v, 0)


def cases(ctx):
    out = []
    for kind, size in (('upload-path', 700_000), ('upload-seekable', 700_000), ('upload-nonseekable', 700_000),
                       ('upload-path', 11 * MB), ('upload-nonseekable', 11 * MB),
                       ('download-path', 700_000), ('download-path', 9 * MB), ('download-nonseekable', 9 * MB)):
        for life in ('plain', 'pre', 'sign', 'sign+resend', 'chunked', 'pre+chunked'):
            if kind.startswith('download') and life != 'plain':
                continue
            if not ctx.thorough() and size > MB and life in ('sign', 'sign+resend', 'pre+chunked'):
                continue
            out.append({'kind': kind, 'size': size, 'life': life})
    return out


def run_case(case):
    from harness.fakes3 import FakeS3, NonSeekableReader
    from s3transfer import bandwidth
    from s3transfer.manager import TransferManager, TransferConfig
    from s3transfer.futures import NonThreadedExecutor
    kind, size, life = case['kind'], case['size'], case['life']
    data = (b'0123456789abcdef' * (size // 16 + 1))[:size]
    client = FakeS3()
    st = {'phase': 'idle'}
    client.on_phase = lambda p: st.__setitem__('phase', p)
    clock = VClock()
    clock.phase = lambda: st['phase']

    def body_script(op, kw):
        d = {}
        if 'pre' in life:
            d['pre_reads'] = [1 << 20] * (size // (1 << 20) + 2)
        if 'sign' in life:
            d['sign_reads'] = [1 << 20] * (size // (1 << 20) + 2)
        if 'chunked' in life:
            d['chunked'] = True
        if 'resend' in life:
            # the first send is cut half way (a 5xx / connection reset), botocore rewinds the body,
            # signs again (reads it again) and re-sends
            d['resends'] = 1
            d['resend_after'] = [size // 2]
        return d
    client.body_script = body_script
    charged = []          # (phase, amount)
    saved = []

    def patch(obj, name, new):
        saved.append((obj, name, obj.__dict__[name]))
        setattr(obj, name, new)
    orig_consume = bandwidth.LeakyBucket.consume

    def consume(self_, amt, request_token):
        r = orig_consume(self_, amt, request_token)
        charged.append((st['phase'], amt))
        return r
    orig_tu = bandwidth.TimeUtils
    tmp = tempfile.mkdtemp(prefix='verif-c13w-')
    moved = {'send': 0, 'recv': 0}
    try:
        patch(bandwidth.LeakyBucket, 'consume', consume)
        bandwidth.TimeUtils = lambda: clock            # every limiter object gets the virtual clock
        if kind.startswith('download'):
            client.objects[('b', 'k')] = data
            client.get_script = lambda kw, att: {'on_read': lambda: st.__setitem__('phase', 'recv')}
        cfg = TransferConfig(max_bandwidth=4 * MB, multipart_threshold=8 * MB, multipart_chunksize=8 * MB)
        err = None
        try:
            with TransferManager(client, cfg, executor_cls=NonThreadedExecutor) as m:
                if kind == 'upload-path':
                    p = os.path.join(tmp, 'src')
                    open(p, 'wb').write(data)
                    m.upload(p, 'b', 'k').result()
                elif kind == 'upload-seekable':
                    m.upload(io.BytesIO(data), 'b', 'k').result()
                elif kind == 'upload-nonseekable':
                    m.upload(NonSeekableReader(data), 'b', 'k').result()
                elif kind == 'download-path':
                    m.download('b', 'k', os.path.join(tmp, 'dst')).result()
                else:
                    class Sink:
                        def __init__(self):
                            self.n = 0

                        def write(self, d):
                            self.n += len(d)
                    m.download('b', 'k', Sink()).result()
        except Exception as e:      # noqa: reported by the oracle
            err = e
    finally:
        bandwidth.TimeUtils = orig_tu
        for obj, name, old in reversed(saved):
            setattr(obj, name, old)
        shutil.rmtree(tmp, ignore_errors=True)
    return {'charged': charged, 'sleeps': clock.sleeps, 'err': err,
            'stored_ok': (client.objects.get(('b', 'k')) == data) if kind.startswith('upload') else None}


def oracle(case, r):
    bad = []
    if r['err'] is not None:
        return [('wiring-failed', f'the transfer failed: {r["err"]!r}')]
    if r['stored_ok'] is False:
        bad.append(('wiring-bytes', 'the stored object differs from the source'))
    idle = [(p, a) for p, a in r['charged'] if p in ('pre', 'sign')]
    idle_sleeps = [(p, v) for p, v in r['sleeps'] if p in ('pre', 'sign')]
    if idle or idle_sleeps:
        bad.append(('charged-while-not-transferring',
                    f'{sum(a for _, a in idle)} bytes charged to the bucket / {len(idle_sleeps)} sleeps requested while the body was '
                    f'only being read for {sorted({p for p, _ in idle + idle_sleeps})} (hashing/signing, nothing on the wire)'))
    wire = sum(a for p, a in r['charged'] if p in ('send', 'recv', 'idle'))
    nbodies = max(1, -(-case['size'] // (8 * MB))) if case['size'] >= 8 * MB else 1
    if case['size'] > 2 * THRESHOLD and wire < case['size'] - nbodies * THRESHOLD:
        bad.append(('not-limited',
                    f'{case["size"]} bytes moved but only {wire} charged to the bucket while sending/receiving '
                    f'(max_bandwidth is set: every body of the manager goes through the limiter)'))
    return bad


def run(ctx):
    n0 = len(ctx.violations)
    for c in cases(ctx):
        try:
            r = run_case(c)
        except Exception as e:   # noqa
            ctx.report(f'wire:crash:{c["kind"]}:{c["life"]}', f'bandwidth wiring run crashed on {c}: {e!r}',
                       {'kind': 'input', 'component': 'bandwidth-wiring', 'case': c}, no_input=True)
            continue
        ctx.count('bandwidth-wiring', 1, nontrivial_key=(c['kind'], c['size'], c['life']), kind=c['kind'], life=c['life'],
                  throttled='yes' if r['sleeps'] else 'no')
        for clause, text in oracle(c, r):
            ctx.report(f'wire:{clause}:{c["kind"]}:{c["life"]}', f'C13 wiring ({c["kind"]}, {c["size"]} bytes, request life cycle '
                       f'{c["life"]}): {text}', {'kind': 'input', 'component': 'bandwidth-wiring', 'clause': clause, 'case': c})
    return len(ctx.violations) - n0


def replay(ctx, data):
    c = data.get('case')
    r = run_case(c)
    bad = oracle(c, r)
    for clause, text in bad:
        print('wiring oracle:', clause, text)
    return bool(bad)
