"""C11 -- in-memory buffering stays within the documented bounds."""
from harness.props import sysrun, c10
from harness.sched import monitors as M

PROP_FILE = 'C11'


def mons():
    return [M.m_terminates, M.m_limits,
            lambda r: M.m_download_window(r, r.requested.max_in_memory_download_chunks),
            lambda r: M.m_window_capacity(r, r.requested.max_in_memory_download_chunks)]


def specs(ctx):
    rng = ctx.rng('c11')
    out = []
    streams = [dict(kind='upload', src='nonseekable', size=17), dict(kind='upload', src='seekable', size=15),
               dict(kind='upload', src='nonseekable', size=9, read_sizes=[1, 2, 1, 3, 1]),
               dict(kind='download', dst='nonseekable', size=19), dict(kind='download', dst='nonseekable', size=8)]
    n = 260 if ctx.thorough() else 70
    for i in range(n):
        k = rng.choice([1, 2, 3])
        ts = [dict(rng.choice(streams)) for _ in range(k)]
        cfg = dict(max_request_concurrency=rng.choice([1, 2, 3]), max_submission_concurrency=rng.choice([1, 2]),
                   max_io_queue_size=rng.choice([1, 2, 3]), max_in_memory_upload_chunks=rng.choice([1, 2, 3]),
                   max_in_memory_download_chunks=rng.choice([1, 2, 3]), multipart_chunksize=rng.choice([2, 3, 4]),
                   multipart_threshold=rng.choice([3, 4, 6]))
        ch = sysrun.chooser(rng, i)
        if i % 3 == 0:
            ch = {'kind': 'pct', 'seed': rng.randrange(1 << 30), 'depth': 4}   # makes the lowest part the slowest
        out.append(dict(transfers=ts, cfg=cfg, chooser=ch))
    out += sysrun.specs_shared_window(ctx, 400 if ctx.thorough() else 120)
    # many stream uploads BELOW the multipart threshold sharing one manager: their bodies are
    # buffered too and count against max_in_memory_upload_chunks (one PutObject body each)
    # streams whose read(n) returns less than asked and then more than is still missing from the part
    # (the part buffer must not grow past the chunk size), and limits that differ between the upload
    # and the download side (each side is held to its own)
    for i in range(80 if ctx.thorough() else 20):
        ts = [dict(kind='upload', src='nonseekable', size=rng.choice([11, 14, 17]), read_sizes=[1, 9, 2, 9, 1, 9, 9]),
              dict(kind='download', dst='nonseekable', size=rng.choice([12, 16]))]
        up, down = rng.choice([(1, 3), (3, 1), (2, 4), (4, 2)])
        cfg = dict(max_request_concurrency=rng.choice([2, 3]), max_submission_concurrency=rng.choice([1, 2]),
                   max_in_memory_upload_chunks=up, max_in_memory_download_chunks=down,
                   multipart_chunksize=rng.choice([3, 4]), multipart_threshold=rng.choice([3, 4]), io_chunksize=2)
        out.append(dict(transfers=ts[:1 + i % 2] if i % 3 else ts, cfg=cfg,
                        chooser={'kind': ['pct', 'random'][i % 2], 'seed': rng.randrange(1 << 30), 'depth': 5}))
    # a part (or the create) fails in the middle of a long stream upload: the rest of the stream is still
    # read and handed to tasks that skip their work -- what they were given must be released all the same
    for i in range(48 if ctx.thorough() else 12):
        cfg = dict(max_request_concurrency=rng.choice([1, 2]), max_submission_concurrency=1,
                   max_in_memory_upload_chunks=rng.choice([1, 2]), multipart_chunksize=2, multipart_threshold=rng.choice([2, 4]))
        out.append(dict(transfers=[dict(kind='upload', src='nonseekable', size=rng.choice([17, 19]))], cfg=cfg,
                        chooser={'kind': ['random', 'pct'][i % 2], 'seed': rng.randrange(1 << 30), 'depth': 4},
                        s3_fault=dict(idx=rng.choice([0, 1, 2, 3]), when=rng.choice(['before', 'after']))))
    for i in range(60 if ctx.thorough() else 16):
        k = rng.choice([4, 5, 6])
        ts = [dict(kind='upload', src='nonseekable', size=rng.choice([1, 2])) for _ in range(k)]
        cfg = dict(max_request_concurrency=1, max_submission_concurrency=rng.choice([1, 2]),
                   max_in_memory_upload_chunks=rng.choice([1, 2]), multipart_chunksize=4, multipart_threshold=rng.choice([3, 5]))
        out.append(dict(transfers=ts, cfg=cfg, chooser={'kind': ['pct', 'random'][i % 2], 'seed': rng.randrange(1 << 30), 'depth': 5}))
    # the lowest part is the slowest (its body delivers nothing until everything else is stuck) while a
    # later part inside the window is re-requested again and again after failing near its end: what was
    # already received for it is delivered anew on every attempt, and the out-of-order data held for the
    # stream must still fit the window.  Every byte handed out by a GetObject body is tracked until the
    # last reference to it goes away.
    for i in range(60 if ctx.thorough() else 16):
        cs = rng.choice([6, 8])
        win = rng.choice([2, 2, 3])
        att = rng.choice([5, 7, 9])
        cfg = dict(max_request_concurrency=rng.choice([2, 3]), max_submission_concurrency=1,
                   max_in_memory_download_chunks=win, max_io_queue_size=rng.choice([1, 2]),
                   multipart_chunksize=cs, multipart_threshold=cs, io_chunksize=rng.choice([1, 2]),
                   num_download_attempts=att)
        out.append(dict(transfers=[dict(kind='download', dst='nonseekable', size=cs * rng.choice([2, 3, 4]) + rng.choice([0, 1]))],
                        cfg=cfg, track_get=True,
                        get_fault=dict(range_idx=rng.choice([1, 1, 2]) if win > 2 else 1, attempts=att - 1 - (i % 4 == 3),
                                       after=cs - rng.choice([1, 2]), exc='timeout', stall_range_idx=0),
                        chooser={'kind': ['random', 'pct', 'first'][i % 3], 'seed': rng.randrange(1 << 30), 'depth': 4}))
    # the same tracking without faults, several streams sharing the manager
    for i in range(40 if ctx.thorough() else 10):
        cfg = dict(max_request_concurrency=rng.choice([1, 2, 3]), max_submission_concurrency=rng.choice([1, 2]),
                   max_in_memory_download_chunks=rng.choice([1, 2, 3]), max_io_queue_size=rng.choice([1, 2]),
                   multipart_chunksize=4, multipart_threshold=4, io_chunksize=rng.choice([1, 2, 3]))
        out.append(dict(transfers=[dict(kind='download', dst='nonseekable', size=rng.choice([9, 14, 19])) for _ in range(rng.choice([1, 2]))],
                        cfg=cfg, track_get=True,
                        chooser={'kind': ['pct', 'random'][i % 2], 'seed': rng.randrange(1 << 30), 'depth': 5}))
    return out


def run(ctx):
    sysrun.run_specs(ctx, PROP_FILE, specs(ctx), mons(), sampler=c10.SAMPLER,
                     rule='1-3 concurrent stream uploads / non-seekable downloads with the in-memory chunk limits, io queue size, chunk size and '
                          'threshold drawn from small values, PCT schedules that starve the lowest part; at EVERY scheduling point: live upload '
                          'part buffers (count and size), sliding-window tokens (newest issued - lowest unreleased), IO stage occupancy; '
                          'distinct = distinct event trace')


def replay(ctx, data):
    return sysrun.replay_spec(ctx, data, mons(), sampler=c10.SAMPLER)
