"""C09 -- progress callbacks account for exactly the transferred bytes.

Proof: coq/props/C09.v over coq/model/{Chunk,Progress,Retry}.v (+ Plan).
Tie:
 (a) differential of the real ReadFileChunk -- built directly and through the
     three upload input managers (InterruptReader / BandwidthLimitedStream
     (disabled) / DeferredOpenFile wrappers, AggregatedProgressCallback with a
     scaled threshold) -- against the extracted Chunk/Progress model on request
     shaped, random and malformed scripts: returned data, tell(), raw emitted
     values, values reaching the subscriber;
 (b) differential of the real GetObjectTask._main /
     ImmediatelyWriteIOGetObjectTask._main against the extracted run_get:
     requests, deliveries, progress values (one interleaved trace), outcome;
 (c) end to end: real TransferManager + FakeS3 + recording subscriber for
     uploads, downloads and copies; for uploads the operations every body
     received are recorded, checked to be a word of the Request script language
     (the theorem's hypothesis) and replayed on the model, whose predicted
     subscriber values must be the recorded ones.
Search oracle: the property on the implementation alone -- the recorded
bytes_transferred values sum to the size on success and every prefix sum lies
in [0, size].
"""
import hashlib
import io
import json
import os
import shutil
import socket
import tempfile

from harness import common
from harness.common import hx, unhx

EXTRACT = ['ExChunk', 'ExRetry']
COMPONENTS = ['chunk', 'retry']


def sig(prefix, case):
    return prefix + ':' + hashlib.sha1(json.dumps(case, sort_keys=True, default=str).encode()).hexdigest()[:12]


# ===================================================================== helpers

class Rec:
    """Recording subscriber / callback."""

    def __init__(self):
        self.vals = []

    def on_progress(self, future, bytes_transferred, **kwargs):
        self.vals.append(bytes_transferred)

    def __call__(self, bytes_transferred):
        self.vals.append(bytes_transferred)


def prefix_violation(vals, size):
    """The property on a list of reported values: None or a description."""
    run = 0
    for i, v in enumerate(vals):
        run += v
        if not (0 <= run <= size):
            return f'running sum {run} after {i + 1} callbacks {vals[:i + 1]} is outside [0, {size}]'
    return None


def exact_violation(vals, size):
    r = prefix_violation(vals, size)
    if r:
        return r
    if sum(vals) != size:
        return f'callbacks {vals} sum to {sum(vals)}, transfer size is {size}'
    return None


class StubBucket:
    """A leaky bucket that never throttles (no clocks in this check)."""

    def consume(self, amt, request_token):
        return amt

    def cancel(self, request_token):
        pass


class _Req:
    def __init__(self, body):
        self.body = body


def scaled_adjuster(utils, mn, mx, mp):
    """ChunksizeAdjuster() is built with its defaults inside _submit: scale them."""
    class Patch:
        def __enter__(self):
            self.old = utils.ChunksizeAdjuster.__init__.__defaults__
            utils.ChunksizeAdjuster.__init__.__defaults__ = (mx, mn, mp)

        def __exit__(self, *a):
            utils.ChunksizeAdjuster.__init__.__defaults__ = self.old
    return Patch()


class ScaledAggregator:
    """AggregatedProgressCallback is built with its default threshold inside
    the input managers: scale the default."""

    def __init__(self, thr):
        self.thr = thr

    def __enter__(self):
        from s3transfer import upload
        self.f = upload.AggregatedProgressCallback.__init__
        self.old = self.f.__defaults__
        if self.thr is not None:
            self.f.__defaults__ = (self.thr,)

    def __exit__(self, *a):
        self.f.__defaults__ = self.old


# =============================================================== (a) the chunk

def build_body(case, tmpdir):
    """Build the real body for a chunk case.  Returns (body, raw_rec, sub_rec,
    model parameters (file, start, req, full, en))."""
    from s3transfer import utils, upload
    from s3transfer.futures import TransferFuture, TransferMeta, TransferCoordinator
    from s3transfer.bandwidth import BandwidthLimiter
    from harness.fakes3 import NonSeekableReader
    data = bytes.fromhex(case['file'])
    kind = case['kind']
    sub = Rec()
    if kind == 'direct':
        raw = []
        agg = upload.AggregatedProgressCallback([sub], case['thr'])
        f = io.BytesIO(data)
        f.seek(case['start'])
        body = utils.ReadFileChunk(
            f, case['req'], case['full'],
            callbacks=[lambda bytes_transferred: raw.append(hx(bytes_transferred)), agg],
            enable_callbacks=bool(case['en']),
            close_callbacks=[lambda: raw.append('X'), agg.flush])
        return body, raw, sub, (data, case['start'], case['req'], case['full'], case['en'])
    coord = TransferCoordinator(0)
    limiter = BandwidthLimiter(StubBucket()) if case.get('bw') else None
    osutil = utils.OSUtils()
    if kind in ('path-put', 'path-part'):
        path = os.path.join(tmpdir, 'src')
        with open(path, 'wb') as fh:
            fh.write(data)
        src = path
        mgr = upload.UploadFilenameInputManager(osutil, coord, limiter)
    elif kind in ('seek-put', 'seek-part'):
        src = io.BytesIO(data)
        src.seek(case['offset'])
        mgr = upload.UploadSeekableInputManager(osutil, coord, limiter)
    else:
        src = NonSeekableReader(data)
        mgr = upload.UploadNonSeekableInputManager(osutil, coord, limiter)
    fut = TransferFuture(TransferMeta(utils.CallArgs(fileobj=src, subscribers=[sub]), 0), coord)
    with ScaledAggregator(case['thr']):
        if kind == 'nonseek':
            body = mgr.get_put_object_body(fut)
            params = (data, 0, len(data), len(data), 0)
        elif kind == 'path-put':
            fut.meta.provide_transfer_size(len(data))
            body = mgr.get_put_object_body(fut)
            params = (data, 0, len(data), len(data), 0)
        elif kind == 'seek-put':
            mgr.provide_transfer_size(fut)
            body = mgr.get_put_object_body(fut)
            k = case['offset']
            params = (data, k, len(data) - k, len(data), 0)
        elif kind == 'path-part':
            fut.meta.provide_transfer_size(len(data))
            c, j = case['chunksize'], case['part']
            bodies = list(mgr.yield_upload_part_bodies(fut, c))
            body = bodies[j - 1][1]
            params = (data, c * (j - 1), c, len(data), 0)
        else:   # seek-part
            mgr.provide_transfer_size(fut)
            c, j, k = case['chunksize'], case['part'], case['offset']
            bodies = list(mgr.yield_upload_part_bodies(fut, c))
            body = bodies[j - 1][1]
            piece = data[k + (j - 1) * c: k + j * c]
            params = (piece, 0, c, len(piece), 0)
    return body, None, sub, params


def apply_op(body, tok):
    from s3transfer import utils
    p = tok.split(':')
    try:
        if p[0] == 'R':
            d = body.read() if p[1] == 'N' else body.read(unhx(p[1]))
            return 'd' + bytes(d).hex()
        if p[0] == 'S':
            body.seek(unhx(p[1]), unhx(p[2]))
            return 'n'
        if p[0] == 'E':      # the handler TransferManager registers last on request-created.s3
            utils.signal_transferring(request=_Req(body), operation_name='UploadPart')
            return 'n'
        if p[0] == 'D':      # ... and first
            utils.signal_not_transferring(request=_Req(body), operation_name='PutObject')
            return 'n'
        if p[0] == 'T':
            return 'p' + hx(body.tell())
        if p[0] == 'C':
            body.close()
            return 'n'
    except ValueError:
        return 'e'
    raise AssertionError(tok)


def chunk_params(case):
    """(file bytes, start, req, full, en) the model is given, computed from the case alone."""
    data = bytes.fromhex(case['file'])
    kind = case['kind']
    if kind == 'direct':
        return data, case['start'], case['req'], case['full'], case['en']
    if kind in ('nonseek', 'path-put'):
        return data, 0, len(data), len(data), 0
    if kind == 'seek-put':
        k = case['offset']
        return data, k, len(data) - k, len(data), 0
    if kind == 'path-part':
        c, j = case['chunksize'], case['part']
        return data, c * (j - 1), c, len(data), 0
    c, j, k = case['chunksize'], case['part'], case['offset']
    piece = data[k + (j - 1) * c: k + j * c]
    return piece, 0, c, len(piece), 0


def chunk_model_line(case):
    f, start, req, full, en = chunk_params(case)
    cmd = 'run' if case['kind'] == 'direct' else 'runq'
    return ' '.join([cmd, f.hex() or '-', hx(start), hx(req), hx(full), str(en), hx(case['thr'])] + case['ops'])


def run_chunk_case(case, tmpdir):
    """Impl output in the driver's format.  The values are snapshotted before
    the clean-up close."""
    body, raw, sub, _ = build_body(case, tmpdir)
    res = [apply_op(body, t) for t in case['ops']]
    rawtxt = '*' if raw is None else ','.join(raw)
    vals = list(sub.vals)
    try:
        body.close()      # not part of the script: release the file
    except Exception:
        pass
    return ','.join(res) + ' | ' + rawtxt + ' | ' + ','.join(hx(v) for v in vals), res, vals


def chunk_size_of(case):
    f, start, req, full, en = chunk_params(case)
    return min(full - start, req)


def oracle_chunk(case, tmpdir):
    """C09 on the implementation alone, for any script inside the theorem's
    hypotheses (window inside the file, reads of a non-negative amount or
    read(), every suppressed segment ends at the bounded position it began
    at -- checked here on the implementation's own tell()): the running sum of
    what the callbacks / the subscriber saw stays within [0, size], equals
    min(tell(), size) while reporting is enabled (raw values, direct bodies),
    and after a complete last send of a request-shaped script followed by
    close it is exactly size.  Returns None or a description."""
    f, start, req, full, en = chunk_params(case)
    size = min(full - start, req)
    if size < 0 or start < 0 or start + size > len(f) or case['thr'] <= 0:
        return None
    for t in case['ops']:
        p = t.split(':')
        if p[0] == 'R' and p[1] != 'N' and unhx(p[1]) < 0:
            return None
    body, raw, sub, _ = build_body(case, tmpdir)
    enabled = bool(en)
    anchor = 0
    res = []
    try:
        for i, t in enumerate(case['ops']):
            if t == 'C' and i != len(case['ops']) - 1:
                return None          # operations after close are outside the statement
            before = min(body.tell(), size)
            if t == 'E' and not enabled and before != anchor:
                return None          # hypothesis suppressed_returns does not hold for this script
            if t == 'D' and enabled:
                anchor = before
            res.append(apply_op(body, t))
            enabled = True if t == 'E' else False if t == 'D' else enabled
            seen = case['ops'][:i + 1]
            r = prefix_violation(sub.vals, size)
            if r:
                return f'after {" ".join(seen)}: subscriber {r}'
            if raw is not None:
                vals = [unhx(x) for x in raw if x != 'X']
                r = prefix_violation(vals, size)
                if r:
                    return f'after {" ".join(seen)}: raw callbacks {r}'
                if enabled and t != 'C' and sum(vals) != min(body.tell(), size):
                    return (f'after {" ".join(seen)}: reporting is enabled, callbacks {vals} sum to {sum(vals)}, '
                            f'bounded position is {min(body.tell(), size)}')
    finally:
        try:
            body.close()
        except Exception:
            pass
    if case.get('shape') == 'request':
        ops = case['ops']
        last_e = max(i for i, t in enumerate(ops) if t == 'E')
        sent = sum((len(x) - 1) // 2 for t, x in zip(ops[last_e:], res[last_e:]) if t.startswith('R'))
        vals = sub.vals
        if sent >= size and ops[-1] == 'C' and sum(vals) != size:
            return f'complete send of a {size}-byte body, closed: subscriber callbacks {vals} sum to {sum(vals)}'
    return None


def gen_attempt(rng, size, complete):
    body = []
    for _ in range(rng.choice([0, 0, 1, 2, 3, 4])):
        k = rng.random()
        if k < 0.5:
            body.append('R:N' if rng.random() < 0.2 else 'R:' + hx(rng.randrange(0, size + 4)))
        elif k < 0.9:
            body.append(f'S:{hx(rng.randrange(-size - 3, size + 4))}:{rng.randrange(3)}')
        else:
            body.append('T')
    reads = []
    if complete:
        left = size
        while left > 0:
            if rng.random() < 0.1:
                reads.append('N')
                left = 0
            else:
                n = rng.randrange(1, 6)
                reads.append(hx(n))
                left -= n
        reads.append(hx(rng.randrange(1, 6)))      # the read that returns nothing
        if rng.random() < 0.2:
            reads.append('N')
    else:
        for _ in range(rng.randrange(0, 4)):
            reads.append('N' if rng.random() < 0.05 else hx(rng.randrange(0, 6)))
    return ','.join(body) + '/' + ','.join(reads)


def gen_chunk_shell(rng, allow_direct_weird=False):
    """Everything of a chunk case except the script."""
    n = rng.choice([0, 1, 2, 3, 5, 8, 13, 21, 34, 64, rng.randrange(0, 65)])
    data = bytes(rng.randrange(256) for _ in range(n))
    kind = rng.choice(['direct', 'direct', 'path-put', 'path-part', 'seek-put', 'seek-part', 'nonseek'])
    case = {'kind': kind, 'file': data.hex(), 'thr': rng.choice([1, 2, 3, 5, 8, 1000]),
            'bw': rng.random() < 0.5}
    if kind == 'direct':
        start = rng.randrange(0, n + 1)
        case.update(start=start, req=rng.choice([n - start, rng.randrange(0, n + 2)]),
                    full=n, en=rng.choice([0, 0, 1]))
        if allow_direct_weird:
            case.update(start=rng.randrange(0, n + 4), req=rng.randrange(0, n + 4),
                        full=rng.randrange(0, n + 6), en=rng.randrange(2))
    elif kind == 'seek-put':
        case['offset'] = rng.randrange(0, n + 1)
    elif kind == 'path-part':
        c = rng.randrange(1, 9)
        parts = max(1, -(-n // c))
        if n == 0:
            case['kind'] = 'path-put'
        else:
            case.update(chunksize=c, part=rng.randrange(1, parts + 1))
    elif kind == 'seek-part':
        k = rng.randrange(0, n + 1)
        c = rng.randrange(1, 9)
        parts = -(-(n - k) // c)
        if parts == 0:
            case['kind'] = 'seek-put'
            case['offset'] = k
        else:
            case.update(offset=k, chunksize=c, part=rng.randrange(1, parts + 1))
    return case


def gen_random_ops(rng, size, malformed, bytesio):
    ops = []
    for _ in range(rng.randrange(1, 14)):
        k = rng.random()
        if k < 0.35:
            if malformed and rng.random() < 0.3:
                ops.append('R:' + hx(-1 if not bytesio else rng.choice([-1, -2, -7])))
            else:
                ops.append('R:N' if rng.random() < 0.15 else 'R:' + hx(rng.randrange(0, size + 4)))
        elif k < 0.65:
            wh = rng.randrange(3)
            if malformed and rng.random() < 0.3:
                wh = rng.choice([3, -1, 7])
            ops.append(f'S:{hx(rng.randrange(-size - 4, size + 5))}:{hx(wh)}')
        elif k < 0.78:
            ops.append('E')
        elif k < 0.9:
            ops.append('D')
        else:
            ops.append('T')
    ops.append('C')
    if malformed and rng.random() < 0.5:
        for _ in range(rng.randrange(1, 4)):
            ops.append(rng.choice(['R:1', 'R:N', 'S:0:0', 'S:1:5', 'T', 'E', 'D', 'C']))
    return ops


def file_is_opened_before_close(ops):
    for t in ops:
        if t == 'C':
            return False
        if t.startswith('R') or (t.startswith('S') and t.split(':')[2] in ('0', '1', '2')):
            return True
    return True


def chunk_cases(ctx):
    n_req, n_rand, n_mal = (40000, 40000, 20000) if ctx.thorough() else (2000, 2000, 1000)
    cases = []
    # corpus first
    cdir = os.path.join(common.VERIF, 'corpus', 'chunk')
    for fn in sorted(os.listdir(cdir)) if os.path.isdir(cdir) else []:
        if fn.endswith('.json'):
            cases.append(json.load(open(os.path.join(cdir, fn))))
    # structured stream: words of the Request language, written by the model itself
    rng = ctx.rng('chunk', 'request')
    shells, lines = [], []
    for _ in range(n_req):
        sh = gen_chunk_shell(rng)
        sh['shape'] = 'request'
        size = max(chunk_size_of(sh), 0)
        resends = rng.choice([0, 0, 1, 1, 2, 3])
        atts = [gen_attempt(rng, size, complete=(i == resends and rng.random() < 0.85))
                for i in range(resends + 1)]
        sh['attempts'] = atts
        shells.append(sh)
        lines.append('reqops ' + ' '.join(atts))
    outs = common.run_model('chunk', lines)
    for sh, o in zip(shells, outs):
        w = o.split()
        if w[0] != 'valid':
            raise common.BuildBroken('model rejects a generated Request script: ' + o, '')
        sh['ops'] = w[1:]
        cases.append(sh)
    # random stream
    rng = ctx.rng('chunk', 'random')
    for _ in range(n_rand):
        sh = gen_chunk_shell(rng)
        sh['shape'] = 'random'
        sh['ops'] = gen_random_ops(rng, max(chunk_size_of(sh), 0), False, sh['kind'] != 'path-put' and sh['kind'] != 'path-part')
        cases.append(sh)
    # malformed stream
    rng = ctx.rng('chunk', 'malformed')
    for _ in range(n_mal):
        sh = gen_chunk_shell(rng, allow_direct_weird=True)
        sh['shape'] = 'malformed'
        bytesio = sh['kind'] not in ('path-put', 'path-part')
        ops = gen_random_ops(rng, max(chunk_size_of(sh), 0), True, bytesio)
        if not bytesio and not file_is_opened_before_close(ops):
            # an unopened DeferredOpenFile ignores close(): keep the script inside the model's domain
            ops = ['R:0'] + ops
        sh['ops'] = ops
        cases.append(sh)
    return cases


def check_chunks(ctx, tmpdir):
    cases = chunk_cases(ctx)
    def run_impl(c):
        return run_chunk_case(c, tmpdir)[0]

    def hist(c, o):
        return {'kind': c['kind'], 'shape': c['shape']}

    mism = common.differential(ctx, 'chunk', cases, chunk_model_line, run_impl, hist=hist)
    # the oracle (implementation alone) on every case inside the theorem's hypotheses
    for c in cases:
        r = oracle_chunk(c, tmpdir)
        if r:
            ctx.report(sig('chunk', c), f'upload body ({c["kind"]}, {chunk_size_of(c)} bytes): {r}',
                       {'kind': 'history', 'component': 'chunk', 'case': c})
    reported = {v['signature'] for v in ctx.violations}
    for (c, i, m) in mism[:20]:
        if sig('chunk', c) in reported:
            continue
        r = oracle_chunk(c, tmpdir)
        if r:
            ctx.report(sig('chunk', c), f'upload body ({c["kind"]}): {r}',
                       {'kind': 'history', 'component': 'chunk', 'case': c})
        else:
            ctx.report(f'corr:chunk:{c["kind"]}:{c["shape"]}',
                       f'ReadFileChunk and coq/model/Chunk.v disagree on {chunk_model_line(c)}: impl={i} model={m}',
                       {'kind': 'correspondence', 'theorem_or_correspondence': 'differential chunk (ReadFileChunk + aggregator vs Chunk.v/Progress.v)',
                        'component': 'chunk', 'case': c, 'impl': i, 'model': m}, no_input=True)
    return cases


# ========================================================= (b) the retry loop

RETRYABLE = ['timeout', 'connection', 'readtimeout', 'incomplete', 'streaming']
NONRETRYABLE = ['value', 'fakefault', 'clienterror', 'key']


def make_exc(name):
    from botocore.exceptions import (ReadTimeoutError, IncompleteReadError,
                                     ResponseStreamingError, ClientError)
    from harness.fakes3 import FakeFault
    return {
        'timeout': lambda: socket.timeout('scripted'),
        'connection': lambda: ConnectionError('scripted'),
        'readtimeout': lambda: ReadTimeoutError(endpoint_url='https://s3'),
        'incomplete': lambda: IncompleteReadError(actual_bytes=1, expected_bytes=2),
        'streaming': lambda: ResponseStreamingError(error='scripted'),
        'value': lambda: ValueError('scripted'),
        'fakefault': lambda: FakeFault('scripted'),
        'clienterror': lambda: ClientError({'Error': {'Code': 'InternalError', 'Message': 'x'}}, 'GetObject'),
        'key': lambda: KeyError('scripted'),
    }[name]()


class ScriptedClient:
    def __init__(self, case, trace):
        self.case = case
        self.trace = trace
        self.n = 0

    def get_object(self, Bucket, Key, **kw):
        from harness.fakes3 import Body
        c = self.case
        i = self.n
        self.n += 1
        self.trace.append('Q')
        data = bytes.fromhex(c['obj'])[c['start']:c['start'] + c['len']]
        f = c['faults'][i] if i < len(c['faults']) else ['n']
        sizes = c['reads'][i] if i < len(c['reads']) else []
        if f[0] == 'q':
            raise make_exc(f[1])
        if f[0] == 'a':
            return {'Body': Body(data, sizes, fail_after=f[1], exc=make_exc(f[2]))}
        return {'Body': Body(data, sizes)}


class ScriptedCoordinator:
    """done() answers True from its n-th call on."""

    def __init__(self, done_at):
        self.done_at = done_at
        self.calls = 0
        self.said_done = False
        self.exception = None

    def done(self):
        r = self.done_at is not None and self.calls >= self.done_at
        self.calls += 1
        self.said_done = self.said_done or r
        return r


class RecordingOutput:
    def __init__(self, trace):
        self.trace = trace

    def queue_file_io_task(self, fileobj, data, offset):
        self.trace.append('D' + hx(offset) + ':' + bytes(data).hex())

    def get_io_write_tasks(self, fileobj, data, offset):
        return [lambda: self.trace.append('D' + hx(offset) + ':' + bytes(data).hex())]

    def get_io_write_task(self, fileobj, data, offset):
        return lambda: self.trace.append('D' + hx(offset) + ':' + bytes(data).hex())


def run_get_impl(case):
    """-> (trace tokens, outcome, progress values)"""
    from s3transfer import download
    from s3transfer.exceptions import RetriesExceededError
    from s3transfer.bandwidth import BandwidthLimiter
    trace = []
    coord = ScriptedCoordinator(case['done_at'])
    cls = download.ImmediatelyWriteIOGetObjectTask if case['immediate'] else download.GetObjectTask
    task = cls(transfer_coordinator=coord)
    prog = []

    def cb(bytes_transferred):
        prog.append(bytes_transferred)
        trace.append('P' + hx(bytes_transferred))
    injected = set(NONRETRYABLE)
    try:
        task._main(client=ScriptedClient(case, trace), bucket='b', key='k', fileobj=None,
                   extra_args={}, callbacks=[cb], max_attempts=case['max'],
                   download_output_manager=RecordingOutput(trace), io_chunksize=case['io'],
                   start_index=case['start'],
                   bandwidth_limiter=BandwidthLimiter(StubBucket()) if case['bw'] else None)
        outcome = 'stopped' if coord.said_done else 'ok'
    except RetriesExceededError:
        outcome = 'exceeded'
    except Exception as e:      # canonicalised: any other error that escapes
        outcome = 'raised'
        case_names = {'ValueError': 'value', 'FakeFault': 'fakefault', 'ClientError': 'clienterror', 'KeyError': 'key'}
        if case_names.get(type(e).__name__) not in injected:
            outcome = 'raised-unexpected:' + type(e).__name__
    return trace, outcome, prog


def get_model_line(c):
    def ftok(f):
        if f[0] == 'n':
            return 'n'
        if f[0] == 'q':
            return 'q' + ('1' if f[1] in RETRYABLE else '0')
        return 'a' + hx(f[1]) + ':' + ('1' if f[2] in RETRYABLE else '0')
    faults = ','.join(ftok(f) for f in c['faults']) or '-'
    reads = '/'.join((','.join(hx(s) for s in a) or '_') for a in c['reads']) if c['reads'] else '-'
    return ' '.join(['get', c['obj'] or '-', hx(c['start']), hx(c['len']), hx(c['io']), hx(c['max']),
                     faults, reads, '-' if c['done_at'] is None else hx(c['done_at'])])


def get_impl_line(c):
    trace, outcome, prog = run_get_impl(c)
    # projections as the model prints them, computed here from the trace
    reqs = sum(1 for t in trace if t == 'Q')
    groups, cur = [], None
    for t in trace:
        if t == 'Q':
            cur = []
            groups.append(cur)
        elif t[0] == 'D':
            cur.append(t[1:])
    return ' | '.join([' '.join(trace), outcome, str(reqs), ','.join(hx(p) for p in prog),
                       ';'.join(','.join(g) for g in groups)])


def oracle_get(c):
    """C09 on the implementation alone for one range."""
    trace, outcome, prog = run_get_impl(c)
    r = prefix_violation(prog, c['len'])
    if r:
        return r
    if outcome == 'ok' and sum(prog) != c['len']:
        return f'successful GetObject task over {c["len"]} bytes reported {prog} (sum {sum(prog)})'
    if outcome == 'exceeded' and sum(prog) != 0:
        return f'retries exceeded but reported progress {prog} was not all taken back'
    if sum(1 for t in trace if t == 'Q') > max(c['max'], 0):
        return f'{sum(1 for t in trace if t == "Q")} requests with max_attempts={c["max"]}'
    return None


def gen_get_case(rng, malformed):
    n = rng.choice([0, 1, 2, 3, 5, 8, 13, 24, rng.randrange(0, 33)])
    obj = bytes(rng.randrange(256) for _ in range(n))
    start = rng.randrange(0, n + 1)
    ln = rng.choice([n - start, rng.randrange(0, n - start + 1)])
    mx = rng.choice([1, 2, 3, 3, 5])
    faults = []
    for i in range(rng.randrange(0, mx + 2)):
        k = rng.random()
        retry = rng.random() < (0.6 if malformed else 0.9)
        name = rng.choice(RETRYABLE if retry else NONRETRYABLE)
        if k < 0.2:
            faults.append(['n'])
        elif k < 0.35:
            faults.append(['q', name])
        else:
            hi = ln + (3 if malformed else 1)
            faults.append(['a', rng.randrange(-1 if malformed else 0, hi + 1), name])
    reads = [[rng.randrange(-1 if malformed else 1, 7) for _ in range(rng.randrange(0, 6))]
             for _ in range(rng.randrange(0, mx + 1))]
    done_at = None
    if rng.random() < (0.3 if malformed else 0.08):
        done_at = rng.randrange(0, 6)
    return {'obj': obj.hex(), 'start': start, 'len': ln, 'io': rng.choice([1, 2, 3, 4, 7, 100]),
            'max': mx, 'faults': faults, 'reads': reads, 'done_at': done_at,
            'immediate': rng.random() < 0.5, 'bw': rng.random() < 0.3,
            'shape': 'malformed' if malformed else 'structured'}


def check_retry(ctx):
    n1, n2 = (150000, 40000) if ctx.thorough() else (6000, 2000)
    cases = []
    cdir = os.path.join(common.VERIF, 'corpus', 'retry')
    for fn in sorted(os.listdir(cdir)) if os.path.isdir(cdir) else []:
        if fn.endswith('.json'):
            cases.append(json.load(open(os.path.join(cdir, fn))))
    rng = ctx.rng('retry', 'structured')
    cases += [gen_get_case(rng, False) for _ in range(n1)]
    rng = ctx.rng('retry', 'malformed')
    cases += [gen_get_case(rng, True) for _ in range(n2)]

    def hist(c, o):
        return {'outcome': o.split(' | ')[1], 'shape': c['shape']}

    mism = common.differential(ctx, 'retry', cases, get_model_line, get_impl_line, hist=hist)
    for c in cases:
        r = oracle_get(c)
        if r:
            ctx.report(sig('get', c), f'GetObjectTask over bytes [{c["start"]},{c["start"] + c["len"]}): {r}',
                       {'kind': 'history', 'component': 'retry', 'case': c})
    for (c, i, m) in mism[:20]:
        if oracle_get(c):
            continue
        ctx.report(f'corr:retry:{c["shape"]}',
                   f'GetObjectTask._main and coq/model/Retry.v disagree on {get_model_line(c)}: impl={i} model={m}',
                   {'kind': 'correspondence', 'theorem_or_correspondence': 'differential retry (GetObjectTask._main vs Retry.v run_get)',
                    'component': 'retry', 'case': c, 'impl': i, 'model': m}, no_input=True)
    return cases


# ============================================================ (c) end to end

class RecordingBody:
    """Proxy around the body an upload task hands to the client: records what
    the client life cycle does to it."""

    def __init__(self, body, start, chunk_size, full_size, log):
        self._b = body
        self.ops = []
        self.params = (start, chunk_size, full_size)
        log.append(self)

    def read(self, amount=None):
        self.ops.append('R:N' if amount is None else 'R:' + hx(amount))
        return self._b.read(amount)

    def seek(self, where, whence=0):
        self.ops.append(f'S:{hx(where)}:{hx(whence)}')
        return self._b.seek(where, whence)

    def tell(self):
        self.ops.append('T')
        return self._b.tell()

    def signal_transferring(self):
        self.ops.append('E')
        self._b.signal_transferring()

    def signal_not_transferring(self):
        self.ops.append('D')
        self._b.signal_not_transferring()

    def close(self):
        self.ops.append('C')
        self._b.close()

    def __enter__(self):
        return self

    def __exit__(self, *a):
        self.close()

    def __len__(self):
        return len(self._b)

    def __iter__(self):
        return iter([])


def recording_osutils(log):
    from s3transfer.utils import OSUtils

    class RecOSUtils(OSUtils):
        def open_file_chunk_reader_from_fileobj(self, fileobj, chunk_size, full_file_size,
                                                callbacks, close_callbacks=None):
            start = fileobj.tell()
            body = super().open_file_chunk_reader_from_fileobj(
                fileobj, chunk_size, full_file_size, callbacks, close_callbacks)
            return RecordingBody(body, start, chunk_size, full_file_size, log)
    return RecOSUtils()


def parse_request(ops):
    """Parse a recorded script as  Request . close.  Returns the attempt tokens
    or None when it is not a word of the language."""
    if not ops or ops[-1] != 'C' or ops.count('C') != 1:
        return None
    ops = ops[:-1]
    atts, i = [], 0
    while True:
        if i >= len(ops) or ops[i] != 'D':
            return None
        j = i + 1
        while j < len(ops) and ops[j] not in ('E', 'D', 'C'):
            j += 1
        if j >= len(ops) or ops[j] != 'E':
            return None
        sign = ops[i + 1:j]
        if sign:
            if sign[-1] != 'S:0:0':
                return None
            sign = sign[:-1]
        k = j + 1
        reads = []
        while k < len(ops) and ops[k].startswith('R:'):
            reads.append(ops[k][2:])
            k += 1
        atts.append((sign, reads))
        if k == len(ops):
            break
        if ops[k] != 'S:0:0':
            return None
        i = k + 1
    return [','.join(s) + '/' + ','.join(r) for s, r in atts]


def normalise_script(ops):
    """The model's Sign always rewinds; the client only when it read: drop the
    rewind of an empty sign segment."""
    out = []
    for i, t in enumerate(ops):
        if t == 'S:0:0' and i > 0 and ops[i - 1] == 'D':
            continue
        out.append(t)
    return out


def e2e_cases(ctx):
    rng = ctx.rng('e2e')
    cases = []
    sizes = [0, 1, 2, 3, 5, 6, 7, 9, 10, 12, 17, 23]
    for kind in ('upload-path', 'upload-seekable', 'upload-seekable-offset', 'upload-seekable-short', 'upload-nonseekable',
                 'download-path', 'download-seekable', 'download-nonseekable', 'copy'):
        for size in sizes:
            reps = 150 if ctx.thorough() else 8
            for _ in range(reps):
                chunk = rng.choice([1, 2, 3, 5])
                thr = rng.choice([1, chunk, chunk + 1, 7, 50])
                cases.append({'kind': kind, 'size': size, 'chunk': chunk, 'mpthr': thr,
                              'io': rng.choice([1, 2, 3, 8]),
                              'aggthr': rng.choice([None, 1, 2, 3, 5]),
                              'offset': rng.randrange(0, 6),
                              'attempts': rng.choice([1, 2, 3, 5]),
                              'seed': rng.randrange(10 ** 9),
                              'threads': rng.random() < 0.15,
                              'bandwidth': rng.random() < 0.25})
    return cases


def run_e2e(case, tmpdir, want_bodies=False):
    """Run one transfer.  Returns dict(ok, vals, size, bodies, exc)."""
    import random
    from harness.fakes3 import FakeS3, NonSeekableReader, NonSeekableWriter
    from s3transfer.manager import TransferManager, TransferConfig
    from s3transfer.futures import NonThreadedExecutor
    from s3transfer import utils
    rng = random.Random(case['seed'])
    size = case['size']
    data = bytes(rng.randrange(256) for _ in range(size + 6))
    kind = case['kind']
    client = FakeS3()
    sub = Rec()
    sub2 = Rec()        # a second subscriber: every subscriber is owed the same reports
    log = []
    cfg_kw = dict(multipart_threshold=case['mpthr'], multipart_chunksize=case['chunk'],
                  io_chunksize=case['io'], num_download_attempts=case['attempts'])
    if case.get('bandwidth'):
        cfg_kw['max_bandwidth'] = 10 ** 12
    cfg = TransferConfig(**cfg_kw)

    def body_script(op, kw):
        resends = rng.choice([0, 0, 1, 2])
        return {'sign_reads': [rng.randrange(1, 9) for _ in range(rng.randrange(0, 4))],
                'resends': resends,
                'send_reads': [rng.randrange(1, 6) for _ in range(rng.randrange(0, 5))],
                'resend_after': [rng.randrange(0, case['chunk'] + size + 2) for _ in range(resends)]}

    budget = {}

    def get_script(kw, attempt):
        key = kw.get('Range')
        left = budget.setdefault(key, rng.randrange(0, case['attempts']))
        sc = {'read_sizes': [rng.randrange(1, 6) for _ in range(rng.randrange(0, 5))]}
        if attempt < left:
            sc['fail_after'] = rng.randrange(0, case['chunk'] + size + 1)
            sc['exc'] = make_exc(rng.choice(RETRYABLE))
        return sc

    client.body_script = body_script
    client.get_script = get_script
    executor = None if case.get('threads') else NonThreadedExecutor
    osutil = recording_osutils(log)
    res = {'size': size, 'ok': False, 'vals': sub.vals, 'vals2': sub2.vals, 'bodies': log, 'exc': None}
    try:
        with ScaledAggregator(case['aggthr']), scaled_adjuster(utils, 2, 9, 4):
            with TransferManager(client, cfg, osutil=osutil, executor_cls=executor) as m:
                if kind.startswith('upload'):
                    payload = data[:size]
                    if kind == 'upload-path':
                        path = os.path.join(tmpdir, 'e2e-src')
                        with open(path, 'wb') as fh:
                            fh.write(payload)
                        src = path
                    elif kind == 'upload-seekable':
                        src = io.BytesIO(payload)
                    elif kind == 'upload-seekable-short':
                        from harness.fakes3 import ShortReadBytesIO
                        src = ShortReadBytesIO(payload, cap=1 + case['offset'] % 3)
                    elif kind == 'upload-seekable-offset':
                        k = case['offset']
                        src = io.BytesIO(data[size:size + k] + payload)
                        src.seek(k)
                    else:
                        src = NonSeekableReader(payload, [rng.randrange(1, 7) for _ in range(4)])
                    fut = m.upload(src, 'b', 'k', subscribers=[sub, sub2])
                    fut.result()
                    res['stored_ok'] = client.objects.get(('b', 'k')) == payload
                elif kind.startswith('download'):
                    client.objects[('b', 'k')] = data[:size]
                    if kind == 'download-path':
                        dest = os.path.join(tmpdir, 'e2e-dst')
                    elif kind == 'download-seekable':
                        dest = io.BytesIO()
                    else:
                        dest = NonSeekableWriter()
                    fut = m.download('b', 'k', dest, subscribers=[sub, sub2])
                    fut.result()
                    if kind == 'download-path':
                        got = open(dest, 'rb').read()
                    else:
                        got = dest.getvalue()
                    res['stored_ok'] = got == data[:size]
                else:
                    client.objects[('sb', 'sk')] = data[:size]
                    fut = m.copy({'Bucket': 'sb', 'Key': 'sk'}, 'b', 'k', subscribers=[sub, sub2])
                    fut.result()
                    res['stored_ok'] = client.objects.get(('b', 'k')) == data[:size]
        res['ok'] = True
    except Exception as e:
        res['exc'] = type(e).__name__ + ': ' + str(e)[:200]
    res['requests'] = [r['op'] for r in client.log]
    return res


def oracle_e2e(case, tmpdir):
    r = run_e2e(case, tmpdir)
    if not r['ok']:
        # the scripts never inject a fatal fault: a failing transfer is itself a finding for the
        # byte-exactness properties, here only the bounds apply
        return prefix_violation(r['vals'], r['size']) or prefix_violation(r['vals2'], r['size'])
    return exact_violation(r['vals'], r['size']) or second_subscriber_violation(r)


def second_subscriber_violation(r):
    v = exact_violation(r['vals2'], r['size'])
    return f'second subscriber of the same transfer: {v}' if v else None


def check_e2e(ctx, tmpdir):
    cases = e2e_cases(ctx)
    lines, expect, owners = [], [], []
    for c in cases:
        r = run_e2e(c, tmpdir)
        multipart = any(o in ('UploadPart', 'UploadPartCopy') for o in r['requests']) or \
            sum(1 for o in r['requests'] if o == 'GetObject') > 1
        ctx.count('e2e', 1, nontrivial_key=json.dumps(c, sort_keys=True), kind=c['kind'],
                  mode='multipart' if multipart else 'single', ok=r['ok'],
                  rewinds=any(v < 0 for v in r['vals']),
                  resent=any('S:0:0 D' in ' '.join(b.ops) for b in r['bodies']))
        if any(v < 0 for v in r['vals']) and multipart and not c.get('threads'):
            ctx.sample({'component': 'e2e', 'case': c, 'requests': r['requests'][:12],
                        'bytes_transferred': r['vals'][:24]})
        v = exact_violation(r['vals'], r['size']) if r['ok'] else prefix_violation(r['vals'], r['size'])
        if not v and r['ok']:
            v = second_subscriber_violation(r)
        if v:
            ctx.report(sig('e2e', c), f'{c["kind"]} of {c["size"]} bytes (chunk {c["chunk"]}, threshold {c["mpthr"]}): {v}',
                       {'kind': 'input', 'component': 'e2e', 'case': c})
            continue
        if not r['ok']:
            ctx.report(sig('e2e-failed', c), f'{c["kind"]} of {c["size"]} bytes failed although only retryable, '
                       f'bounded faults were scripted: {r["exc"]}',
                       {'kind': 'input', 'component': 'e2e', 'case': c}, no_input=True)
            continue
        # uploads: every body's recorded script satisfies the theorem's hypotheses (decided by the
        # extracted hyp_ok), is a word of the Request language, and the model run on it predicts
        # what the subscriber saw
        if c['kind'].startswith('upload'):
            pred_lines = []
            for b in r['bodies']:
                start, csize, full = b.params
                thr = c['aggthr'] if c['aggthr'] is not None else 256 * 1024
                zeros = '00' * max(full, 0)
                lines.append(' '.join(['hyp', zeros or '-', hx(start), hx(csize), hx(full), '0'] + b.ops))
                expect.append(('hyp', b.ops, c))
                atts = parse_request(b.ops)
                if atts is None:
                    ctx.report('corr:e2e:script-language',
                               f'the operations a body received during a successful {c["kind"]} are not of the form '
                               f'Sign.Send.(seek0.Sign.Send)*.close: {" ".join(b.ops)}',
                               {'kind': 'correspondence', 'theorem_or_correspondence':
                                'Request script language (Progress.request_ops) vs the request life cycle',
                                'component': 'e2e', 'case': c, 'ops': b.ops}, no_input=True)
                    break
                lines.append('reqops ' + ' '.join(atts))
                expect.append(('script', normalise_script(b.ops), c))
                lines.append(' '.join(['runq', zeros or '-', hx(start), hx(csize), hx(full), '0', hx(thr)] + b.ops))
                expect.append(('values-part', None, c))
                pred_lines.append(len(lines) - 1)
            # (a short-reading source splits the reports of the single-request path, where the body
            # reads the user's stream directly: sums and bounds are judged above, not the exact values)
            if not c.get('threads') and c['kind'] != 'upload-seekable-short':
                owners.append((c, pred_lines, r['vals']))
    if lines:
        outs = common.run_model('chunk', lines)
        for (kind, want, c), o in zip(expect, outs):
            if kind == 'hyp':
                ctx.count('e2e-body-hypotheses-decided', 1, nontrivial_key=' '.join(want) + json.dumps(c, sort_keys=True))
                if o != '1':
                    ctx.report('corr:e2e:hypothesis',
                               f'a body of a successful {c["kind"]} received {" ".join(want)}: the hypotheses of '
                               f'chunk_reported_checked (well-formed reads, suppressed segments return) do not hold',
                               {'kind': 'correspondence', 'theorem_or_correspondence':
                                'hypotheses of chunk_reported_checked vs the request life cycle',
                                'component': 'e2e', 'case': c, 'ops': want}, no_input=True)
            if kind == 'script':
                w = o.split()
                if w[0] != 'valid' or normalise_script(w[1:]) != want:
                    ctx.report('corr:e2e:script-language',
                               f'recorded body script differs from the model\'s request_ops for its own parse: {want} vs {o}',
                               {'kind': 'correspondence', 'theorem_or_correspondence': 'Progress.request_ops vs recorded client life cycle',
                                'component': 'e2e', 'case': c}, no_input=True)
        for c, idxs, vals in owners:
            pred = []
            for i in idxs:
                part = outs[i].split(' | ')[2]
                pred += [unhx(x) for x in part.split(',') if x]
            ctx.count('e2e-replayed-on-model', 1, nontrivial_key=json.dumps(c, sort_keys=True))
            if pred != vals:
                ctx.report('corr:e2e:upload-values',
                           f'{c["kind"]} of {c["size"]} bytes: subscriber saw {vals}, the model run on the recorded '
                           f'body scripts predicts {pred}',
                           {'kind': 'correspondence', 'theorem_or_correspondence': 'Chunk.v/Progress.v replay of recorded body scripts',
                            'component': 'e2e', 'case': c, 'impl': vals, 'model': pred}, no_input=True)
    return cases


def check_lifecycle(ctx):
    """FakeS3's emulation of the request life cycle produces words of the
    model's script language (ties Progress.request_ops to harness/fakes3.py)."""
    from harness.fakes3 import FakeS3
    rng = ctx.rng('lifecycle')

    class Probe:
        def __init__(self, n):
            self.ops, self.n, self.pos = [], n, 0

        def read(self, amt=None):
            self.ops.append('R:N' if amt is None else 'R:' + hx(amt))
            k = self.n - self.pos if amt is None else min(amt, self.n - self.pos)
            self.pos += k
            return b'x' * k

        def seek(self, w, wh=0):
            self.ops.append(f'S:{hx(w)}:{hx(wh)}')
            self.pos = w

        def signal_transferring(self):
            self.ops.append('E')

        def signal_not_transferring(self):
            self.ops.append('D')

    from s3transfer import utils
    lines, wants = [], []
    for _ in range(5000 if ctx.thorough() else 200):
        c = FakeS3()
        c.meta.events.register_first('request-created.s3', utils.signal_not_transferring, unique_id='a')
        c.meta.events.register_last('request-created.s3', utils.signal_transferring, unique_id='b')
        n = rng.randrange(0, 20)
        resends = rng.randrange(0, 4)
        script = {'sign_reads': [rng.randrange(1, 9) for _ in range(rng.randrange(0, 4))], 'resends': resends,
                  'send_reads': [rng.randrange(1, 6) for _ in range(rng.randrange(0, 5))],
                  'resend_after': [rng.randrange(0, n + 2) for _ in range(resends)]}
        c.body_script = lambda op, kw: script
        p = Probe(n)
        c.put_object(Bucket='b', Key='k', Body=p)
        atts = parse_request(p.ops + ['C'])
        ctx.count('lifecycle', 1, nontrivial_key=' '.join(p.ops))
        if atts is None:
            ctx.report('corr:lifecycle', f'FakeS3 life cycle produced a script outside the Request language: {p.ops}',
                       {'kind': 'correspondence', 'theorem_or_correspondence': 'fakes3._consume_body vs Progress.request_ops',
                        'case': script}, no_input=True)
            continue
        lines.append('reqops ' + ' '.join(atts))
        wants.append(normalise_script(p.ops + ['C']))
    outs = common.run_model('chunk', lines)
    for o, w in zip(outs, wants):
        ws = o.split()
        if ws[0] != 'valid' or normalise_script(ws[1:]) != w:
            ctx.report('corr:lifecycle', f'request_ops {o} differs from the recorded life cycle {w}',
                       {'kind': 'correspondence', 'theorem_or_correspondence': 'fakes3._consume_body vs Progress.request_ops'},
                       no_input=True)


# ============================== (d) the real botocore request life cycle

_XML = {
    'CreateMultipartUpload': (200, {}, b'<?xml version="1.0" encoding="UTF-8"?><InitiateMultipartUploadResult '
                              b'xmlns="http://s3.amazonaws.com/doc/2006-03-01/"><Bucket>b</Bucket><Key>k</Key>'
                              b'<UploadId>uid</UploadId></InitiateMultipartUploadResult>'),
    'CompleteMultipartUpload': (200, {}, b'<?xml version="1.0" encoding="UTF-8"?><CompleteMultipartUploadResult '
                                b'xmlns="http://s3.amazonaws.com/doc/2006-03-01/"><Bucket>b</Bucket><Key>k</Key>'
                                b'<ETag>"e"</ETag></CompleteMultipartUploadResult>'),
    'AbortMultipartUpload': (204, {}, b''),
    'PutObject': (200, {'ETag': '"e"'}, b''),
    'UploadPart': (200, {'ETag': '"e"'}, b''),
}


class _Raw:
    def __init__(self, b):
        self.b = b

    def stream(self, **kw):
        yield self.b

    def read(self, *a):
        return self.b


def check_botocore(ctx, tmpdir):
    """The hypothesis about the request life cycle, against botocore itself: a
    real botocore S3 client (signing, checksums, retry handler, reset_stream)
    whose HTTP layer is replaced by a before-send handler that reads the body
    as an HTTP client does and answers 500 a scripted number of times."""
    import unittest.mock
    import botocore.session
    from botocore.config import Config
    from botocore.awsrequest import AWSResponse
    from s3transfer.manager import TransferManager, TransferConfig
    from s3transfer.futures import NonThreadedExecutor
    from s3transfer import utils
    from harness.fakes3 import NonSeekableReader
    rng = ctx.rng('botocore')
    session = botocore.session.get_session()
    script = {}

    def before_send(request, event_name=None, **kw):
        op = event_name.split('.')[-1]
        body = request.body
        st = script.setdefault('calls', {})
        key = (op, request.url)
        k = st.get(key, 0)
        st[key] = k + 1
        fail = op in ('PutObject', 'UploadPart') and k < script['fails'].get(key, script['default_fails'])
        if hasattr(body, 'read'):
            n = 0
            while True:
                d = body.read(script['blocksize'])
                if not d:
                    break
                n += len(d)
                if fail and n >= script['fail_after']:
                    break
        if fail:
            return AWSResponse(request.url, 500, {}, _Raw(b'<Error><Code>InternalError</Code><Message>x</Message></Error>'))
        status, headers, content = _XML[op]
        return AWSResponse(request.url, status, headers, _Raw(content))

    def make_clients():
        out = []
        for scheme in ('http', 'https'):
            for calc in ('when_required', 'when_supported'):
                mode = 'standard' if scheme == 'http' else 'legacy'
                c = session.create_client(
                    's3', region_name='us-east-1', endpoint_url=scheme + '://localhost:9',
                    aws_access_key_id='a', aws_secret_access_key='b',
                    config=Config(retries={'max_attempts': 4, 'mode': mode},
                                  request_checksum_calculation=calc))
                c.meta.events.register('before-send.s3', before_send)
                out.append((scheme + '/' + calc + '/' + mode, c))
        return out

    clients = make_clients()
    n = 3000 if ctx.thorough() else 64
    lines, expect = [], []
    with unittest.mock.patch('time.sleep', lambda x: None):
        for i in range(n):
            if i % 40 == 39:
                clients = make_clients()      # the standard retry mode has a per-client retry quota
            name, client = clients[i % len(clients)]
            size = rng.choice([0, 1, 2, 5, 9, 14, 23])
            case = {'client': name, 'size': size, 'chunk': rng.choice([2, 3, 5]), 'mpthr': rng.choice([1, 4, 50]),
                    'aggthr': rng.choice([None, 1, 3, 5]), 'source': rng.choice(['path', 'seekable', 'offset', 'nonseekable']),
                    'fails': rng.randrange(0, 3), 'fail_after': rng.randrange(0, size + 3),
                    'blocksize': rng.choice([1, 4, 8192])}
            script.clear()
            script.update(fails={}, default_fails=case['fails'], fail_after=case['fail_after'],
                          blocksize=case['blocksize'])
            data = bytes(rng.randrange(256) for _ in range(size + 4))
            payload = data[:size]
            if case['source'] == 'path':
                src = os.path.join(tmpdir, 'bc-src')
                with open(src, 'wb') as fh:
                    fh.write(payload)
            elif case['source'] == 'seekable':
                src = io.BytesIO(payload)
            elif case['source'] == 'offset':
                src = io.BytesIO(data[size:] + payload)
                src.seek(4)
            else:
                src = NonSeekableReader(payload, [3, 1, 2])
            sub, log = Rec(), []
            cfg = TransferConfig(multipart_threshold=case['mpthr'], multipart_chunksize=case['chunk'])
            err = None
            try:
                with ScaledAggregator(case['aggthr']), scaled_adjuster(utils, 2, 9, 4):
                    with TransferManager(client, cfg, osutil=recording_osutils(log),
                                         executor_cls=NonThreadedExecutor) as m:
                        m.upload(src, 'b', 'k', subscribers=[sub]).result()
            except Exception as e:
                err = type(e).__name__ + ': ' + str(e)[:160]
            scripts = [' '.join(b.ops) for b in log]
            ctx.count('botocore-lifecycle', 1, nontrivial_key=json.dumps(case, sort_keys=True),
                      client=name, bodies=min(len(log), 3), ok=err is None)
            ctx.sample({'component': 'botocore-lifecycle', 'case': case, 'body_scripts': scripts[:3],
                        'bytes_transferred': sub.vals[:16]})
            if err is not None:
                ctx.report(sig('botocore-failed', case), f'upload through the real botocore client failed: {err}',
                           {'kind': 'harness', 'component': 'botocore', 'case': case}, no_input=True)
                continue
            v = exact_violation(sub.vals, size)
            if v:
                ctx.report(sig('botocore', case), f'upload of {size} bytes through the real botocore client ({name}): {v}; '
                           f'body scripts {scripts}',
                           {'kind': 'input', 'component': 'botocore', 'case': case})
                continue
            thr = case['aggthr'] if case['aggthr'] is not None else 256 * 1024
            idx = []
            for b in log:
                start, csize, full = b.params
                zeros = '00' * max(full, 0)
                lines.append(' '.join(['hyp', zeros or '-', hx(start), hx(csize), hx(full), '0'] + b.ops))
                expect.append(('hyp', case, ' '.join(b.ops)))
                lines.append(' '.join(['runq', zeros or '-', hx(start), hx(csize), hx(full), '0', hx(thr)] + b.ops))
                idx.append(len(lines) - 1)
                expect.append(('vals', case, None))
            expect.append(('owner', case, (idx, list(sub.vals))))
    outs = common.run_model('chunk', lines) if lines else []
    it = iter(outs)
    for kind, case, extra in expect:
        if kind == 'owner':
            idx, vals = extra
            pred = []
            for i in idx:
                pred += [unhx(x) for x in outs[i].split(' | ')[2].split(',') if x]
            if pred != vals:
                ctx.report('corr:botocore:upload-values',
                           f'upload through botocore ({case}): subscriber saw {vals}, the model predicts {pred}',
                           {'kind': 'correspondence', 'theorem_or_correspondence': 'Chunk.v/Progress.v replay of body scripts recorded under botocore',
                            'case': case, 'impl': vals, 'model': pred}, no_input=True)
            continue
        o = next(it)
        if kind == 'hyp' and o != '1':
            ctx.report('corr:botocore:hypothesis',
                       f'botocore ({case["client"]}) drove an upload body with {extra}: the hypotheses of '
                       f'chunk_reported_checked do not hold for this script',
                       {'kind': 'correspondence', 'theorem_or_correspondence': 'hypotheses of chunk_reported_checked vs botocore',
                        'case': case, 'ops': extra}, no_input=True)


# ======================================================================= run

def run(ctx):
    ok = common.proofs(ctx, 'C09', EXTRACT, COMPONENTS)
    ctx.assumptions = [
        'upload bodies are driven by the request life cycle Sign.Send.(seek0.Sign.Send)*: every suppressed segment '
        '(signal_not_transferring .. signal_transferring) begins and ends at the start of the body (botocore: request-created '
        'handlers around signing, AWSPreparedRequest.reset_stream while reporting is on); stated as hypothesis '
        'suppressed_returns / valid_attempt and shown necessary by suppressed_rewind_overreports; '
        'the harness checks it on every body of every end-to-end upload against FakeS3\'s emulation of that life cycle',
        'reads ask for a non-negative amount or for everything (read(-1) on a ReadFileChunk reads past the chunk; no client does it)',
        'download streams: read(n) returns at most n bytes and b"" only at the end; faults are raised by get_object or by '
        'read(); io_chunksize >= 1 (TransferConfig rejects <= 0)',
        'the sizes of the parts of an upload add up to the transfer size (C01/C14: proved here for the plan of a known-size '
        'upload, a ranged download and a copy)',
        'botocore\'s HTTP layer is replaced by a before-send handler that reads the body in blocks until exhaustion or a '
        'scripted cut and answers 500/200; everything above it (signers, checksum handlers, retry handler, reset_stream) is the '
        'installed botocore',
        'the extracted OCaml models and their line drivers are trusted for the correspondence only',
    ]
    ctx.cov['rule'] = (
        'chunk: a case = (how the body is built: directly or by one of the three upload input managers, file 0-64 bytes, '
        'window, aggregator threshold, bandwidth wrapper) x script; structured stream = words of the Request language '
        'generated from random attempt descriptors by the model\'s own request_ops, random stream = arbitrary '
        'read/seek/enable/disable/tell/close sequences, malformed stream = negative reads, invalid whence, windows outside the '
        'file, operations after close. retry: (object, range, io chunk, max attempts, fault script with retryable and '
        'non-retryable errors raised by get_object or by read after k bytes, read-size scripts, cancellation point) run through '
        'the real _main of both task classes. e2e: real TransferManager + FakeS3 for 8 source/destination kinds x sizes x '
        'chunk/threshold/aggregator-threshold, bodies resent and cut, streams faulted. A case is distinct by its full model '
        'command line (inputs); e2e cases by their parameter record.')
    tmpdir = tempfile.mkdtemp(prefix='verif-c09-')
    try:
        if ok:
            check_chunks(ctx, tmpdir)
            check_retry(ctx)
            check_lifecycle(ctx)
            check_e2e(ctx, tmpdir)
            check_botocore(ctx, tmpdir)
            check_interleaved(ctx)
        if ctx.broken is not None:
            search_after_break(ctx, tmpdir)
    finally:
        shutil.rmtree(tmpdir, ignore_errors=True)


def interleaved_specs(ctx):
    """'every interleaving of parts': multipart uploads / copies / ranged downloads whose parts run on
    2-3 request threads under the cooperative scheduler, the aggregator threshold scaled to a few
    bytes, on_progress a scheduling point (a user callback takes time)."""
    from harness.props import sysrun
    rng = ctx.rng('interleaved')
    out = []
    kinds = [dict(kind='upload', src='path', size=12), dict(kind='upload', src='seekable', size=11),
             dict(kind='upload', src='nonseekable', size=10), dict(kind='copy', size=12),
             dict(kind='download', dst='path', size=12), dict(kind='download', dst='nonseekable', size=11),
             dict(kind='upload', src='path', size=2)]
    n = 160 if ctx.thorough() else 42
    for i in range(n):
        ts = dict(kinds[i % len(kinds)])
        cfg = dict(max_request_concurrency=rng.choice([2, 3]), multipart_chunksize=rng.choice([3, 4]), multipart_threshold=4,
                   io_chunksize=2)
        out.append(dict(transfers=[ts], cfg=cfg, agg_threshold=rng.choice([2, 3, 5]), progress_yield=True,
                        chooser={'kind': ['random', 'pct', 'random'][i % 3], 'seed': rng.randrange(1 << 30), 'depth': 5}))
    return out


def interleaved_mons():
    from harness.sched import monitors as M
    return [M.m_terminates, M.m_progress_sum]


def check_interleaved(ctx):
    from harness.props import sysrun
    sysrun.sub_runs(ctx, interleaved_specs(ctx), interleaved_mons())


def search_after_break(ctx, tmpdir):
    """A proof obligation, the build or a translator broke: look for a concrete
    input on which the implementation violates the property."""
    found = False
    rng = ctx.rng('search')
    # request-shaped chunk scripts, generated without the model
    for _ in range(400):
        sh = gen_chunk_shell(rng)
        sh['shape'] = 'request'
        size = max(chunk_size_of(sh), 0)
        ops = []
        resends = rng.randrange(0, 3)
        for i in range(resends + 1):
            ops.append('D')
            for _ in range(rng.randrange(0, 3)):
                ops.append('R:' + hx(rng.randrange(0, size + 3)))
            ops += ['S:0:0', 'E']
            n = size if i == resends else rng.randrange(0, size + 1)
            while n > 0:
                k = rng.randrange(1, 5)
                ops.append('R:' + hx(k))
                n -= k
            ops.append('R:1' if i == resends else 'S:0:0')
        if ops[-1] == 'S:0:0':
            ops.pop()
        ops.append('C')
        sh['ops'] = ops
        r = oracle_chunk(sh, tmpdir)
        if not r:
            sh = dict(sh, shape='random', ops=gen_random_ops(rng, size, False, sh['kind'] not in ('path-put', 'path-part')))
            r = oracle_chunk(sh, tmpdir)
        if r:
            ctx.report(sig('chunk', sh), f'upload body ({sh["kind"]}): {r}',
                       {'kind': 'history', 'component': 'chunk', 'case': sh, 'broken': ctx.broken.what})
            found = True
            break
    for malformed in (False,):
        for _ in range(600):
            c = gen_get_case(rng, malformed)
            r = oracle_get(c)
            if r:
                ctx.report(sig('get', c), f'GetObjectTask over bytes [{c["start"]},{c["start"] + c["len"]}): {r}',
                           {'kind': 'history', 'component': 'retry', 'case': c, 'broken': ctx.broken.what})
                found = True
                break
    for c in e2e_cases(ctx):
        r = oracle_e2e(c, tmpdir)
        if r:
            ctx.report(sig('e2e', c), f'{c["kind"]} of {c["size"]} bytes: {r}',
                       {'kind': 'input', 'component': 'e2e', 'case': c, 'broken': ctx.broken.what})
            found = True
            break
    if not found:
        ctx.report(f'broken:{ctx.broken.what}', ctx.broken.what,
                   {'kind': 'theorem', 'theorem_or_correspondence': ctx.broken.what, 'log': ctx.broken.log},
                   no_input=True)


def replay(ctx, data):
    case = data.get('case')
    comp = data.get('component')
    if isinstance(case, dict) and 'transfers' in case:
        from harness.props import sysrun
        return sysrun.replay_spec(ctx, data, interleaved_mons())
    tmpdir = tempfile.mkdtemp(prefix='verif-c09-')
    try:
        if isinstance(case, dict) and comp == 'chunk' and data.get('kind') != 'correspondence':
            r = oracle_chunk(case, tmpdir)
            print('oracle:', r)
            return r is not None
        if isinstance(case, dict) and comp == 'retry' and data.get('kind') != 'correspondence':
            r = oracle_get(case)
            print('oracle:', r)
            return r is not None
        if isinstance(case, dict) and comp == 'e2e' and data.get('kind') != 'correspondence':
            r = oracle_e2e(case, tmpdir)
            print('oracle:', r)
            return r is not None
    finally:
        shutil.rmtree(tmpdir, ignore_errors=True)
    # theorem / correspondence replays: re-run the quick check
    run(ctx)
    return bool(ctx.violations)
