"""C19 -- process-pool downloads finish only after all jobs, with cleanup.

Proof: coq/props/C19.v over the protocol model coq/model/Pool.v (inductive
invariant in coq/proofs/PoolProofs.v).

Tie (in-process trace validation, NO multiprocessing): the REAL
TransferMonitor / TransferState, GetObjectSubmitter._do_run,
GetObjectWorker._do_run, ProcessPoolDownloader.download_file / __exit__ /
shutdown and ProcessPoolTransferFuture run as cooperative threads under
harness/sched/core.Sched.  `s3transfer.processpool.threading` is the scheduler's
shim, the two multiprocessing queues are shim queues, the client factory returns
harness/fakes3.FakeS3, OSUtils is a logging / fault-injecting subclass working
on a real temporary directory.  Every linearised event is logged, translated to
the model's alphabet and replayed through the extracted validator
(implementation traces must be model traces, and the final observable state must
agree).

Search oracle (implementation alone): the destination directory and the monitor
are sampled after every scheduler step; when a transfer's done flag becomes true
all its jobs must have been accounted and the destination must be complete or
the temp file removed; shutdown returns only after all submitted downloads are
done; Ctrl-C cancels the unfinished ones; deadlock / livelock / a crashed
process thread is a violation.  A replay is (scenario, fault, chooser choices).
"""
import os
import shutil
import socket
import tempfile

from harness import common, names
from harness.common import hx
from harness.sched import core

EXTRACT = ['ExPool']
COMPONENTS = ['pool']
LEVEL = 'proof'

CHUNK = 4          # multipart_chunksize of the scaled configuration
THRESHOLD = 5      # multipart_threshold: objects of <= 4 bytes are one job


def pp():
    import s3transfer.processpool as m
    return m


# ---------------------------------------------------------------- scenario

def object_bytes(d, njobs):
    """Object of download d with exactly njobs jobs (1 job: below the threshold)."""
    size = 3 if njobs == 1 else CHUNK * (njobs - 1) + 2
    return bytes((17 * d + 7 * i + 1) % 251 for i in range(size))


_MISSING = object()


class JoinHandle:
    """What ProcessPoolDownloader keeps in _submitter / _workers: join() only."""

    def __init__(self, sched, thread, name):
        self.sched, self.thread, self.name = sched, thread, name

    def join(self):
        self.sched.yield_point('join ' + self.name)
        self.sched.block_until(lambda: self.thread.finished, 'join ' + self.name)


class ShimQueue:
    """multiprocessing.Queue stand-in: FIFO; put/get are yield points, get blocks."""

    def __init__(self, R, name):
        self.R, self.name, self.items = R, name, []

    def put(self, item):
        self.R.sched.yield_point(self.name + '.put')
        self.items.append(item)
        extra = {}
        if self.name == 'reqq' and item == pp().SHUTDOWN_SIGNAL and self.R.interrupt_raised:
            # shutdown() after Ctrl-C: what is unfinished now must have been cancelled
            extra['uncancelled'] = [t for t, st in sorted(states_of(self.R.real_monitor).items())
                                    if not st.done and st.exception is None]
        self.R.log('put', q=self.name, item=item, **extra)

    def get(self):
        self.R.sched.yield_point(self.name + '.get')
        if not self.items:
            self.R.sched.block_until(lambda: bool(self.items), self.name + '.get')
        item = self.items.pop(0)
        self.R.log('get', q=self.name, item=item)
        return item


def states_of(monitor):
    """TransferMonitor's id -> TransferState table (its only dict attribute), whatever it is called."""
    return getattr(monitor, names.find_attr(monitor, lambda v: isinstance(v, dict), '_transfer_states'))


class JobLock:
    """TransferState._job_lock: the shim lock plus the log record of the locked
    decrement.  The record is written at the release, i.e. at the position of
    the critical section in the linearised log (the scheduler yields after a
    release, so a record written after notify_job_complete returned could be
    overtaken); the value the caller got is filled in when the call returns.
    The post-release yield is done here, after the record."""

    def __init__(self, R, inner, t, state):
        self.R, self.inner, self.t, self.state = R, inner, t, state
        inner.post_yield = False

    def acquire(self, *a, **k):
        return self.inner.acquire(*a, **k)

    def release(self):
        v = self.state.jobs_to_complete
        self.inner.release()
        rec = self.R.log('mon', m='notify_job_complete', args=(self.t,), r=v, inlock=v)
        self.R.pending_decr[self.R.sched.me()] = rec
        self.R.sched.yield_point('lock.release')

    def __enter__(self):
        self.acquire()
        return self

    def __exit__(self, *a):
        self.release()


class InjectedInterrupt(KeyboardInterrupt):
    pass


class LoggingMonitor:
    """The real TransferMonitor behind a logging facade (what the manager proxy
    is in production).  A call is a yield point; its effect and the log record
    are in one atomic segment."""

    def __init__(self, R, real):
        self._R, self._real = R, real

    def _connect(self):
        self._R.log('mon', m='_connect', args=(), r=None)

    def __getattr__(self, name):
        real = getattr(self._real, name)
        R = self._R

        def call(*args):
            R.sched.yield_point('mon.' + name)
            extra = {}
            if name == 'notify_cancel_all_in_progress':
                extra['undone'] = [t for t, st in sorted(states_of(self._real).items())
                                   if not st.done]
            if name == 'poll_for_result' and R.interrupt_in_result():
                R.log('mon', m='poll_interrupted', args=args, r=None)
                raise InjectedInterrupt()
            me = R.sched.me()
            R.pending_decr.pop(me, None)
            try:
                r = real(*args)
            except Exception as e:      # poll_for_result raising the stored exception
                R.log('mon', m=name, args=args, r=None, raised=type(e).__name__, **extra)
                raise
            if name == 'notify_job_complete' and me in R.pending_decr:
                # already logged inside the critical section: record what the caller got
                R.pending_decr.pop(me)['r'] = r
                return r
            if name == 'notify_new_transfer':
                st = states_of(self._real)[r]
                jl = names.find_attr(st, names.lock_like, '_job_lock')
                setattr(st, jl, JobLock(R, getattr(st, jl), r, st))
            R.log('mon', m=name, args=args, r=r, **extra)
            return r
        return call


class LoggedFile:
    """What `open(temp, 'rb+')` returns inside GetObjectWorker._write_to_file."""

    def __init__(self, R, f, path):
        self.R, self.f, self.path = R, f, path

    def seek(self, off):
        self.R.log('seek', path=os.path.basename(self.path), off=off)
        return self.f.seek(off)

    def write(self, data):
        self.R.sched.yield_point('file.write')
        r = self.f.write(data)
        self.f.flush()
        return r

    def __enter__(self):
        return self

    def __exit__(self, et, ev, tb):
        self.f.close()
        self.R.attempt_end(et is None, ev)
        return False


class Run:
    """One scheduled run of a scenario."""

    def __init__(self, case, chooser, max_steps=20000):
        self.case = case
        self.trace = []
        self.sched = core.Sched(chooser=chooser, max_steps=max_steps, trace=self.trace)
        self.problems = []          # oracle findings [(signature-kind, text)]
        self.twins = {}             # download -> future bound to the real monitor (non-yielding done())
        self.future_done_seen = {}
        self.deadlock = None
        self.livelock = None
        self.branching = []
        self.done_seen = {}         # t -> step at which done was first sampled
        self.interrupted = False
        self.interrupt_raised = False
        self.pending_decr = {}

    # -- logging ----------------------------------------------------------------
    def log(self, kind, **kw):
        return self.sched.log(kind, **kw)

    def attempt_end(self, ok, exc):
        retry = (not ok) and isinstance(exc, pp().S3_RETRYABLE_DOWNLOAD_ERRORS)
        self.log('attempt_end', ok=ok, retryable=retry)

    def interrupt_in_result(self):
        c = self.case.get('interrupt')
        if c and c.get('how') == 'in_result' and not self.interrupted:
            self.interrupted = True
            self.interrupt_raised = True
            return True
        return False

    # -- build the pool ---------------------------------------------------------
    def setup(self):
        m = pp()
        case = self.case
        R = self
        self.tmpdir = tempfile.mkdtemp(prefix='verif-c19-')
        self.shim = core.Shim(self.sched, post_yield=True)   # locks yield right after release()
        self.saved = (m.threading, m.__dict__.get('open', None))
        m.threading = self.shim

        def logged_open(filename, mode):
            try:
                f = open(filename, mode)
            except Exception as e:
                R.attempt_end(False, e)
                raise
            return LoggedFile(R, f, filename)
        m.open = logged_open

        from harness.fakes3 import FakeS3, FakeFault
        client = FakeS3()
        self.client = client
        self.objects = {}
        self.dests = {}
        self.old = {}
        for d, nj in enumerate(case['jobs']):
            data = object_bytes(d, nj)
            client.objects[('b', f'k{d}')] = data
            self.objects[d] = data
            self.dests[d] = os.path.join(self.tmpdir, f'dest{d}')
            if case.get('pre_dest'):
                self.old[d] = b'OLD-CONTENT-%d' % d
                with open(self.dests[d], 'wb') as f:
                    f.write(self.old[d])

        fault = case.get('fault') or {}
        counts = {}
        cur = {'job': None}

        def job_of(kwargs):
            d = int(kwargs['Key'][1:])
            rng = kwargs.get('Range')
            j = 0 if not rng else int(rng.split('=')[1].split('-')[0]) // CHUNK
            return d, j

        def mkexc(retryable, tag):
            return socket.timeout(f'injected retryable {tag}') if retryable else FakeFault(tag)

        def on_event(kind, rec):
            R.log('s3_' + kind, op=rec['op'], key=rec['kwargs'].get('Key'), rng=rec['kwargs'].get('Range'),
                  outcome=rec.get('outcome'))
            if kind == 'begin':
                R.sched.yield_point('s3.begin')

        def s3_fault(rec, when):
            if when != 'before':
                return None
            if rec['op'] == 'HeadObject' and fault.get('kind') == 'head' \
                    and int(rec['kwargs']['Key'][1:]) == fault['download']:
                R.log('head_fault')
                return FakeFault('head')
            if rec['op'] == 'GetObject':
                cur['job'] = job_of(rec['kwargs'])     # get_script runs in the same atomic segment
            if rec['op'] == 'GetObject' and fault.get('kind') == 'get' and fault.get('where') == 'before':
                d, j = job_of(rec['kwargs'])
                if (d, j) == (fault['download'], fault['job']):
                    n = counts.get((d, j), 0)
                    counts[(d, j)] = n + 1
                    if n < fault['times']:
                        e = mkexc(fault['retryable'], 'get')
                        R.attempt_end(False, e)
                        return e
            return None

        def get_script(kwargs, att):
            if fault.get('kind') == 'get' and fault.get('where') == 'mid':
                d, j = cur['job']
                if (d, j) == (fault['download'], fault['job']) and att < fault['times']:
                    return {'fail_after': 1, 'exc': mkexc(fault['retryable'], 'mid'),
                            'on_read': lambda: R.sched.yield_point('body.read')}
            return {'on_read': lambda: R.sched.yield_point('body.read')}
        client.on_event = on_event
        client.fault = s3_fault
        client.get_script = get_script

        class Factory:
            def create_client(self_):
                return client

        from s3transfer.utils import OSUtils

        class LogOSUtils(OSUtils):
            _in_alloc = False

            def get_temp_filename(self_, filename):
                return filename + os.extsep + 'TEMP'

            def open(self_, filename, mode):
                if self_._in_alloc == 'mid':
                    open(filename, mode).close()
                    raise OSError('injected alloc fault after the file was created')
                return OSUtils.open(self_, filename, mode)

            def allocate(self_, filename, size):
                R.sched.yield_point('fs.allocate')
                d = int(os.path.basename(filename)[4:].split('.')[0])
                hit = fault.get('kind') == 'alloc' and fault['download'] == d
                if hit and fault['where'] == 'pre':
                    R.log('fs', op='allocate', path=os.path.basename(filename), ok=False)
                    raise OSError('injected alloc fault')
                self_._in_alloc = 'mid' if hit else True
                try:
                    OSUtils.allocate(self_, filename, size)
                except OSError:
                    R.log('fs', op='allocate', path=os.path.basename(filename), ok=False)
                    raise
                finally:
                    self_._in_alloc = False
                R.log('fs', op='allocate', path=os.path.basename(filename), ok=True)

            def rename_file(self_, cur, new):
                R.sched.yield_point('fs.rename')
                d = int(os.path.basename(new)[4:])
                if fault.get('kind') == 'rename' and fault['download'] == d:
                    R.log('fs', op='rename', path=os.path.basename(cur), ok=False)
                    raise OSError('injected rename fault')
                OSUtils.rename_file(self_, cur, new)
                R.log('fs', op='rename', path=os.path.basename(cur), ok=True)

            def remove_file(self_, filename):
                if self_._in_alloc:
                    return OSUtils.remove_file(self_, filename)
                R.sched.yield_point('fs.remove')
                OSUtils.remove_file(self_, filename)
                R.log('fs', op='remove', path=os.path.basename(filename), ok=True)

        osutil = LogOSUtils()
        self.real_monitor = m.TransferMonitor()
        # the id allocation and its log record stay in one atomic segment (every
        # monitor call is preceded by a yield point of the facade anyway)
        getattr(self.real_monitor, names.find_attr(self.real_monitor, names.lock_like, '_init_lock')).post_yield = False
        self.monitor = LoggingMonitor(self, self.real_monitor)
        config = m.ProcessTransferConfig(multipart_threshold=(2 if case.get('low_threshold') else THRESHOLD), multipart_chunksize=CHUNK,
                                         max_request_processes=case['workers'])
        factory = Factory()

        # ---- The downloader is built by its PUBLIC constructor and started by its own start-up
        # code; nothing of it is set by (private) name.  What would fork or talk to the OS is
        # replaced at module level for the run: multiprocessing.Queue -> FIFO shim queues (the
        # first one created is the request queue, the second the job queue, as in __init__),
        # OSUtils -> the fault-injecting one, ClientFactory -> the fake S3, the manager that
        # serves the TransferMonitor -> a stand-in handing out the logging facade of the REAL
        # monitor, signal -> a no-op, Process.start/join -> a cooperative thread running the
        # process's own run() and a join on it.
        queues = []

        def new_queue(maxsize=0):
            q = ShimQueue(R, ['reqq', 'jobq'][len(queues)] if len(queues) < 2 else f'q{len(queues)}')
            queues.append(q)
            return q

        class MP:
            Queue = staticmethod(new_queue)

            def __getattr__(self_, name):
                return getattr(self.mp_real, name)

        class Manager:
            def start(self_, initializer=None, initargs=()):
                pass

            def TransferMonitor(self_):
                return R.monitor

            def shutdown(self_):
                R.log('manager_shutdown')

        class Signal:
            SIGINT, SIG_IGN = 2, 1

            @staticmethod
            def signal(signum, handler):
                return None
        handles = {}
        counter = {'w': 0}

        def proc_start(proc):
            if isinstance(proc, m.GetObjectSubmitter):
                name = 'submitter'
            else:
                name = f'worker{counter["w"]}'
                counter['w'] += 1
            t = R.sched.spawn(proc.run, name, role='process')
            handles[id(proc)] = JoinHandle(R.sched, t, name)

        def proc_join(proc, timeout=None):
            h = handles.get(id(proc))
            if h is not None:
                h.join()
        self.mp_real = m.multiprocessing
        self.module_patches = []

        def patch(obj, name, new):
            self.module_patches.append((obj, name, obj.__dict__.get(name, _MISSING)))
            setattr(obj, name, new)
        patch(m, 'multiprocessing', MP())
        patch(m, 'OSUtils', lambda: osutil)
        patch(m, 'ClientFactory', lambda client_kwargs=None: factory)
        patch(m, 'TransferMonitorManager', Manager)
        patch(m, 'signal', Signal)
        patch(m.BaseS3TransferProcess, 'start', proc_start)
        patch(m.BaseS3TransferProcess, 'join', proc_join)
        dl = m.ProcessPoolDownloader(config=config)
        if len(queues) >= 2:
            self.reqq, self.jobq = queues[0], queues[1]
        else:
            raise common.BuildBroken('ProcessPoolDownloader() no longer creates its two queues with multiprocessing.Queue: '
                                     'the in-process replay of the pool no longer applies', '')
        self.downloader = dl
        self.futures = {}
        self.results = {}
        self.user_exc = None

    def user(self):
        case = self.case
        intr = case.get('interrupt') or {}
        try:
            with self.downloader as dl:
                for d, nj in enumerate(case['jobs']):
                    size = None if d in case.get('head', []) else len(self.objects[d])
                    self.futures[d] = dl.download_file('b', f'k{d}', self.dests[d], expected_size=size)
                    self.log('user_submitted', d=d, t=self.futures[d].meta.transfer_id)
                    if intr.get('how') == 'after_submit' and intr.get('n') == d:
                        self.log('user_interrupt')
                        self.interrupt_raised = True
                        raise InjectedInterrupt()
                if intr.get('how') == 'at_step':
                    me = self.sched.me()

                    def others_idle():
                        return all(t.finished or (t.wait_cond is not None and not t.wait_cond())
                                   for t in self.sched.threads if t is not me)
                    self.sched.block_until(lambda: self.sched.step >= intr['step'] or others_idle(),
                                           'interrupt point')
                    self.log('user_interrupt')
                    self.interrupt_raised = True
                    raise InjectedInterrupt()
                for d, f in sorted(self.futures.items()):
                    try:
                        f.result()
                        self.results[d] = 'ok'
                    except Exception as e:      # noqa
                        self.results[d] = type(e).__name__
        except KeyboardInterrupt:
            self.log('user_saw_interrupt')
        self.log('user_done')

    def canceller(self):
        c = self.case['cancel']
        self.sched.block_until(lambda: self.sched.step >= c['step'] and c['download'] in self.futures,
                               'cancel point')
        self.log('inject_cancel', d=c['download'])
        self.futures[c['download']].cancel()

    # -- sampling ----------------------------------------------------------------
    def exists(self, p):
        return os.path.exists(p)

    def read(self, p):
        try:
            with open(p, 'rb') as f:
                return f.read()
        except OSError:
            return None

    def sample(self, sched):
        """After every scheduler step: C19 at the moment done becomes true."""
        for t, st in states_of(self.real_monitor).items():
            if st.done and t not in self.done_seen:
                self.done_seen[t] = sched.step
                self.check_done(t, 'at-done')
        # the public view: future.done() (evaluated on a twin future bound to the real monitor, so that
        # the observation is not a scheduling point) must not run ahead of the protocol
        for d, f in list(self.futures.items()):
            t = f.meta.transfer_id
            tw = self.twins.get(d)
            if tw is None:
                try:
                    tw = self.twins[d] = type(f)(monitor=self.real_monitor, meta=f.meta)
                except Exception:
                    self.twins[d] = tw = False
            if tw and t not in self.future_done_seen:
                try:
                    fd = bool(tw.done())
                except Exception:
                    fd = False
                if fd:
                    self.future_done_seen[t] = sched.step
                    if t not in self.done_seen:
                        # done() says True although the monitor has not marked the transfer done:
                        # judge the directory and the job accounting at this very moment
                        self.check_done(t, 'future.done()-true')

    def dl_of(self, t):
        for d, f in self.futures.items():
            if f.meta.transfer_id == t:
                return d
        # the future object may not exist yet: transfer ids are handed out in order
        return t

    def check_done(self, t, when):
        m = pp()
        d = self.dl_of(t)
        st = states_of(self.real_monitor)[t]
        exc = st.exception
        announced = None
        completes = enq = deq = 0
        for r in self.trace:
            if r['ev'] == 'mon' and r['args'] and r['args'][0] == t:
                if r['m'] == 'notify_expected_jobs_to_complete':
                    announced = r['args'][1]
                elif r['m'] == 'notify_job_complete':
                    completes += 1
            elif r['ev'] in ('put', 'get') and r['q'] == 'jobq' and \
                    getattr(r['item'], 'transfer_id', None) == t:
                if r['ev'] == 'put':
                    enq += 1
                else:
                    deq += 1
        if announced is None:
            if enq or exc is None:
                self.problems.append(('accounting', f'{when}: transfer {t} done without an announced job count: '
                                      f'{enq} jobs enqueued, exception {exc!r}'))
        elif not (announced >= 1 and enq == announced and deq == announced and completes == announced):
            self.problems.append(('accounting', f'{when}: transfer {t} done with {completes} of {announced} jobs '
                                  f'counted down ({enq} enqueued, {deq} dequeued)'))
        temp = self.dests[d] + os.extsep + 'TEMP'
        data = self.read(self.dests[d])
        if self.exists(temp):
            self.problems.append(('temp-left', f'{when}: transfer {t} done but the temporary file exists '
                                  f'(exception {exc!r})'))
        if exc is None:
            if data != self.objects[d]:
                self.problems.append(('dest-incomplete', f'{when}: transfer {t} done without exception but the '
                                      f'destination holds {data!r}, object is {self.objects[d]!r}'))
        else:
            untouched = data == self.old.get(d)      # None == None when there was no file
            raced = data == self.objects[d] and isinstance(exc, m.CancelledError)
            if not (untouched or raced):
                self.problems.append(('dest-touched', f'{when}: transfer {t} done with {type(exc).__name__} but '
                                      f'the destination holds {data!r}'))

    # -- run ----------------------------------------------------------------------
    def go(self):
        m = pp()
        self.setup()
        try:
            self.sched.spawn(self.user, 'user', role='user')
            if self.case.get('cancel'):
                t = self.sched.spawn(self.canceller, 'canceller', role='user')
                t.urgent = True
            self.sched.on_step = self.sample
            try:
                self.sched.run()
            except core.Deadlock as d:
                self.deadlock = str(d)
            except core.Livelock as l:
                self.livelock = str(l)
            self.steps = self.sched.step
            self.choices = list(self.sched.choices)
            self.final_dest = {d: self.read(p) for d, p in self.dests.items()}
            self.final_checks()
        finally:
            for obj, name, old in reversed(getattr(self, 'module_patches', [])):
                if old is _MISSING:
                    try:
                        delattr(obj, name)
                    except AttributeError:
                        pass
                else:
                    setattr(obj, name, old)
            m.threading = self.saved[0]
            if self.saved[1] is None:
                del m.__dict__['open']
            else:
                m.open = self.saved[1]
            shutil.rmtree(self.tmpdir, ignore_errors=True)
        return self

    def final_checks(self):
        m = pp()
        states = states_of(self.real_monitor)
        if self.deadlock:
            # a canceller whose cancel point never came is not part of the pool
            stuck = [x.split(' blocked on ')[0] for x in self.deadlock.split('; ')]
            if [x for x in stuck if x != 'canceller']:
                self.problems.append(('deadlock', 'deadlock: ' + self.deadlock))
        if self.livelock:
            self.problems.append(('livelock', 'livelock: ' + self.livelock))
        for t in self.sched.threads:
            if t.exc is not None:
                self.problems.append(('crash', f'{t.name} died with {type(t.exc).__name__}: {t.exc}'))
        submitted = []
        zero_at = {}
        shutdown_at = None
        undone_at_interrupt = None
        announced_seen = set()
        for i, r in enumerate(self.trace):
            if r['ev'] == 'put' and r['q'] == 'reqq' and r['item'] != m.SHUTDOWN_SIGNAL:
                submitted.append(r['item'].transfer_id)
            elif r['ev'] == 'mon' and r['m'] == 'notify_expected_jobs_to_complete':
                announced_seen.add(r['args'][0])
            elif r['ev'] == 'put' and r['q'] == 'jobq' and r['item'] != m.SHUTDOWN_SIGNAL:
                if r['item'].transfer_id not in announced_seen:
                    self.problems.append(('enqueue-before-count', f'job of transfer {r["item"].transfer_id} '
                                          'enqueued before its job count was announced'))
            elif r['ev'] == 'mon' and r['m'] == 'notify_job_complete' and r['r'] == 0:
                zero_at.setdefault(r['args'][0], []).append(r['thread'])
            elif r['ev'] == 'manager_shutdown':
                shutdown_at = r['step']
            if r['ev'] == 'put' and r.get('uncancelled'):
                self.problems.append(('interrupt-not-cancelled', f'Ctrl-C in the with-block: shutdown starts while '
                                      f'transfers {r["uncancelled"]} are neither done nor cancelled'))
            elif r['ev'] == 'mon' and r['m'] == 'notify_cancel_all_in_progress':
                undone_at_interrupt = r['undone']
        for t, ws in zero_at.items():
            if len(ws) > 1:
                self.problems.append(('two-finalisers', f'transfer {t}: notify_job_complete returned 0 to {ws}'))
        if shutdown_at is not None:
            for t in submitted:
                if t not in self.done_seen or self.done_seen[t] > shutdown_at:
                    self.problems.append(('shutdown-early', f'shutdown returned at step {shutdown_at} but submitted '
                                          f'transfer {t} was not done'))
        elif not self.deadlock and not self.livelock:
            self.problems.append(('no-shutdown', 'the with-block ended without the pool being shut down'))
        if undone_at_interrupt is not None:
            for t in undone_at_interrupt:
                if states[t].exception is None:
                    self.problems.append(('interrupt-not-cancelled', f'transfer {t} was not done at Ctrl-C and has '
                                          'no exception afterwards'))
        if not self.deadlock and not self.livelock:
            for t in self.done_seen:
                self.check_done(t, 'at-end')
            left = [f for f in os.listdir(self.tmpdir) if f.endswith('TEMP')
                    and int(f[4:].split('.')[0]) in [self.dl_of(t) for t in submitted]]
            if left and shutdown_at is not None:
                self.problems.append(('temp-left', f'temporary files left after shutdown: {sorted(left)}'))
        # dedupe
        seen, out = set(), []
        for p in self.problems:
            if p not in seen:
                seen.add(p)
                out.append(p)
        self.problems = out

    # -- translation to the model's alphabet ----------------------------------------
    def model_line(self):
        m = pp()
        ev = []
        wstate = {}           # worker -> 'idle' | 'got' | 'run' | 'fin' | 'renfail'
        sub = {'sized': False}
        sent_workers = False

        def b(x):
            return '1' if x else '0'
        for r in self.trace:
            th, k = r['thread'], r['ev']
            w = int(th[6:]) if th.startswith('worker') else None
            if k == 'mon':
                name, args = r['m'], r['args']
                if name == 'notify_new_transfer':
                    ev.append(f'un:{r["r"]}')
                elif name == 'notify_cancel_all_in_progress':
                    ev.append('ui')
                elif name == 'poll_for_result':
                    ev.append(f'ur:{args[0]}:{b("raised" in r)}')
                elif name == 'notify_exception':
                    if w is not None:
                        ev.append(f'w:{w}:rx' if wstate.get(w) == 'renfail' else f'w:{w}:x')
                    elif th == 'submitter':
                        ev.append('sx')
                    else:
                        ev.append(f'uc:{args[0]}')
                elif name == 'notify_done':
                    ev.append(f'w:{w}:dn' if w is not None else 'sd')
                elif name == 'notify_expected_jobs_to_complete':
                    ev.append(f'sn:{args[1]}')
                elif name == 'get_exception' and w is not None:
                    if wstate.get(w) == 'fin':
                        ev.append(f'w:{w}:f:{b(r["r"])}')
                    else:
                        ev.append(f'w:{w}:c:{b(r["r"])}')
                elif name == 'notify_job_complete':
                    ev.append(f'w:{w}:d:{hx(r["r"])}')
                    wstate[w] = 'fin' if not r['r'] else 'idle'
            elif k == 'put':
                item = r['item']
                if r['q'] == 'reqq':
                    ev.append('us' if item == m.SHUTDOWN_SIGNAL else f'up:{item.transfer_id}')
                elif item == m.SHUTDOWN_SIGNAL:
                    if not sent_workers:
                        ev.append('uw')
                        sent_workers = True
                else:
                    ev.append(f'se:{item.transfer_id}:{item.offset // CHUNK}')
            elif k == 'get':
                item = r['item']
                if r['q'] == 'reqq':
                    ev.append('sg:-' if item == m.SHUTDOWN_SIGNAL else f'sg:{item.transfer_id}')
                    sub['sized'] = False
                elif item == m.SHUTDOWN_SIGNAL:
                    ev.append(f'w:{w}:g:-')
                else:
                    ev.append(f'w:{w}:g:{item.transfer_id}:{item.offset // CHUNK}')
                    wstate[w] = 'got'
            elif k == 's3_end' and r['op'] == 'HeadObject' and r['outcome'] == 'ok':
                ev.append('ss:1')
                sub['sized'] = True
            elif k == 'head_fault':
                ev.append('ss:0')
                sub['sized'] = True
            elif k == 'fs':
                if r['op'] == 'allocate':
                    if not sub['sized']:
                        ev.append('ss:1')       # expected_size was given: _get_size is a local read
                    ev.append(f'sa:{b(r["ok"])}')
                elif r['op'] == 'rename':
                    ev.append(f'w:{w}:rn:{b(r["ok"])}')
                    if not r['ok']:
                        wstate[w] = 'renfail'
                elif r['op'] == 'remove':
                    ev.append(f'w:{w}:rr' if wstate.get(w) == 'renfail' else f'w:{w}:rm')
            elif k == 'attempt_end':
                ev.append(f'w:{w}:a:' + ('ok' if r['ok'] else ('re' if r['retryable'] else 'fa')))
            elif k == 'manager_shutdown':
                ev.append('ux')
        return f'{self.case["workers"]} ' + ' '.join(ev)

    def outcome(self):
        """coarse outcome of the first transfer, for the coverage histogram"""
        m = pp()
        st = states_of(self.real_monitor).get(0)
        if st is None:
            return 'not-created'
        if not st.done:
            return 'never-done' if st.exception is None else 'cancelled-unsubmitted'
        if st.exception is None:
            return 'success'
        if isinstance(st.exception, m.CancelledError) and self.final_dest.get(0) == self.objects.get(0):
            return 'cancel-after-check:file-in-place'
        return 'failed:' + type(st.exception).__name__

    def impl_observables(self):
        """The final state in the syntax of the model driver's answer."""
        m = pp()
        out = []
        zero = {}
        comp = {}
        for r in self.trace:
            if r['ev'] == 'mon' and r['m'] == 'notify_job_complete':
                comp[r['args'][0]] = comp.get(r['args'][0], 0) + 1
                if r['r'] == 0:
                    zero[r['args'][0]] = zero.get(r['args'][0], 0) + 1
        for t, st in sorted(states_of(self.real_monitor).items()):
            e = st.exception
            if e is None:
                kind = '-'
            elif isinstance(e, m.CancelledError):
                kind = 'cancel'
            elif isinstance(e, OSError) and 'rename' in str(e):
                kind = 'rename'
            elif (isinstance(e, OSError) and 'alloc' in str(e)) or 'head' in str(e):
                kind = 'submit'
            else:
                kind = 'job'
            d = self.dl_of(t)
            out.append((kind, st.done, st.jobs_to_complete, comp.get(t, 0), zero.get(t, 0), d))
        return out


def compare_final(run, model_answer):
    """impl final state vs the model's answer 'ok e,d,j,temp,dest,w..,nc,nf;... phase'."""
    parts = model_answer.split(' ')
    if parts[0] != 'ok':
        return None
    trs = parts[1].split(';') if parts[1] else []
    impl = run.impl_observables()
    if len(trs) != len(impl):
        return f'{len(impl)} transfers in the monitor, {len(trs)} in the model'
    for t, (mt, it) in enumerate(zip(trs, impl)):
        e, dn, j, temp, dest, wbits, nc, nf = mt.split(',')
        kind, done, jtc, comp, zero, d = it
        mine = (kind, '1' if done else '0', hx(jtc), str(comp), str(zero))
        if (e, dn, j, nc, nf) != mine:
            return f'transfer {t}: model (exc,done,jtc,counted,zero)={(e, dn, j, nc, nf)} impl={mine}'
    return None


# ---------------------------------------------------------------- cases

def fault_list(jobs):
    """every single job fault, allocate fault, rename fault, head fault"""
    out = [None]
    for d, nj in enumerate(jobs):
        for j in range(nj):
            out.append({'kind': 'get', 'download': d, 'job': j, 'where': 'before', 'retryable': False, 'times': 1})
            out.append({'kind': 'get', 'download': d, 'job': j, 'where': 'mid', 'retryable': False, 'times': 1})
            out.append({'kind': 'get', 'download': d, 'job': j, 'where': 'mid', 'retryable': True, 'times': 1})
            out.append({'kind': 'get', 'download': d, 'job': j, 'where': 'before', 'retryable': True, 'times': 2})
            out.append({'kind': 'get', 'download': d, 'job': j, 'where': 'mid', 'retryable': True, 'times': 99})
        out.append({'kind': 'alloc', 'download': d, 'where': 'pre'})
        out.append({'kind': 'alloc', 'download': d, 'where': 'mid'})
        out.append({'kind': 'rename', 'download': d})
        out.append({'kind': 'head', 'download': d})
    return out


def mk_case(workers, jobs, fault=None, cancel=None, interrupt=None, pre_dest=False):
    case = {'workers': workers, 'jobs': list(jobs), 'pre_dest': pre_dest}
    if fault:
        case['fault'] = fault
        if fault['kind'] == 'head':
            case['head'] = [fault['download']]
    if cancel:
        case['cancel'] = cancel
    if interrupt:
        case['interrupt'] = interrupt
    return case


def mk_chooser(spec):
    if spec['type'] == 'random':
        return core.RandomChooser(spec['seed'], spec.get('stick', 0.0))
    if spec['type'] == 'pct':
        return core.PCTChooser(spec['seed'], depth=spec.get('depth', 3), horizon=spec.get('horizon', 250))
    if spec['type'] == 'replay':
        return StepReplay(spec['choices'])
    return core.FirstChooser()


class StepReplay:
    """Replays a recorded Sched.choices list.  The list has one entry per
    scheduler step, also for the steps taken by an urgent thread (where the
    chooser is not consulted): entries are addressed by step number."""

    def __init__(self, choices):
        self.choices = list(choices)

    def choose(self, sched, runnable):
        i = len(sched.choices)
        if i < len(self.choices):
            return min(self.choices[i], len(runnable) - 1)
        return 0


class Recording:
    """Wraps a chooser: records how many threads were runnable at every step."""

    def __init__(self, inner, out):
        self.inner, self.out = inner, out

    def choose(self, sched, runnable):
        while len(self.out) < len(sched.choices):
            self.out.append(1)              # a step taken by an urgent thread
        self.out.append(len(runnable))
        return self.inner.choose(sched, runnable)


def execute(case, chooser_spec):
    branching = []
    run = Run(case, Recording(mk_chooser(chooser_spec), branching))
    run.go()
    run.branching = branching
    return run


def case_sig(case):
    f = case.get('fault')
    fs = '-' if not f else ':'.join(str(f[k]) for k in sorted(f))
    c = case.get('cancel')
    i = case.get('interrupt')
    return (f'w{case["workers"]}/j{"+".join(map(str, case["jobs"]))}{"/lowthr" if case.get("low_threshold") else ""}/f={fs}/'
            f'c={"-" if not c else c["download"]}/i={"-" if not i else i["how"]}')


class Batch:
    """Runs cases, collects model lines, validates them in one driver call."""

    def __init__(self, ctx):
        self.ctx = ctx
        self.items = []         # (case, choices, line, run-summary)
        self.failed = []
        self.corr = 0           # correspondence mismatches seen / reported
        self.searched = False

    def run(self, case, spec, tag):
        ctx = self.ctx
        run = execute(case, spec)
        line = run.model_line()
        summary = {'problems': run.problems, 'impl': run.impl_observables(), 'steps': run.steps}
        self.items.append((case, run.choices, line, run, tag))
        nontrivial = run.steps > 0
        ctx.count('pool-sched', 1,
                  nontrivial_key=(case_sig(case), tuple(run.choices)) if nontrivial else None,
                  workers=case['workers'], downloads=len(case['jobs']),
                  fault=(case.get('fault') or {}).get('kind', 'none'),
                  user=('cancel' if case.get('cancel') else 'interrupt' if case.get('interrupt') else 'plain'),
                  chooser=tag, outcome=run.outcome())
        for kind, text in run.problems:
            self.report_problem(case, run, kind, text)
        return run

    def report_problem(self, case, run, kind, text):
        sig = f'oracle:{kind}:{case_sig(case)}'
        self.ctx.report(sig, text + f'  [{case_sig(case)}, {len(run.choices)} scheduling choices]',
                        {'kind': 'schedule', 'component': 'processpool',
                         'case': {'scenario': case, 'chooser': {'type': 'replay', 'choices': run.choices}},
                         'oracle': kind})

    def validate(self):
        ctx = self.ctx
        if not self.items or ctx.broken is not None:
            return
        lines = [it[2] for it in self.items]
        try:
            answers = common.run_model('pool', lines)
        except common.BuildBroken as b:
            ctx.broken = b
            return
        nv = 0
        for (case, choices, line, run, tag), ans in zip(self.items, answers):
            nv += 1
            bad = None
            if not ans.startswith('ok '):
                toks = line.split(' ')[1:]
                idx = int(ans.split(' ')[1]) if ans.startswith('rej ') else -1
                evt = toks[idx] if 0 <= idx < len(toks) else '?'
                bad = f'the model rejects event #{idx} ({evt}) of the implementation trace: {ans}'
            else:
                bad = compare_final(run, ans)
            if bad and not run.problems:
                # the oracle holds on this run: is the property violated nearby?
                self.corr += 1
                ctx.cov['correspondence_mismatches'] = self.corr
                if not self.searched:
                    self.searched = True
                    self.focus_search(case)
                if self.corr > 2:
                    continue        # keep room for concrete failing schedules
                ctx.report(f'corr:pool:{case_sig(case)}',
                           f'implementation trace is not a model trace although C19 holds on it: {bad}',
                           {'kind': 'correspondence', 'theorem_or_correspondence': 'trace inclusion processpool <= Pool.step',
                            'case': {'scenario': case, 'chooser': {'type': 'replay', 'choices': choices}},
                            'model_line': line, 'model_answer': ans}, no_input=True)
            if len(ctx.cov['samples']) < 3 and tag in ('random', 'pct') and len(line) < 1500:
                ctx.sample({'component': 'pool-trace', 'scenario': case, 'model_trace': line, 'model_answer': ans})
        ctx.cov['traces_validated_against_impl'] = ctx.cov.get('traces_validated_against_impl', 0) + nv
        self.items = []


def _focus_search(self, case):
    """A trace left the model although the oracle held on it: run the oracle on
    neighbouring scenarios with more workers / jobs under random schedules."""
    ctx = self.ctx
    rng = ctx.rng('focus')
    fault = case.get('fault')
    for n in range(240):
        if len(ctx.violations) >= 4:
            return
        workers = 2 + n % 2
        jobs = [[2], [3], [4], [2, 2]][n % 4]
        f = fault if (fault and n % 2 and fault.get('download', 0) < len(jobs)
                      and fault.get('job', 0) < jobs[fault.get('download', 0)]) else None
        c = mk_case(workers, jobs, f, cancel=case.get('cancel') if n % 5 == 4 else None,
                    interrupt=case.get('interrupt') if n % 5 == 3 else None)
        r = execute(c, {'type': 'random' if n % 3 else 'pct', 'seed': rng.randrange(1 << 30), 'stick': 0.3})
        ctx.count('pool-focus', 1, nontrivial_key=(case_sig(c), tuple(r.choices)))
        for kind, text in r.problems:
            self.report_problem(c, r, kind, text)


Batch.focus_search = _focus_search


def generate(ctx, batch, shapes=None, parts=(1, 2, 3), n_random=None, bases=None):
    """random + PCT schedules over the scenario space; every single fault; a
    cancelling / interrupting user at every yield index of a base schedule.
    Fixed case counts (no time budget): the case set is a function of the seed.
    (shapes / parts / n_random / bases restrict it for the sub-checks other
    properties run on the process-pool front-end.)"""
    rng = ctx.rng('cases')
    if shapes is None:
        shapes = []
        for workers in (1, 2, 3):
            for jobs in ([1], [2], [3], [4], [1, 2], [2, 2], [3, 1], [2, 4]):
                shapes.append((workers, jobs))

    def over():
        return len(ctx.violations) >= 5 or ctx.broken is not None

    n = 0
    # 1. every single fault, on every shape, under random and PCT schedules
    reps = 4 if ctx.thorough() else 1
    for (workers, jobs) in (shapes if 1 in parts else ()):
        for fault in fault_list(jobs):
            for rep in range(reps):
                if over():
                    return
                n += 1
                kind = 'pct' if (n % 3 == 0) else 'random'
                spec = {'type': kind, 'seed': rng.randrange(1 << 30), 'stick': rng.choice([0.0, 0.5, 0.8])}
                batch.run(mk_case(workers, jobs, fault, pre_dest=(n % 4 == 0)), spec, kind)
        if 1 in jobs:
            # threshold below the chunk size: the 3-byte object is "ranged" with a single part
            c_ = mk_case(workers, jobs, None)
            c_['low_threshold'] = True
            batch.run(c_, {'type': 'random', 'seed': rng.randrange(1 << 30), 'stick': 0.5}, 'random')
        batch.validate()
    # 2. a cancelling user at every yield index; Ctrl-C at every (second) yield index
    job_mid = {'kind': 'get', 'download': 0, 'job': 0, 'where': 'mid', 'retryable': False, 'times': 1}
    ren = {'kind': 'rename', 'download': 0}
    own_bases = bases is not None
    if bases is None:
        bases = [(2, [2], None), (2, [2], job_mid), (2, [2], ren), (2, [2, 2], None), (1, [2], None), (3, [3], None)]
    if 2 not in parts:
        bases = []
    if ctx.thorough() and not own_bases and bases:
        bases += [(3, [2, 4], None), (2, [1], None), (3, [3], job_mid), (2, [2, 2], ren), (1, [4], None),
                  (2, [3, 1], {'kind': 'alloc', 'download': 1, 'where': 'mid'})]
    for (workers, jobs, fault) in bases:
        for rep in range(2 if ctx.thorough() else 1):
            spec = {'type': 'random', 'seed': rng.randrange(1 << 30), 'stick': 0.5}
            base = batch.run(mk_case(workers, jobs, fault), spec, 'random')
            for k in range(0, base.steps + 1):
                if over():
                    return
                batch.run(mk_case(workers, jobs, fault, cancel={'download': 0, 'step': k}), spec, 'cancel-sweep')
                if len(jobs) > 1 and (k % 2 == 1 or ctx.thorough()):
                    batch.run(mk_case(workers, jobs, fault, cancel={'download': 1, 'step': k}), spec, 'cancel-sweep')
                if k % 2 == 0 or ctx.thorough():
                    batch.run(mk_case(workers, jobs, fault, interrupt={'how': 'at_step', 'step': k}), spec,
                              'interrupt-sweep')
            for how in ({'how': 'after_submit', 'n': 0}, {'how': 'after_submit', 'n': len(jobs) - 1},
                        {'how': 'in_result'}):
                batch.run(mk_case(workers, jobs, fault, interrupt=how), spec, 'interrupt')
            batch.validate()
    # 3. more random / PCT schedules with random faults and users
    if n_random is None:
        n_random = 4000 if ctx.thorough() else 300
    for n in range(n_random if 3 in parts else 0):
        if over():
            return
        workers, jobs = rng.choice(shapes)
        fault = rng.choice(fault_list(jobs))
        cancel = interrupt = None
        u = rng.random()
        if u < 0.3:
            cancel = {'download': rng.randrange(len(jobs)), 'step': rng.randrange(0, 120)}
        elif u < 0.45:
            interrupt = rng.choice([{'how': 'at_step', 'step': rng.randrange(0, 120)}, {'how': 'in_result'},
                                    {'how': 'after_submit', 'n': rng.randrange(len(jobs))}])
        kind = rng.choice(['random', 'pct'])
        spec = {'type': kind, 'seed': rng.randrange(1 << 30), 'stick': rng.choice([0.0, 0.6]),
                'depth': rng.choice([2, 3, 5])}
        batch.run(mk_case(workers, jobs, fault, cancel, interrupt, pre_dest=rng.random() < 0.3), spec, kind)
        if n % 100 == 99:
            batch.validate()
    batch.validate()


def sweep(ctx, batch, case, bound, cap):
    """Exhaustive-ish: every schedule that deviates from run-to-block (the
    FirstChooser) at most `bound` times, by replayed choice prefixes."""
    import collections
    seen = set()
    frontier = collections.deque([([], 0)])     # breadth first: fewer deviations first
    runs = 0
    while frontier and runs < cap and len(ctx.violations) < 5:
        prefix, dev = frontier.popleft()
        key = tuple(prefix)
        if key in seen:
            continue
        seen.add(key)
        run = batch.run(case, {'type': 'replay', 'choices': prefix}, 'sweep')
        runs += 1
        if dev >= bound:
            continue
        for j in range(len(prefix), len(run.branching)):
            for c in range(1, run.branching[j]):
                frontier.append((run.choices[:j] + [c], dev + 1))
        if runs % 200 == 0:
            batch.validate()
    batch.validate()
    return runs, not frontier


def run(ctx):
    ok = common.proofs(ctx, 'C19', EXTRACT, COMPONENTS)
    ctx.assumptions = [
        'real processes, multiprocessing.Manager proxies, pickling of requests/jobs/exceptions and signal handling are NOT exercised: '
        'the protocol runs in one process, its actors as cooperative threads (the tie is trace validation of the protocol code, not of the transport)',
        'every TransferMonitor method is one atomic step, as it is under the cooperative scheduler (in production the manager serves '
        'each proxy connection in its own thread; only notify_cancel_all_in_progress spans several attribute operations)',
        'the two queues are unbounded FIFOs (the real ones hold 1000 items; put() blocking on a full queue is not modelled)',
        'multipart_threshold >= 1, hence every announced job count is >= 1 (C19_shutdown_waits_all_zero_jobs_refuted shows what happens otherwise); '
        'at least one worker; distinct destination file names; OSUtils.remove_file does not raise (it swallows OSError)',
        'one start/shutdown cycle of the pool; download_file is not called after shutdown began',
        'the extracted OCaml validator and its line driver are trusted for the correspondence only',
    ]
    ctx.cov['rule'] = (
        'a case = (workers 1-3, 1-2 downloads of 1-4 jobs, at most one fault [each job x (fatal before / fatal mid-body / retryable once / '
        'retryable twice / retryable until RetriesExceeded), allocate before/after file creation, rename, HeadObject], optional pre-existing '
        'destination, optional cancel() at scheduler step k or Ctrl-C (after a submit / at step k / inside result()), chooser); the real '
        'monitor, submitter, workers, downloader and future code run under the deterministic scheduler; the linearised log is replayed '
        'through the extracted Pool.step validator and the final states compared; the directory and monitor are sampled after every '
        'scheduler step. A case is distinct/non-trivial by (scenario signature, full list of scheduling choices).')
    batch = Batch(ctx)
    if ctx.broken is None:
        generate(ctx, batch)
    if ctx.broken is None:
        small = mk_case(2, [2])
        r, complete = sweep(ctx, batch, small, bound=3 if ctx.thorough() else 2,
                            cap=12000 if ctx.thorough() else 2500)
        ctx.cov['sweep'] = {'scenario': small, 'preemption_bound': 3 if ctx.thorough() else 2, 'runs': r,
                            'complete_within_bound': complete}
        if ctx.thorough():
            for c in (mk_case(2, [2], cancel={'download': 0, 'step': 40}),
                      mk_case(3, [3], {'kind': 'get', 'download': 0, 'job': 1, 'where': 'mid', 'retryable': False, 'times': 1}),
                      mk_case(2, [1, 2], {'kind': 'rename', 'download': 1})):
                r2, complete2 = sweep(ctx, batch, c, bound=2, cap=6000)
                ctx.cov.setdefault('more_sweeps', []).append(
                    {'scenario': c, 'preemption_bound': 2, 'runs': r2, 'complete_within_bound': complete2})
    if ctx.broken is None:
        single_start(ctx)
    if ctx.broken is not None:
        search_after_break(ctx)


def single_start(ctx):
    """The protocol model assumes ONE start of the pool.  Two user threads issue their first
    download_file() concurrently on a real (not yet started) ProcessPoolDownloader under the
    scheduler; the three methods that fork the manager / submitter / workers are replaced by
    counting stubs (nothing is forked).  Every schedule up to a budget: exactly one start."""
    from harness.sched import core
    m = pp()
    found = 0
    n_runs = 0
    prefixes = [[]]
    seen = set()
    rng = ctx.rng('single-start')
    budget = 400 if ctx.thorough() else 80
    n_random = 300 if ctx.thorough() else 70
    while (prefixes or n_random > 0) and not found:
        br = []
        if prefixes and n_runs < budget:
            prefix = prefixes.pop(0)
            if tuple(prefix) in seen:
                continue
            seen.add(tuple(prefix))
            chooser = core.ReplayChooser(prefix)
        elif n_random > 0:
            # beyond the deviation budget: sticky random schedules (a thread keeps running for a while)
            n_random -= 1
            prefixes = []
            prefix = None
            chooser = mk_chooser({'type': 'random', 'seed': rng.randrange(1 << 30), 'stick': rng.choice([0.5, 0.7, 0.85])})
        else:
            break
        sched = core.Sched(chooser=Recording(chooser, br), max_steps=4000)
        shim = core.Shim(sched, post_yield=True)
        saved_threading = m.threading
        m.threading = shim
        starts = {'manager': 0, 'submitter': 0, 'workers': 0}
        patches = []

        def patch(obj, name, new):
            patches.append((obj, name, obj.__dict__.get(name, _MISSING)))
            setattr(obj, name, new)
        try:
            class Q:
                def put(self_, item):
                    sched.yield_point('reqq.put')

            class MP:
                Queue = staticmethod(lambda maxsize=0: Q())

                def __getattr__(self_, name):
                    return getattr(real_mp, name)

            mon = m.TransferMonitor()       # the REAL monitor: it hands out the transfer ids

            class Manager:
                def start(self_, initializer=None, initargs=()):
                    starts['manager'] += 1
                    sched.yield_point('start.manager')

                def TransferMonitor(self_):
                    return mon

                def shutdown(self_):
                    pass

            def proc_start(proc):
                starts['submitter' if isinstance(proc, m.GetObjectSubmitter) else 'workers'] += 1
                sched.yield_point('start.process')
            real_mp = m.multiprocessing
            patch(m, 'multiprocessing', MP())
            patch(m, 'TransferMonitorManager', Manager)
            patch(m, 'ClientFactory', lambda client_kwargs=None: None)
            patch(m.BaseS3TransferProcess, 'start', proc_start)
            patch(m.BaseS3TransferProcess, 'join', lambda proc, timeout=None: None)
            dl = m.ProcessPoolDownloader(config=m.ProcessTransferConfig(max_request_processes=1))
            errs = []
            ids = []

            def user(k):
                try:
                    fut = dl.download_file('b', f'k{k}', f'/nonexistent/dst{k}', expected_size=1)
                    ids.append(fut.meta.transfer_id)
                except Exception as e:      # noqa
                    errs.append(repr(e))
            for k in range(2):
                sched.spawn((lambda k=k: user(k)), f'user{k}', role='user')
            try:
                sched.run()
            except (core.Deadlock, core.Livelock) as e:
                errs.append(repr(e))
        finally:
            for obj, name, old in reversed(patches):
                if old is _MISSING:
                    try:
                        delattr(obj, name)
                    except AttributeError:
                        pass
                else:
                    setattr(obj, name, old)
            m.threading = saved_threading
        n_runs += 1
        ctx.count('pool-single-start', 1, nontrivial_key=tuple(sched.choices))
        if len(set(ids)) != len(ids):
            found += 1
            ctx.report('oracle:duplicate-transfer-id', f'two concurrent download_file() calls were given the same transfer id {ids}: '
                       f'their downloads share one job counter and one done flag; schedule {list(sched.choices)}',
                       {'kind': 'schedule', 'component': 'processpool-start', 'case': {'single_start': True, 'choices': list(sched.choices)}})
        if max(starts.values()) > 1 or errs:
            found += 1
            ctx.report('oracle:double-start', f'two concurrent first download_file() calls started the pool {starts} times '
                       f'(manager / submitter / workers){"; errors " + str(errs) if errs else ""}; schedule {list(sched.choices)}',
                       {'kind': 'schedule', 'component': 'processpool-start', 'case': {'single_start': True, 'choices': list(sched.choices)}})
        # breadth-first over deviations from the default schedule
        for j in (range(len(prefix), min(len(br), 40)) if prefix is not None else ()):
            for c in range(1, br[j]):
                prefixes.append(list(sched.choices[:j]) + [c])


def sub_check(ctx, focus):
    """The process-pool front-end inside another property's check (C03: faults,
    C04: liveness under faults and cancels, C18: Ctrl-C / shutdown): the same real
    protocol code under the scheduler, the same trace validation against
    Pool.step and the same implementation-only oracle, on a smaller case set.
    The caller lists props/C19.v among its theorem files."""
    try:
        with common.Lock():
            common.build_locked('C19', EXTRACT, COMPONENTS)
    except common.BuildBroken as b:
        if ctx.broken is None:
            ctx.broken = b
        return
    batch = Batch(ctx)
    small = [(2, [2]), (1, [3]), (3, [1, 2]), (2, [2, 2])]
    job_mid = {'kind': 'get', 'download': 0, 'job': 0, 'where': 'mid', 'retryable': False, 'times': 1}
    if focus == 'faults':
        generate(ctx, batch, shapes=small, parts=(1, 3), n_random=120 if not ctx.thorough() else 1200)
    elif focus == 'liveness':
        generate(ctx, batch, shapes=small, parts=(1, 2, 3), n_random=120 if not ctx.thorough() else 1200,
                 bases=[(2, [2], None), (2, [2], job_mid)])
    elif focus == 'interrupt':
        generate(ctx, batch, shapes=small, parts=(2, 3), n_random=80 if not ctx.thorough() else 800,
                 bases=[(2, [2], None), (2, [2, 2], None), (2, [2], job_mid)])
    if len(ctx.violations) < 5:
        single_start(ctx)        # concurrent first downloads: one start of the pool, distinct transfer ids
    ctx.cov.setdefault('sub_checks', []).append({'front_end': 'process pool (C19 machinery)', 'focus': focus})


def search_after_break(ctx):
    """The proof, the build or the validator broke: search with the oracle alone."""
    import time
    t0 = time.time()
    rng = ctx.rng('break')
    found = False
    shapes = [(2, [2]), (1, [1]), (3, [3]), (2, [2, 2]), (2, [4])]
    n = 0
    while time.time() - t0 < 40 and not found:
        workers, jobs = shapes[n % len(shapes)]
        fault = rng.choice(fault_list(jobs))
        cancel = {'download': 0, 'step': rng.randrange(0, 100)} if n % 3 == 1 else None
        interrupt = {'how': 'at_step', 'step': rng.randrange(0, 100)} if n % 3 == 2 else None
        case = mk_case(workers, jobs, fault, cancel, interrupt)
        run = execute(case, {'type': 'random', 'seed': rng.randrange(1 << 30), 'stick': 0.5})
        n += 1
        ctx.count('pool-oracle-only', 1, nontrivial_key=(case_sig(case), tuple(run.choices)))
        for kind, text in run.problems:
            ctx.report(f'oracle:{kind}:{case_sig(case)}', text,
                       {'kind': 'schedule', 'component': 'processpool', 'broken': ctx.broken.what,
                        'case': {'scenario': case, 'chooser': {'type': 'replay', 'choices': run.choices}},
                        'oracle': kind})
            found = True
    if not found:
        ctx.report(f'broken:{ctx.broken.what}', ctx.broken.what,
                   {'kind': 'theorem', 'theorem_or_correspondence': ctx.broken.what, 'log': ctx.broken.log},
                   no_input=True)


def replay(ctx, data):
    case = data.get('case') or {}
    if isinstance(case, dict) and case.get('single_start'):
        n0 = len(ctx.violations)
        single_start(ctx)
        return len(ctx.violations) > n0
    if isinstance(case, dict) and 'scenario' in case:
        r = execute(case['scenario'], case.get('chooser') or {'type': 'first'})
        for kind, text in r.problems:
            print('oracle:', kind, text)
        want = data.get('oracle')
        if data.get('kind') == 'correspondence':
            ok = common.proofs(ctx, 'C19', EXTRACT, COMPONENTS)
            if not ok:
                return True
            ans = common.run_model('pool', [r.model_line()])[0]
            print('model:', ans)
            return (not ans.startswith('ok ')) or compare_final(r, ans) is not None or bool(r.problems)
        return any(k == want for k, _ in r.problems) if want else bool(r.problems)
    run(ctx)
    return bool(ctx.violations)
