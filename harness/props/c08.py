"""C08 -- subscriber callbacks: exactly once, in order, after the work."""
from harness.props import sysrun
from harness.sched import monitors as M

PROP_FILE = ['C08', 'C08Wait']


def mons():
    return [M.m_terminates, M.m_callbacks]


def specs(ctx):
    s = sysrun.specs_callbacks(ctx, sysrun.KINDS)
    two = [dict(k, subs=[dict(), dict()]) for k in sysrun.KINDS]
    s += sysrun.specs_faults(ctx, two[:: (1 if ctx.thorough() else 2)], seeds=1)
    pts = list(range(0, 120, 5 if ctx.thorough() else 12))
    s += sysrun.specs_cancel(ctx, two, ['future'], pts)
    s += sysrun.specs_early_cancel(ctx, two[::2], seeds=3 if not ctx.thorough() else 6)
    s += sysrun.specs_cancel(ctx, two[::3], ['shutdown', 'exit_exc'], pts[::2])
    # a stage's pool refuses a submit (no new worker thread can be started): one more fault position
    s += sysrun.specs_submit_fault(ctx, two[:: (1 if ctx.thorough() else 2)], seeds=2 if ctx.thorough() else 1)
    s += sysrun.specs_submit_fault_handoff(ctx, subs=[dict(), dict()])
    return s


def run(ctx):
    sysrun.run_specs(ctx, PROP_FILE, specs(ctx), mons(),
                     rule='recording subscribers (two per transfer; raising on_done; callbacks calling back into the future; size supplied '
                          'in on_queued) on every transfer type/mode in every outcome: success, each fault position, each cancellation point '
                          '(incl. cancel racing the submission thread: two announcers; a stage refusing a submit, with directed schedules for the '
                          'GetObject-to-IO hand-off racing the failing submission task); distinct = distinct event trace')
    # the waiting loop of a failed submission task against model/WaitLoop.v (evaluated inside Coq)
    from harness.props import c08wait
    if len(ctx.violations) < 5 and ctx.broken is None:
        c08wait.check(ctx)


def replay(ctx, data):
    if isinstance(data.get('case'), dict) and 'waitloop' in data['case']:
        from harness.props import c08wait
        return c08wait.replay(ctx, data)
    return sysrun.replay_spec(ctx, data, mons())
