"""C04 -- every transfer terminates: no deadlock, hang or lost wake-up."""
from harness.props import sysrun
from harness.sched import monitors as M

PROP_FILE = ['C04', 'C02Legacy', 'C19']


def mons():
    return [M.m_terminates, M.m_permits_restored]


def specs(ctx):
    rng = ctx.rng('c04')
    out = []
    n = 120 if not ctx.thorough() else 900
    # all small settings of the six limits (covering sample), mixed transfers, faults
    out += sysrun.specs_mixed(ctx, n, limits=(1, 1, 2, 3), with_victims=True, tag='c04mix')
    # 1-thread / 1-slot / 1-chunk everything
    one = dict(max_request_concurrency=1, max_submission_concurrency=1, max_request_queue_size=1,
               max_submission_queue_size=1, max_io_queue_size=1, max_in_memory_upload_chunks=1,
               max_in_memory_download_chunks=1)
    for i, ts in enumerate(sysrun.KINDS):
        out.append(dict(transfers=[ts, dict(ts)], cfg=one, chooser=sysrun.chooser(rng, i)))
        out.append(dict(transfers=[ts], cfg=one, chooser=sysrun.chooser(rng, i), cancel=dict(how='future', at=5 + 3 * i)))
    # callbacks calling back into their own future
    out += sysrun.specs_callbacks(ctx, sysrun.KINDS[:: (1 if ctx.thorough() else 2)])
    # cancel racing the submission thread with re-entrant callbacks
    for i, ts in enumerate(sysrun.KINDS):
        for at in (0, 1, 2, 3, 4, 6, 9):
            out.append(dict(transfers=[dict(ts, subs=[dict(on_done_script=['set_exception', 'cancel', 'result', 'done'])])],
                            cfg=sysrun.CFG_SMALL, chooser=sysrun.chooser(rng, i + at), cancel=dict(how='future', at=at)))
    out += sysrun.specs_cancel(ctx, sysrun.KINDS[::3], ['shutdown', 'exit_exc', 'exit_kbi', 'result_kbi', 'exit_wait_kbi'], [3, 25, 60])
    out += sysrun.specs_early_cancel(ctx, sysrun.KINDS[::3], seeds=1 if not ctx.thorough() else 4)
    return out


def run(ctx):
    sysrun.run_specs(ctx, PROP_FILE, specs(ctx), mons(),
                     rule='mixed concurrent transfers under all small settings of the six limits (incl. all-ones), single faults, '
                          'cancellation at many points from every entry point, callbacks that call back into their own future; '
                          'the scheduler reports any state with unfinished threads and none runnable (deadlock) or a step-budget '
                          'overrun (livelock); distinct = distinct event trace')


    # the other front-ends: the legacy downloader's IO thread / queue protocol (a call that does not
    # return is reported) and the process pool (every download becomes done under faults and cancels)
    from harness.props import legacy, c19
    if len(ctx.violations) < 5:
        legacy.check_c02(ctx)
    if len(ctx.violations) < 5:
        c19.sub_check(ctx, 'liveness')


def replay(ctx, data):
    return sysrun.replay_any(ctx, data, mons())
