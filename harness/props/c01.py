"""C01 -- upload and copy produce a byte-exact destination object.

Proof: coq/props/C01.v over coq/model/{UploadSrc,S3Spec}.v (+ Plan C14, Chunk C09).
Tie (every run):
 (a) differential of the three REAL upload input managers -- driven through the
     real UploadSubmissionTask._submit by a real TransferManager with
     NonThreadedExecutor and the reference FakeS3 -- against the extracted
     model: mode (single / multipart), effective chunk size, the part bodies
     (PartNumber, bytes) the service received, the amounts read from the user's
     stream, the Parts argument of CompleteMultipartUpload (ETag, PartNumber,
     checksum), the acceptance and the stored object; same for copies
     (CopySourceRange per part) and the legacy S3Transfer.upload_file;
 (b) client-level retries: FakeS3.body_script makes the "client" sign-read,
     send partially, rewind and resend every body r in 0..3 times at random cut
     points -- the differential must be unchanged;
 (c) scheduled multi-threaded runs of the real manager (cooperative scheduler,
     random / PCT choosers): the order in which the service applied the parts
     is read from the FakeS3 log and given to the model as the schedule; Parts
     (with the ETag association) and the stored object must agree;
 (d) legacy S3Transfer.upload_file against the model (1 and 3 workers).
Search oracle (implementation alone): the stored object equals the source; a
multipart upload is completed exactly once, accepted, with PartNumbers 1..n
ascending and the ETag (and checksum) the service returned for that very part;
the bodies concatenate to the source and none is empty; the first read of the user's
stream happens at its call-time position (classification must not move it);
multipart exactly when size >= threshold; no part but the last is shorter than the service's minimum
part size (the adjuster's lower limit).
"""
import hashlib
import io
import json
import os
import shutil
import tempfile

from harness import common
from harness.common import hx

EXTRACT = ['ExUploadSrc']
COMPONENTS = ['uploadsrc']
LEVEL = 'proof'


def sig(prefix, case):
    return prefix + ':' + hashlib.sha1(json.dumps(case, sort_keys=True, default=str).encode()).hexdigest()[:12]


def hexb(b):
    return b.hex() if b else '-'


def payload(n, salt=0):
    return bytes((i * 7 + salt * 13 + 1) % 251 for i in range(n))


# ===================================================================== recorders

def rec_s3_cls():
    from harness.fakes3 import FakeS3

    from harness.fakes3 import FakeFault

    class RecS3(FakeS3):
        """FakeS3 that also keeps the bytes every body delivered and, like S3Spec.s3_complete,
        refuses a complete whose parts (but the last) are below `min_part` bytes."""
        min_part = 1

        def _consume_body(self, op_name, body, kwargs, rec):
            data = super()._consume_body(op_name, body, kwargs, rec)
            rec['body'] = data
            return data

        def complete_multipart_upload(self, Bucket, Key, UploadId, MultipartUpload, **kw):
            up = self.uploads.get(UploadId)
            parts = MultipartUpload['Parts']
            if up is not None and self.min_part > 1:
                sizes = [len(up['parts'][p['PartNumber']][1]) for p in parts if p.get('PartNumber') in up['parts']]
                if any(n < self.min_part for n in sizes[:-1]):
                    rec = self._begin('CompleteMultipartUpload', dict(Bucket=Bucket, Key=Key, UploadId=UploadId,
                                                                       MultipartUpload=MultipartUpload, **kw))
                    with self._lock:
                        rec['state_at_effect'] = up['state']
                        up['completes'] += 1
                    self._end(rec, 'rejected')
                    raise FakeFault('EntityTooSmall: a part but the last is below the minimum part size')
            return super().complete_multipart_upload(Bucket, Key, UploadId, MultipartUpload, **kw)
    return RecS3


class RecBytesIO(io.BytesIO):
    """The user's seekable stream: logs what is asked of it.  With `sizes` it returns
    scripted short reads like NonSeekableReader."""

    def __init__(self, data, sizes=None):
        super().__init__(data)
        self.ops = []
        self.sizes = list(sizes or [])
        self.first_read_pos = None

    def read(self, n=-1):
        if self.first_read_pos is None:
            self.first_read_pos = super().tell()
        self.ops.append(('read', -1 if n is None or n < 0 else n))
        if n is not None and n >= 0 and self.sizes:
            n = min(n, max(1, self.sizes.pop(0)))
        return super().read(n)

    def seek(self, w, wh=0):
        self.ops.append(('seek', w, wh))
        return super().seek(w, wh)

    def tell(self):
        self.ops.append(('tell',))
        return super().tell()


class DuckBase:
    """A duck-typed user stream: NO seekable()/readable() methods, so s3transfer classifies it
    with its compat probes (hasattr read; seek(0, 1) for seekability).  Scripted short reads."""

    def __init__(self, data, pos=0, sizes=None):
        self._b = io.BytesIO(data)
        self._b.seek(pos)
        self.ops = []
        self.sizes = list(sizes or [])
        self.first_read_pos = None

    def read(self, n=-1):
        if self.first_read_pos is None:
            self.first_read_pos = self._b.tell()
        self.ops.append(('read', -1 if n is None or n < 0 else n))
        if n is None or n < 0:
            return self._b.read()
        if self.sizes:
            n = min(n, max(1, self.sizes.pop(0)))
        return self._b.read(n)

    def close(self):
        pass


class DuckSeekable(DuckBase):
    """read / seek / tell only."""

    def seek(self, w, wh=0):
        self.ops.append(('seek', w, wh))
        return self._b.seek(w, wh)

    def tell(self):
        self.ops.append(('tell',))
        return self._b.tell()


class DuckSeekRaises(DuckBase):
    """Readable; has seek and tell but seeking is an I/O error (a pipe-like object)."""

    def seek(self, w, wh=0):
        self.ops.append(('seek', w, wh))
        raise OSError('illegal seek')

    def tell(self):
        self.ops.append(('tell',))
        return self._b.tell()


class DuckBare(DuckBase):
    """read() only."""


def rec_reader(data, read_sizes):
    from harness.fakes3 import NonSeekableReader

    class RecReader(NonSeekableReader):
        def __init__(self, d, sizes):
            super().__init__(d, sizes)
            self.ops = []

        def read(self, n=-1):
            self.ops.append(('read', -1 if n is None or n < 0 else n))
            return super().read(n)
    return RecReader(data, read_sizes)


# ===================================================================== one real run

def etag_no(e):
    return int(e[5:]) if isinstance(e, str) and e.startswith('etag-') and e[5:].isdigit() else None


def norm_parts(parts, rank=None):
    """Parts list -> 'etag/pn/cks;...' in the model's vocabulary."""
    out = []
    for p in parts:
        e = etag_no(p.get('ETag'))
        if e is None:
            out.append('BAD(' + str(p.get('ETag')) + ')/' + hx(p.get('PartNumber', -1)) + '/-')
            continue
        en = rank[e] if rank else e
        extra = [k for k in p if k not in ('ETag', 'PartNumber')]
        cks = '-'
        if extra:
            v = p[extra[0]]
            cks = hx(2 * en + 1) if (len(extra) == 1 and extra[0].startswith('Checksum')
                                     and v == f'sum-etag-{e}') else 'BAD(' + str(v) + ')'
        out.append(f"{hx(en)}/{hx(p['PartNumber'])}/{cks}")
    return ';'.join(out)


def body_script_for(case):
    """(b): a deterministic retry script per request."""
    import random
    rng = random.Random(case.get('rseed', 0))
    r = case.get('resends')
    if r is None:
        return None

    def script(op, kw):
        n = r if r >= 0 else rng.randrange(0, 4)
        return {'sign_reads': [rng.randrange(1, 9) for _ in range(rng.randrange(0, 4))],
                'resends': n,
                'send_reads': [rng.randrange(1, 6) for _ in range(rng.randrange(0, 5))],
                'resend_after': [rng.randrange(0, case['size'] + 2) for _ in range(n)]}
    return script


def run_upload_case(case, tmpdir):
    """One real upload.  Returns an observation dict."""
    from s3transfer.manager import TransferManager, TransferConfig
    from s3transfer.futures import NonThreadedExecutor
    from s3transfer import utils
    from harness.props.c14 import scaled_adjuster
    size, kind = case['size'], case['kind']
    data = payload(size, case.get('salt', 0))
    client = rec_s3_cls()()
    client.min_part = case['limits'][0]
    client.body_script = body_script_for(case)
    cfg = TransferConfig(multipart_threshold=case['thr'], multipart_chunksize=case['chunk'], io_chunksize=3)
    src_ops = None
    if kind == 'path':
        path = os.path.join(tmpdir, 'src')
        with open(path, 'wb') as fh:
            fh.write(data)
        src = path
        if case.get('symlink'):
            # the user's path is a symbolic link to the file: the source is the file it points to
            link = os.path.join(tmpdir, 'a-rather-long-link-name-to-the-source')
            if os.path.lexists(link):
                os.remove(link)
            os.symlink(path, link)
            src = link
    elif kind == 'seek':
        k = case.get('pos', 0)
        if case.get('duck'):
            src = DuckSeekable(payload(k, 99) + data, k, case.get('script'))
        else:
            src = RecBytesIO(payload(k, 99) + data, case.get('script'))
            super(RecBytesIO, src).seek(k)
        src_ops = src.ops
    elif case.get('duck'):
        # a stream already consumed up to k at call time: the source is what is left
        k = case.get('pos', 0)
        cls = DuckSeekRaises if case['duck'] == 'raise' else DuckBare
        src = cls(payload(k, 99) + data, k, case.get('script'))
        src_ops = src.ops
    else:
        src = rec_reader(data, case.get('script') or [])
        src_ops = src.ops
    extra = {'ChecksumAlgorithm': 'crc32'} if case.get('alg') else {}
    obs = {'data': data, 'client': client, 'exc': None}
    mn, mx, mp = case['limits']
    try:
        with scaled_adjuster(utils, mn, mx, mp):
            with TransferManager(client, cfg, executor_cls=NonThreadedExecutor) as m:
                subs = None
                if case.get('provided'):
                    # the caller supplies the size (bytes from the call-time position to EOF) through a
                    # subscriber, as the CLI does with --expected-size: nothing else may change
                    class Provide:
                        def on_queued(self_, future, **kw):
                            future.meta.provide_transfer_size(size)

                        def on_progress(self_, future, bytes_transferred, **kw):
                            pass

                        def on_done(self_, future, **kw):
                            pass
                    subs = [Provide()]
                m.upload(src, 'b', 'k', extra_args=dict(extra), subscribers=subs).result()
    except Exception as e:     # noqa
        obs['exc'] = type(e).__name__ + ': ' + str(e)[:160]
    obs['src_ops'] = src_ops
    obs['call_pos'] = case.get('pos', 0) if (kind == 'seek' or case.get('duck')) else None
    obs['first_read_pos'] = getattr(src, 'first_read_pos', None)
    return obs


def check_upload(case, obs):
    """The oracle for one upload: the service-side statement plus: classifying the source
    (is_compatible / compat.seekable / compat.readable) and measuring it must leave the stream
    where the caller put it -- the first byte read is the byte at the call-time position."""
    v = check_service(obs['client'], obs['data'], case['thr'], case['limits'][0], alg=bool(case.get('alg')),
                      exc=obs['exc'])
    if v:
        return v
    if obs.get('call_pos') is not None and obs.get('first_read_pos') is not None and \
            obs['first_read_pos'] != obs['call_pos']:
        return (f'the first read of the source happened at offset {obs["first_read_pos"]}, the stream was at offset '
                f'{obs["call_pos"]} when upload() was called')
    return None


def observe(client, dest=('b', 'k')):
    """What the fake service saw, in the model's vocabulary."""
    puts = client.calls('PutObject')
    ups = client.calls('UploadPart')
    comps = client.calls('CompleteMultipartUpload')
    o = {}
    o['mode'] = 'put' if puts and not ups else ('mp' if not puts else 'mixed')
    if o['mode'] == 'put':
        o['bodies'] = [(0, r.get('body', b'')) for r in puts]
    else:
        o['bodies'] = [(r['kwargs']['PartNumber'], r.get('body', b'')) for r in ups]
    o['completes'] = [(r['kwargs']['MultipartUpload']['Parts'], r['outcome']) for r in comps]
    o['obj'] = client.objects.get(dest)
    return o


def impl_line_upload(case, obs):
    o = observe(obs['client'])
    bodies = ';'.join(f'{hx(pn)}:{hexb(b)}' for pn, b in o['bodies'])
    reads = ''
    if obs['src_ops'] is not None and (case['kind'] == 'stream' or o['mode'] == 'mp'):
        reads = ','.join(hx(x[1]) for x in obs['src_ops'] if x[0] == 'read')
    parts = norm_parts(o['completes'][0][0]) if len(o['completes']) == 1 else \
        ('' if not o['completes'] else f'<{len(o["completes"])} completes>')
    ok = obs['exc'] is None and all(out == 'ok' for _, out in o['completes'])
    c = effective_chunk(case) if o['mode'] == 'mp' else 0
    obj = 'none' if o['obj'] is None else hexb(o['obj'])
    return f"{o['mode']} c={hx(c)} bodies={bodies} reads={reads} parts={parts} ok={1 if ok else 0} obj={obj}"


def effective_chunk(case):
    """The chunk size the real adjuster yields for this case."""
    from s3transfer import utils
    mn, mx, mp = case['limits']
    size = None if case['kind'] == 'stream' else case['size']
    return utils.ChunksizeAdjuster(max_size=mx, min_size=mn, max_parts=mp).adjust_chunksize(case['chunk'], size)


def model_line_upload(case, order='-', unrepaired=False):
    kind = 'unrep' if unrepaired else case['kind']
    k = case.get('pos', 0) if case['kind'] == 'seek' else 0
    data = (payload(k, 99) if case['kind'] == 'seek' else b'') + payload(case['size'], case.get('salt', 0))
    scr = ','.join(hx(max(1, s)) for s in (case.get('script') or [])) or '-'
    if case['kind'] == 'path':
        scr = '-'
    mn, mx, mp = case['limits']
    return (f"up {kind} {hexb(data)} {hx(k)} {scr} {hx(case['thr'])} {hx(case['chunk'])} "
            f"{hx(mn)} {hx(mx)} {hx(mp)} {1 if case.get('alg') else 0} {order}")


# ===================================================================== oracle

def check_service(client, data, thr, min_part, dest=('b', 'k'), alg=False, expect_ok=True, exc=None,
                  copy=False):
    """C01 stated on what the fake service recorded.  Returns a failure text or None."""
    puts = client.calls('CopyObject' if copy else 'PutObject')
    ups = client.calls('UploadPartCopy' if copy else 'UploadPart')
    comps = client.calls('CompleteMultipartUpload')
    size = len(data)
    if comps:
        for r in comps:
            nums = [p.get('PartNumber') for p in r['kwargs']['MultipartUpload']['Parts']]
            if nums != list(range(1, len(nums) + 1)):
                return f'CompleteMultipartUpload lists part numbers {nums}, not 1..{len(nums)} ascending'
        if len(comps) != 1:
            return f'CompleteMultipartUpload called {len(comps)} times'
        r = comps[0]
        uid = r['kwargs']['UploadId']
        up = client.uploads[uid]
        parts = r['kwargs']['MultipartUpload']['Parts']
        for p in parts:
            have = up['parts'].get(p['PartNumber'])
            if have is None or have[0] != p.get('ETag'):
                return (f'part {p["PartNumber"]} listed with ETag {p.get("ETag")}, the service returned '
                        f'{have[0] if have else None} for it')
            extra = {k: v for k, v in p.items() if k not in ('ETag', 'PartNumber')}
            if alg and extra != {'ChecksumCRC32': f'sum-{have[0]}'}:
                return f'part {p["PartNumber"]} listed with checksum {extra}, the service returned sum-{have[0]}'
            if not alg and extra:
                return f'part {p["PartNumber"]} listed with unexpected members {extra}'
        if sorted(up['parts']) != list(range(1, len(parts) + 1)):
            return f'parts uploaded {sorted(up["parts"])}, parts listed 1..{len(parts)}'
        blobs = [up['parts'][n][1] for n in sorted(up['parts'])]
        if b''.join(blobs) != data:
            return f'the parts concatenate to {len(b"".join(blobs))} bytes that differ from the {size} source bytes'
        if any(len(b) == 0 for b in blobs):
            return 'an empty part was uploaded'
        short = [(i + 1, len(b)) for i, b in enumerate(blobs[:-1]) if len(b) < min_part]
        if short:
            return (f'part {short[0][0]} of {len(blobs)} has {short[0][1]} bytes, below the minimum part size '
                    f'{min_part}: the service rejects this upload (EntityTooSmall)')
        if r['outcome'] != 'ok':
            return f'CompleteMultipartUpload was {r["outcome"]}'
        if size < thr:
            return f'{size} bytes < threshold {thr} sent as a multipart upload'
    else:
        if ups:
            return f'{len(ups)} parts uploaded but CompleteMultipartUpload never called' if exc is None else None
        if len(puts) > 1:
            return f'{len(puts)} single requests'
        if puts and size >= thr:
            return f'{size} bytes >= threshold {thr} sent as a single request'
    if exc is None:
        if client.objects.get(dest) != data:
            got = client.objects.get(dest)
            return (f'future succeeded, stored object ({None if got is None else len(got)} bytes) differs from the '
                    f'source ({size} bytes)')
    return None


def oracle_upload(case, tmpdir):
    obs = run_upload_case(case, tmpdir)
    return check_upload(case, obs), obs


# ===================================================================== cases

def upload_cases(ctx, with_retries):
    rng = ctx.rng('upload-cases', with_retries)
    cases = []
    cs = range(1, 10)
    ts = range(1, 10)
    n = 0
    for c in cs:
        for t in ts:
            sizes = sorted({0, 1, c - 1, c, c + 1, 2 * c - 1, 2 * c + 1, t - 1, t, t + 1, 3 * c})
            for size in sizes:
                if size < 0:
                    continue
                for kind in ('path', 'path-symlink', 'seek', 'seekpos', 'stream', 'stream-short', 'stream-rand', 'seek-short',
                             'duckseek', 'duckseekpos', 'duckseek-short', 'duck-raise', 'duck-bare'):
                    n += 1
                    if kind.startswith('duck') and not ctx.thorough() and (n // 13) % 2:
                        continue
                    if with_retries and not ctx.thorough() and (n // 13 + n) % 4 != 0:
                        continue
                    limits = [(1, 1000, 1000), (2, 9, 4), (1, 5, 3)][n % 3]
                    case = {'size': size, 'chunk': c, 'thr': t, 'limits': list(limits), 'alg': n % 4 == 0,
                            'salt': n % 5}
                    if kind in ('path', 'seek', 'seekpos', 'duckseekpos') and n % 3 == 1:
                        case['provided'] = True
                    if kind == 'path':
                        case['kind'] = 'path'
                    elif kind == 'path-symlink':
                        case.update(kind='path', symlink=True)
                    elif kind == 'seek':
                        case.update(kind='seek', pos=0)
                    elif kind == 'seekpos':
                        case.update(kind='seek', pos=rng.randrange(1, 7))
                    elif kind == 'seek-short':
                        case.update(kind='seek', pos=rng.randrange(0, 4),
                                    script=[rng.randrange(1, 4) for _ in range(rng.randrange(1, size + 3))])
                    elif kind == 'duckseek':
                        case.update(kind='seek', pos=0, duck='seek')
                    elif kind == 'duckseekpos':
                        case.update(kind='seek', pos=rng.randrange(1, 7), duck='seek')
                    elif kind == 'duckseek-short':
                        case.update(kind='seek', pos=rng.randrange(0, 4), duck='seek',
                                    script=[rng.randrange(1, 4) for _ in range(rng.randrange(1, size + 3))])
                    elif kind == 'duck-raise':
                        case.update(kind='stream', duck='raise', pos=rng.randrange(0, 4),
                                    script=[rng.randrange(1, 5) for _ in range(rng.randrange(0, size + 3))])
                    elif kind == 'duck-bare':
                        case.update(kind='stream', duck='bare', pos=rng.randrange(0, 4),
                                    script=[rng.randrange(1, 5) for _ in range(rng.randrange(0, size + 3))])
                    elif kind == 'stream':
                        case.update(kind='stream', script=[])
                    elif kind == 'stream-short':
                        case.update(kind='stream', script=[1] * (size + 3))
                    else:
                        case.update(kind='stream', script=[rng.randrange(1, 5) for _ in range(rng.randrange(1, size + 4))])
                    if with_retries:
                        case['resends'] = rng.choice([0, 1, 2, 3, -1])
                        case['rseed'] = rng.randrange(10 ** 6)
                    cases.append(case)
    return cases


def corpus_cases():
    cdir = os.path.join(common.VERIF, 'corpus', 'uploadsrc')
    out = []
    for fn in sorted(os.listdir(cdir)) if os.path.isdir(cdir) else []:
        if fn.endswith('.json'):
            out.append(json.load(open(os.path.join(cdir, fn))))
    return out


# ===================================================================== (a)+(b)

def check_uploads(ctx, tmpdir, with_retries):
    comp = 'upload-retries' if with_retries else 'upload-managers'
    cases = ([] if with_retries else [c for c in corpus_cases() if c.get('family', 'upload') == 'upload']) + \
        upload_cases(ctx, with_retries)
    observations = {}

    def run_impl(c):
        obs = run_upload_case(c, tmpdir)
        observations[id(c)] = obs
        return impl_line_upload(c, obs)

    def hist(c, o):
        return {'kind': c['kind'] + ('+duck-' + c['duck'] if c.get('duck') else '') + ('+pos' if c.get('pos') else '') +
                ('+short' if short_seekable(c) else ''), 'mode': o.split()[0],
                'short_reads': bool(c.get('script')), 'resends': c.get('resends', 'none')}

    mism = common.differential(ctx, 'uploadsrc', cases, model_line_upload, run_impl, hist=hist)
    # the differential counts under 'uploadsrc'; keep the families apart in the evidence
    ctx.cov['components'].setdefault(comp, {'cases': 0, 'hist': {}})['cases'] += len(cases)
    # oracle on every case (cheap: the run is already there)
    for c in cases:
        obs = observations[id(c)]
        v = check_upload(c, obs)
        if v:
            ctx.report(sig('c01:upload', oracle_key(c)), describe(c) + ': ' + v,
                       {'kind': 'input', 'component': comp, 'family': 'upload', 'case': c})
    for c, i, m in mism[:40]:
        obs = observations[id(c)]
        v = check_upload(c, obs)
        if v:
            continue        # already reported with the input
        if obs['exc'] is not None:
            ctx.report(sig('c01:upload-failed', oracle_key(c)),
                       describe(c) + f': the upload failed without any injected fault: {obs["exc"]}',
                       {'kind': 'input', 'component': comp, 'family': 'upload', 'case': c, 'impl': i, 'model': m})
            continue
        field = first_diff(i, m)
        ctx.report(f'corr:uploadsrc:{field}',
                   f'{describe(c)}: implementation and model/UploadSrc.v disagree on {field}: impl "{i}" model "{m}"',
                   {'kind': 'correspondence', 'theorem_or_correspondence': f'differential uploadsrc ({field})',
                    'family': 'upload', 'case': c, 'impl': i, 'model': m}, no_input=True)
    for c in cases[:1] + [c for c in cases if c['kind'] == 'stream' and c.get('script') and c['size'] >= c['thr']][:1] + \
            [c for c in cases if short_seekable(c) and c['size'] >= max(c['thr'], 2 * c['chunk'])][:1]:
        ctx.sample({'component': comp, 'case': c, 'model_cmd': model_line_upload(c),
                    'impl_and_model_output': impl_line_upload(c, observations[id(c)])})
    return cases


def short_seekable(c):
    return c.get('kind') == 'seek' and bool(c.get('script'))


def oracle_key(c):
    return {k: c[k] for k in sorted(c) if k not in ('rseed',)}


def describe(c):
    k = c['kind'] + (f' (duck-typed: {c["duck"]})' if c.get('duck') else '') + (f' at offset {c["pos"]}' if c.get('pos') else '')
    s = f' short reads {c["script"][:8]}' if c.get('script') else ''
    r = f', {c["resends"]} resends' if c.get('resends') is not None else ''
    return (f'upload of {c["size"]} bytes from a {k} source{s} (chunk {c["chunk"]}, threshold {c["thr"]}, '
            f'limits {c["limits"]}{r})')


def first_diff(i, m):
    fi = dict(x.split('=', 1) for x in i.split()[1:] if '=' in x)
    fm = dict(x.split('=', 1) for x in m.split()[1:] if '=' in x)
    if i.split()[:1] != m.split()[:1]:
        return 'mode'
    for k in ('c', 'bodies', 'ranges', 'reads', 'parts', 'ok', 'obj'):
        if fi.get(k) != fm.get(k):
            return k
    return 'output'


# ===================================================================== copies

def copy_cases(ctx):
    cases = []
    n = 0
    for c in range(1, 10):
        for t in range(1, 10):
            for size in sorted({0, 1, c - 1, c, c + 1, 2 * c - 1, 2 * c + 1, t - 1, t, t + 1, 3 * c}):
                n += 1
                if size < 0 or (not ctx.thorough() and n % 2):
                    continue
                cases.append({'size': size, 'chunk': c, 'thr': t, 'limits': list([(1, 1000, 1000), (2, 9, 4), (1, 5, 3)][n % 3]),
                              'alg': n % 4 == 0, 'salt': n % 5})
    return cases


def run_copy_case(case):
    from s3transfer.manager import TransferManager, TransferConfig
    from s3transfer.futures import NonThreadedExecutor
    from s3transfer import utils
    from harness.props.c14 import scaled_adjuster
    from harness.fakes3 import parse_range
    data = payload(case['size'], case.get('salt', 0))
    client = rec_s3_cls()()
    client.min_part = case['limits'][0]
    client.objects[('sb', 'sk')] = data
    if case.get('alg'):
        client.copy_part_checksums = lambda kw, etag: {'ChecksumCRC32': f'sum-{etag}'}
    cfg = TransferConfig(multipart_threshold=case['thr'], multipart_chunksize=case['chunk'])
    extra = {'ChecksumAlgorithm': 'crc32'} if case.get('alg') else {}
    exc = None
    mn, mx, mp = case['limits']
    try:
        with scaled_adjuster(utils, mn, mx, mp):
            with TransferManager(client, cfg, executor_cls=NonThreadedExecutor) as m:
                m.copy({'Bucket': 'sb', 'Key': 'sk'}, 'b', 'k', extra_args=dict(extra)).result()
    except Exception as e:   # noqa
        exc = type(e).__name__ + ': ' + str(e)[:160]
    return {'client': client, 'data': data, 'exc': exc}


def impl_line_copy(case, obs):
    import re
    client = obs['client']
    ranges = []
    for r in client.calls('UploadPartCopy'):
        m = re.fullmatch(r'bytes=(\d+)-(\d*)', r['kwargs'].get('CopySourceRange', ''))
        ranges.append(f"{hx(r['kwargs']['PartNumber'])}:" + (f"{hx(int(m.group(1)))}:{hx(int(m.group(2))) if m.group(2) else '-'}"
                                                             if m else 'BAD'))
    comps = client.calls('CompleteMultipartUpload')
    parts = norm_parts(comps[0]['kwargs']['MultipartUpload']['Parts']) if len(comps) == 1 else \
        ('' if not comps else f'<{len(comps)} completes>')
    ok = obs['exc'] is None and all(r['outcome'] == 'ok' for r in comps)
    obj = client.objects.get(('b', 'k'))
    return f"ranges={';'.join(ranges)} parts={parts} ok={1 if ok else 0} obj={'none' if obj is None else hexb(obj)}"


def model_line_copy(case, order='-'):
    mn, mx, mp = case['limits']
    return (f"cp {hexb(payload(case['size'], case.get('salt', 0)))} {hx(case['thr'])} {hx(case['chunk'])} "
            f"{hx(mn)} {hx(mx)} {hx(mp)} {1 if case.get('alg') else 0} {order}")


def check_copies(ctx):
    cases = [c for c in corpus_cases() if c.get('family') == 'copy'] + copy_cases(ctx)
    observations = {}

    def run_impl(c):
        observations[id(c)] = run_copy_case(c)
        return impl_line_copy(c, observations[id(c)])

    mism = common.differential(ctx, 'uploadsrc', cases, model_line_copy, run_impl,
                               hist=lambda c, o: {'kind': 'copy', 'mode': 'mp' if 'ranges=1' in o else 'single'})
    ctx.cov['components'].setdefault('copy', {'cases': 0, 'hist': {}})['cases'] += len(cases)
    bad = set()
    for c in cases:
        obs = observations[id(c)]
        v = check_service(obs['client'], obs['data'], c['thr'], c['limits'][0], alg=bool(c.get('alg')), exc=obs['exc'],
                          copy=True)
        if v:
            bad.add(id(c))
            ctx.report(sig('c01:copy', c), f'copy of {c["size"]} bytes (chunk {c["chunk"]}, threshold {c["thr"]}, '
                       f'limits {c["limits"]}): {v}',
                       {'kind': 'input', 'component': 'copy', 'family': 'copy', 'case': c})
    for c, i, m in mism[:20]:
        if id(c) in bad:
            continue
        field = first_diff('x ' + i, 'x ' + m)
        ctx.report(f'corr:uploadsrc:copy-{field}',
                   f'copy of {c["size"]} bytes (chunk {c["chunk"]}, threshold {c["thr"]}): implementation and model '
                   f'disagree on {field}: impl "{i}" model "{m}"',
                   {'kind': 'correspondence', 'theorem_or_correspondence': f'differential uploadsrc copy ({field})',
                    'family': 'copy', 'case': c, 'impl': i, 'model': m}, no_input=True)
    if cases:
        c = [x for x in cases if x['size'] >= x['thr']][0]
        ctx.sample({'component': 'copy', 'case': c, 'model_cmd': model_line_copy(c),
                    'impl_and_model_output': impl_line_copy(c, observations[id(c)])})


# ===================================================================== (d) legacy

def legacy_cases(ctx):
    cases = []
    n = 0
    for c in range(1, 10):
        for t in range(1, 10):
            for size in sorted({0, 1, c - 1, c, c + 1, 2 * c - 1, 2 * c + 1, t - 1, t, t + 1, 3 * c}):
                n += 1
                if size < 0 or (not ctx.thorough() and n % 3):
                    continue
                cases.append({'size': size, 'chunk': c, 'thr': t, 'workers': 1 if n % 2 else 3, 'salt': n % 5,
                              'resends': [None, 0, 1, 2, 3][n % 5], 'rseed': n})
    return cases


def run_legacy_case(case, tmpdir):
    import s3transfer
    data = payload(case['size'], case.get('salt', 0))
    path = os.path.join(tmpdir, 'legacy-src')
    with open(path, 'wb') as fh:
        fh.write(data)
    client = rec_s3_cls()()
    client.body_script = body_script_for(case)
    cfg = s3transfer.TransferConfig(multipart_threshold=case['thr'], multipart_chunksize=case['chunk'],
                                    max_concurrency=case['workers'])
    exc = None
    try:
        s3transfer.S3Transfer(client, cfg).upload_file(path, 'b', 'k')
    except Exception as e:    # noqa
        exc = type(e).__name__ + ': ' + str(e)[:160]
    return {'client': client, 'data': data, 'exc': exc}


def service_order(client, copy=False):
    """Indices of the part tasks (part number - 1) in the order the service applied them,
    and the rank of every ETag number among this upload's ETags."""
    ups = client.calls('UploadPartCopy' if copy else 'UploadPart')
    comps = client.calls('CompleteMultipartUpload')
    if not comps:
        return None, None
    uid = comps[0]['kwargs']['UploadId']
    tab = client.uploads[uid]['parts']
    es = sorted((etag_no(e), pn) for pn, (e, _) in tab.items() if etag_no(e) is not None)
    if len(es) != len(tab):
        return None, None
    rank = {e: i + 1 for i, (e, _) in enumerate(es)}
    return [pn - 1 for _, pn in es], rank


def impl_line_ordered(client, exc, rank, dest=('b', 'k')):
    comps = client.calls('CompleteMultipartUpload')
    parts = norm_parts(comps[0]['kwargs']['MultipartUpload']['Parts'], rank) if len(comps) == 1 else \
        ('' if not comps else f'<{len(comps)} completes>')
    ok = exc is None and all(r['outcome'] == 'ok' for r in comps)
    obj = client.objects.get(dest)
    return f"parts={parts} ok={1 if ok else 0} obj={'none' if obj is None else hexb(obj)}"


def check_legacy(ctx, tmpdir):
    cases = legacy_cases(ctx)
    lines, impls, obss = [], [], []
    for c in cases:
        obs = run_legacy_case(c, tmpdir)
        order, rank = service_order(obs['client'])
        o = observe(obs['client'])
        if order is None or sorted(order) != list(range(len(order))):
            lines.append(f"lg {hexb(obs['data'])} {hx(c['thr'])} {hx(c['chunk'])} -")
            bodies = ';'.join(f'{hx(pn)}:{hexb(b)}' for pn, b in o['bodies'])
            impls.append(f"bodies={bodies} " + impl_line_ordered(obs['client'], obs['exc'], None))
        else:
            lines.append(f"lg {hexb(obs['data'])} {hx(c['thr'])} {hx(c['chunk'])} {','.join(hx(i) for i in order)}")
            impls.append(impl_line_ordered(obs['client'], obs['exc'], rank))
        obss.append(obs)
    model = common.run_model('uploadsrc', lines)
    for c, l, i, m, obs in zip(cases, lines, impls, model, obss):
        ctx.count('legacy', 1, nontrivial_key=json.dumps(c, sort_keys=True),
                  mode='mp' if obs['client'].calls('UploadPart') else 'put', workers=c['workers'],
                  resends=c['resends'])
        v = check_service(obs['client'], obs['data'], c['thr'], 1, exc=obs['exc'])
        if v:
            ctx.report(sig('c01:legacy', c), f'legacy upload_file of {c["size"]} bytes (chunk {c["chunk"]}, threshold '
                       f'{c["thr"]}, {c["workers"]} workers): {v}',
                       {'kind': 'input', 'component': 'legacy', 'family': 'legacy', 'case': c})
        elif i != m:
            ctx.report('corr:uploadsrc:legacy',
                       f'legacy upload_file of {c["size"]} bytes (chunk {c["chunk"]}, threshold {c["thr"]}): '
                       f'impl "{i}" model "{m}"',
                       {'kind': 'correspondence', 'theorem_or_correspondence': 'differential uploadsrc legacy',
                        'family': 'legacy', 'case': c, 'impl': i, 'model': m}, no_input=True)
    mp_cases = [k for k, c in enumerate(cases) if c['size'] >= c['thr'] and c['workers'] == 1]
    if mp_cases:
        k = mp_cases[len(mp_cases) // 2]
        ctx.sample({'component': 'legacy', 'case': cases[k], 'model_cmd': lines[k], 'impl_and_model_output': impls[k]})


# ===================================================================== (c) scheduled runs

class patched_fakes3:
    """library.run builds its own FakeS3: give it a retrying client for the run."""

    def __init__(self, script, alg=False):
        self.script, self.alg = script, alg

    def __enter__(self):
        from harness import fakes3
        self.mod = fakes3
        self.old = fakes3.FakeS3
        base = rec_s3_cls()
        script, alg = self.script, self.alg

        class SchedS3(base):
            def __init__(self, *a, **k):
                super().__init__(*a, **k)
                self.body_script = script
                if alg:
                    self.copy_part_checksums = lambda kw, etag: {'ChecksumCRC32': f'sum-{etag}'}
        fakes3.FakeS3 = SchedS3

    def __exit__(self, *a):
        self.mod.FakeS3 = self.old


def sched_specs(ctx):
    rng = ctx.rng('sched')
    specs = []
    kinds = [('upload', 'path'), ('upload', 'seekable'), ('upload', 'nonseekable'), ('copy', None)]
    reps = 40 if ctx.thorough() else 12
    i = 0
    for rep in range(reps):
        for kind, src in kinds:
            for size in (0, 2, 4, 7, 13, 16):
                i += 1
                chunk = rng.choice([1, 2, 3, 4, 5])
                thr = rng.choice([1, 3, 4, 5, 9])
                t = {'kind': kind, 'size': size}
                if src:
                    t['src'] = src
                if src == 'nonseekable':
                    t['read_sizes'] = [rng.randrange(1, 5) for _ in range(rng.randrange(0, size + 3))]
                specs.append({'transfers': [t],
                              'cfg': {'multipart_threshold': thr, 'multipart_chunksize': chunk,
                                      'max_request_concurrency': rng.choice([1, 2, 3, 5]),
                                      'max_in_memory_upload_chunks': rng.choice([1, 2, 4])},
                              'chooser': {'kind': ['random', 'pct'][i % 2], 'seed': rng.randrange(1 << 30)},
                              'c01': {'resends': rng.choice([None, 0, 1, 2, 3]), 'rseed': rng.randrange(10 ** 6)}})
    return specs


def run_sched(spec):
    from harness.sched import library
    t = spec['transfers'][0]
    extra = spec.get('c01') or {}
    script = body_script_for({'size': t['size'], 'resends': extra.get('resends'), 'rseed': extra.get('rseed', 0)})
    with patched_fakes3(script):
        return library.run({k: v for k, v in spec.items() if k != 'c01'})


def sched_model_line(spec, order):
    t = spec['transfers'][0]
    cfg = spec['cfg']
    data = payload(t['size'], 0)           # library.payload(size, i) with i = 0
    o = ','.join(hx(i) for i in order) if order else '-'
    if t['kind'] == 'copy':
        return f"cp {hexb(data)} {hx(cfg['multipart_threshold'])} {hx(cfg['multipart_chunksize'])} 1 3e8 3e8 0 {o}"
    kind = {'path': 'path', 'seekable': 'seek', 'nonseekable': 'stream'}[t.get('src', 'path')]
    full = (b'xy' + data) if kind == 'seek' else data
    scr = ','.join(hx(max(1, s)) for s in (t.get('read_sizes') or [])) or '-'
    return (f"up {kind} {hexb(full)} {hx(2 if kind == 'seek' else 0)} {scr if kind == 'stream' else '-'} "
            f"{hx(cfg['multipart_threshold'])} {hx(cfg['multipart_chunksize'])} 1 3e8 3e8 0 {o}")


def sched_oracle(spec, r):
    t = spec['transfers'][0]
    data = payload(t['size'], 0)
    if r.deadlock or r.livelock:
        return None       # termination is C03/C07's business
    res = r.results.get('t0')
    exc = None if (res and res[0] == 'ok') else (str(res) if res else 'no result')
    return check_service(r.client, data, spec['cfg']['multipart_threshold'], 1, dest=('b', 'k0'), exc=exc,
                         copy=t['kind'] == 'copy')


def faulted_mons():
    from harness.sched import monitors as M
    return [M.m_terminates, M.m_success_means_all_ok, M.m_multipart_discipline]


def check_sched_faults(ctx):
    """'Whenever an upload or copy future reports SUCCESS ...': multipart uploads / copies on 3 request
    threads with one request failing (before / after its effect) under random and PCT schedules --
    a success must still mean every part is in the object (and nothing was aborted)."""
    from harness.props import sysrun
    kinds = [dict(kind='upload', src='path', size=12), dict(kind='upload', src='seekable', size=11),
             dict(kind='upload', src='nonseekable', size=10), dict(kind='copy', size=12)]
    cfg = dict(sysrun.CFG_SMALL, max_request_concurrency=3, multipart_chunksize=4, multipart_threshold=4)
    specs = sysrun.specs_faults(ctx, kinds, seeds=2 if ctx.thorough() else 1, cfg=cfg, tag='c01-faults')
    specs = [sp for sp in specs if sp.get('s3_fault') or sp.get('read_fault')]
    sysrun.sub_runs(ctx, specs, faulted_mons())


def check_sched(ctx):
    specs = sched_specs(ctx)
    lines, impls, owners = [], [], []
    seen = set()
    for spec in specs:
        r = run_sched(spec)
        t = spec['transfers'][0]
        copy = t['kind'] == 'copy'
        h = hashlib.sha1(json.dumps([(e['thread'], e['ev'], e.get('task'), e.get('op')) for e in r.trace]).encode()).hexdigest()[:16]
        threads = len({e['thread'] for e in r.trace})
        order, rank = service_order(r.client, copy)
        out_of_order = bool(order) and order != sorted(order)
        ctx.count('scheduled-run', 1, nontrivial_key=h if threads > 1 else None,
                  kind=t['kind'] + ':' + str(t.get('src', '')), mode='mp' if order is not None else 'single',
                  parts_out_of_order=out_of_order, resends=(spec.get('c01') or {}).get('resends'))
        seen.add(h)
        v = sched_oracle(spec, r)
        if v:
            ctx.report(sig('c01:sched', spec), f'{t["kind"]} of {t["size"]} bytes ({t.get("src", "object")}), cfg {spec["cfg"]}: {v}',
                       {'kind': 'schedule', 'family': 'sched',
                        'case': dict(spec, chooser={'kind': 'replay', 'choices': r.choices})})
            continue
        res = r.results.get('t0')
        if not res or res[0] != 'ok' or r.deadlock or r.livelock:
            continue
        exc = None
        if order is not None and sorted(order) == list(range(len(order))):
            lines.append(sched_model_line(spec, order))
            impls.append(impl_line_ordered(r.client, exc, rank, dest=('b', 'k0')))
        else:
            lines.append(sched_model_line(spec, None))
            impls.append(None)
        owners.append((spec, r.choices, out_of_order))
    if lines and ctx.broken is None:
        model = common.run_model('uploadsrc', lines)
        shown = 0
        for (spec, choices, ooo), l, i, m in zip(owners, lines, impls, model):
            mm = ' '.join(x for x in m.split() if x.split('=')[0] in ('parts', 'ok', 'obj'))
            if i is None:
                # single request: the model must say so too, with the same object
                t = spec['transfers'][0]
                i = f"parts= ok=1 obj={hexb(payload(t['size'], 0))}"
            ctx.count('scheduled-vs-model', 1, nontrivial_key=l)
            if ooo and shown < 2:
                shown += 1
                ctx.sample({'component': 'scheduled-run', 'spec': spec, 'model_cmd': l, 'impl_and_model_output': i})
            if i != mm:
                ctx.report('corr:uploadsrc:scheduled',
                           f'scheduled run {spec["transfers"][0]}: service saw "{i}", the model run in the same '
                           f'part order gives "{mm}"',
                           {'kind': 'correspondence', 'theorem_or_correspondence': 'run_upload/run_copy in the recorded order',
                            'family': 'sched', 'case': dict(spec, chooser={'kind': 'replay', 'choices': choices}),
                            'impl': i, 'model': mm}, no_input=True)
    ctx.cov['distinct_schedules'] = len(seen)


# ===================================================================== retry scripts vs final_send

def check_final_send(ctx):
    """The request scripts FakeS3 plays are words the theorem quantifies over: replay the
    recorded operations of real bodies on the model's final_send."""
    from harness.fakes3 import FakeS3
    from s3transfer.utils import ReadFileChunk
    rng = ctx.rng('final-send')
    lines, want = [], []
    n = 600 if ctx.thorough() else 120
    for _ in range(n):
        full = rng.randrange(0, 12)
        data = payload(full, rng.randrange(5))
        start = rng.randrange(0, full + 1)
        req = rng.randrange(0, 9)

        f = io.BytesIO(data)
        f.seek(start)
        chunk = ReadFileChunk(f, req, full, enable_callbacks=False)
        ops = []

        class Spy:
            def read(self, n=None):
                ops.append('R:N' if n is None else 'R:' + hx(n))
                return chunk.read(n)

            def seek(self, w, wh=0):
                ops.append(f'S:{hx(w)}:{hx(wh)}')
                return chunk.seek(w, wh)

            def tell(self):
                ops.append('T')
                return chunk.tell()
        r = rng.randrange(0, 4)
        script = {'sign_reads': [rng.randrange(1, 9) for _ in range(rng.randrange(0, 4))], 'resends': r,
                  'send_reads': [rng.randrange(1, 6) for _ in range(rng.randrange(0, 4))],
                  'resend_after': [rng.randrange(0, full + 2) for _ in range(r)]}
        c = FakeS3()
        c.body_script = lambda op, kw: script
        got = c._consume_body('UploadPart', Spy(), {}, {'kwargs': {}})
        # the last attempt starts after the last seek(0): history = everything before it
        if 'S:0:0' not in ops:
            continue
        last = max(i for i, o in enumerate(ops) if o == 'S:0:0')
        hist, sizes = ops[:last], ops[last + 1:]
        if script['sign_reads'] or r:
            sz = [o[2:] for o in sizes if o.startswith('R:')]
            if all(o.startswith('R:') for o in sizes) and sz:
                lines.append(f"fs {hexb(data)} {hx(start)} {hx(req)} {hx(full)} {','.join(sz)} " + ' '.join(hist))
                want.append((hexb(got), script))
    out = common.run_model('uploadsrc', lines)
    for l, (w, sc), o in zip(lines, want, out):
        ctx.count('final-send', 1, nontrivial_key=l, resends=sc['resends'])
        if o != w:
            ctx.report('corr:uploadsrc:final-send',
                       f'the real ReadFileChunk delivered {w} in the last send of a request, model final_send gives {o} ({l})',
                       {'kind': 'correspondence', 'theorem_or_correspondence': 'UploadSrc.final_send vs real ReadFileChunk under FakeS3 retries',
                        'case': {'line': l}, 'impl': w, 'model': o}, no_input=True)
    best = [k for k, (w, sc) in enumerate(want) if len(w) >= 6 and sc['resends'] >= 2]
    if best:
        ctx.sample({'component': 'final-send', 'model_cmd': lines[best[0]], 'impl_and_model_output': want[best[0]][0]})


# ===================================================================== run / replay

def search_after_break(ctx, tmpdir):
    """Proofs or build broke: look for a failing input with the oracle alone."""
    found = 0
    for with_retries in (False, True):
        for c in upload_cases(ctx, with_retries):
            v, _ = oracle_upload(c, tmpdir)
            ctx.count('oracle-search', 1, nontrivial_key=json.dumps(c, sort_keys=True))
            if v:
                ctx.report(sig('c01:upload', oracle_key(c)), describe(c) + ': ' + v,
                           {'kind': 'input', 'component': 'oracle-search', 'family': 'upload', 'case': c,
                            'broken': ctx.broken.what})
                found += 1
                if found >= 3:
                    return
    for c in copy_cases(ctx):
        obs = run_copy_case(c)
        v = check_service(obs['client'], obs['data'], c['thr'], c['limits'][0], alg=bool(c.get('alg')), exc=obs['exc'], copy=True)
        if v:
            ctx.report(sig('c01:copy', c), f'copy of {c["size"]} bytes: {v}',
                       {'kind': 'input', 'component': 'oracle-search', 'family': 'copy', 'case': c})
            found += 1
            break
    for spec in sched_specs(ctx)[:60]:
        r = run_sched(spec)
        v = sched_oracle(spec, r)
        if v:
            ctx.report(sig('c01:sched', spec), v, {'kind': 'schedule', 'family': 'sched',
                                                  'case': dict(spec, chooser={'kind': 'replay', 'choices': r.choices})})
            found += 1
            break
    if not found:
        ctx.report('broken:' + ctx.broken.what, ctx.broken.what,
                   {'kind': 'theorem', 'theorem_or_correspondence': ctx.broken.what, 'log': ctx.broken.log},
                   no_input=True)


def run(ctx):
    common.proofs(ctx, 'C01', EXTRACT, COMPONENTS)
    ctx.assumptions = [
        'a stream read(n) (seekable or not) returns 1..n bytes before EOF and nothing only at EOF; read() returns the rest (every script of such reads is covered); seekable streams report their position and size truthfully (tell / seek(0, 2)) and are positioned inside their data',
        'classifying the source (is_compatible, compat.seekable / compat.readable probes) and measuring it (tell, seek(0, 2), seek(start)) leave the stream at its call-time position: model/UploadSrc.v starts from that position; tied on every upload case by checking that the first read of the source happens at the call-time offset, including duck-typed streams that are classified by the seek(0, 1) probe',
        'success of the future implies every part task ran its request once to a successful end and complete ran once after all of them with their results (Sys.v, properties C03-C08); the run functions take this as the shape of a successful run',
        'the client performs every request as Sign.Send.(rewind.Sign.Send)* ending in a complete send of positive-size reads (botocore life cycle, validated against the real endpoint by C09 thorough); everything before the last attempt is arbitrary',
        'the reference S3 (model/S3Spec.v = harness/fakes3.py): complete concatenates in listed order and rejects non-ascending lists, unknown parts/ETags, parts below the minimum size; part sizes above 5 GiB / more than 10000 parts are C14',
        'the extracted OCaml model, its line driver, the cooperative scheduler and the fake service are trusted for the correspondence only',
    ]
    ctx.cov['rule'] = (
        'upload cases: c,t in 1..9 x size in {0,1,c-1,c,c+1,2c-1,2c+1,t-1,t,t+1,3c} x source kind (path, BytesIO at 0 and at k, '
        'BytesIO with scripted short reads, non-seekable reader with no / all-1 / random short reads, duck-typed streams without seekable()/readable(): read+seek+tell at 0 and at k also with short reads, read+raising seek, read only) x scaled adjuster limits x checksum on/off, each run through the real '
        'TransferManager (NonThreadedExecutor) + FakeS3 and through the extracted model; the same with scripted sign reads and 0..3 '
        'resends cut at random points; copies and legacy upload_file on the same grid; scheduled multi-threaded runs (random/PCT) '
        'replayed on the model in the order the service applied the parts. distinct = distinct model command line (inputs) / '
        'distinct event trace for scheduled runs; non-trivial = every case (each checks bytes and complete arguments).')
    tmpdir = tempfile.mkdtemp(prefix='verif-c01-')
    try:
        if ctx.broken is not None:
            search_after_break(ctx, tmpdir)
            return
        check_uploads(ctx, tmpdir, with_retries=False)
        check_uploads(ctx, tmpdir, with_retries=True)
        check_copies(ctx)
        check_legacy(ctx, tmpdir)
        check_final_send(ctx)
        check_sched(ctx)
        check_sched_faults(ctx)
        if ctx.broken is not None and not ctx.violations:
            ctx.report('broken:' + ctx.broken.what, ctx.broken.what,
                       {'kind': 'theorem', 'theorem_or_correspondence': ctx.broken.what, 'log': ctx.broken.log},
                       no_input=True)
    finally:
        shutil.rmtree(tmpdir, ignore_errors=True)


def replay(ctx, data):
    case = data.get('case') or {}
    fam = data.get('family')
    if isinstance(case, dict) and 'transfers' in case and 'cfg' in case and fam is None:
        from harness.props import sysrun
        return sysrun.replay_spec(ctx, data, faulted_mons())
    tmpdir = tempfile.mkdtemp(prefix='verif-c01-')
    try:
        if fam == 'upload':
            v, obs = oracle_upload(case, tmpdir)
            print('oracle:', v)
            if v is None and data.get('kind') == 'correspondence':
                common.build('C01', EXTRACT, COMPONENTS)
                i = impl_line_upload(case, obs)
                m = common.run_model('uploadsrc', [model_line_upload(case)])[0]
                print('impl :', i, '\nmodel:', m)
                return i != m
            if v is None and obs['exc'] is not None:
                print('upload failed:', obs['exc'])
                return True
            return v is not None
        if fam == 'copy':
            obs = run_copy_case(case)
            v = check_service(obs['client'], obs['data'], case['thr'], case['limits'][0], alg=bool(case.get('alg')),
                              exc=obs['exc'], copy=True)
            print('oracle:', v)
            if v is None and data.get('kind') == 'correspondence':
                common.build('C01', EXTRACT, COMPONENTS)
                i = impl_line_copy(case, obs)
                m = common.run_model('uploadsrc', [model_line_copy(case)])[0]
                print('impl :', i, '\nmodel:', m)
                return i != m
            return v is not None
        if fam == 'legacy':
            obs = run_legacy_case(case, tmpdir)
            v = check_service(obs['client'], obs['data'], case['thr'], 1, exc=obs['exc'])
            print('oracle:', v)
            return v is not None
        if fam == 'sched':
            r = run_sched(case)
            v = sched_oracle(case, r)
            print('oracle:', v)
            return v is not None
    finally:
        shutil.rmtree(tmpdir, ignore_errors=True)
    run(ctx)
    return bool(ctx.violations)
